import sys, json
pid=sys.argv[1]
first=int(sys.argv[2]) if len(sys.argv)>2 else 1
last=first+2
wt="/tmp/wt-%s"%pid.lower()
import glob, os
tried=[]
if len(sys.argv)>3 and sys.argv[3]=='tried':
    for mf in sorted(glob.glob('/verif/seeded/%s-m*/meta.json'%pid)):
        try:
            tried.append('- '+json.load(open(mf)).get('summary','')[:260].replace('\n',' '))
        except Exception: pass
TRIED=('\nThe following ideas have ALREADY been used by others for this property; do NOT repeat them or close variants of them - find different mechanisms, different code sites, different triggering conditions:\n'+'\n'.join(tried)+'\n') if tried else ''
prop=None
for l in open('/verif/properties.jsonl'):
    p=json.loads(l)
    if p['id']==pid:
        prop="ID: %s\nTitle: %s\nStatement: %s\nQuantifier: %s\nAnchors: %s\n" % (p['id'],p['title'],p['statement'],p['quantifier']['text'], json.dumps(p['anchors']))
print(f"""You are helping to evaluate a verification effort by producing realistic *property-breaking changes* (seeded bugs) for the Go library fiorix/go-diameter (a Diameter base protocol implementation, RFC 6733).

Work ONLY inside the git worktree {wt} (a scratch checkout of the library). Do not read or touch /verif or /repo. Use this environment for every go command: `export GOFLAGS=-mod=mod GOPROXY=off GOSUMDB=off GOTOOLCHAIN=local` (no network is available).

The semantic property that must normally hold:

{prop}
{TRIED}
Task: produce THREE different, independent source changes to the library (each a small patch, 1-15 lines, to non-test .go files under {wt}/diam) such that each one:
  1. still compiles (`go build ./...` and `go vet ./diam/...` do not get worse),
  2. still passes the existing pinned test-suite: run `cd {wt} && go test -vet=off -count=1 ./diam/ ./diam/datatype/ ./diam/dict/ ./diam/sm/smparser/ ./diam/sm/smpeer/ 2>&1 | tail -20` and compare with the result on the unmodified tree. NOTE: on the unmodified tree the packages ./diam and ./diam/sm abort at their first SCTP test (no SCTP in this sandbox) - tests that run before that point must still pass; to be safe run the non-SCTP tests explicitly, e.g. `go test -vet=off -count=1 -run 'Test[^C]|TestC[^a]' ./diam/` style filters, and make sure every test that passes on the unmodified tree still passes with your change;
  3. BREAKS the property above in a way a user could really suffer from;
  4. needs something specific to manifest: a particular interleaving, a fault at a particular point, a multi-step sequence of operations, an unusual-but-legal input (boundary value, rare type, particular length class, nesting), or two cooperating sites that each look fine alone. NOT something ordinary use would expose at once, and not something the existing tests catch. Prefer changes that look like plausible refactorings / optimisations / "fixes" a developer might really make.
  5. The source contains one-line calls `vevent("...", ...)` (no-ops unless the build tag `verif` is set): leave every such line in place and unchanged, and do not touch files named *verif*.
  Look beyond the first idea that comes to mind at each site: boundary arithmetic, error paths, rarely taken branches, lifetime of buffers, ordering of two statements, lock scope, channel capacity, a condition that is almost equivalent.
  Make the three changes exercise different mechanisms of the property (different anchored code sites / different clauses of the statement).

For each change i in {first}..{last} create the directory {wt}/mutants/{pid}-m<i>/ containing:
  - patch.diff  : `git diff` output of ONLY that change relative to the clean worktree (must apply with `git apply` on a clean checkout),
  - demo_test.go (a Go test in package diam_test or the appropriate package, to be copied into the right package directory; say which in meta.json) or demo/main.go (a small program): a demonstration that FAILS with the change applied and PASSES without it. Keep it self-contained, deterministic, fast (<10 s), and not dependent on SCTP or the network (use net.Pipe or in-memory io.Reader/Writers if a connection is needed),
  - meta.json : {{"property": "{pid}", "summary": "...what was changed...", "needs": "...what is required for the violation to manifest...", "demo": "how to run the demonstration (exact commands, where to copy the file)", "verified": "what you ran and observed with and without the change"}}.
After producing each patch, `git checkout -- .` (keep the untracked mutants/ directory) so the worktree is clean again before the next one; at the end the worktree must be clean except for mutants/. Do NOT use `git stash` (the stash is shared between worktrees of this repository); use `git apply -R` or `git checkout -- .` to undo a change. Actually verify all of the points above by running the commands; do not guess. Finish with a short report listing the three mutants and what each needs to manifest.""")
