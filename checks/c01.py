from checks import codec_common

def run(ctx):
    return codec_common.run(ctx, "C01")
