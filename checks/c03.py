"""C03: decoding arbitrary bytes never panics, crashes or over-allocates (spec/CorruptGen.tla, spec/RobustTrace.tla)."""
import json, os, re
from lib import vlib


def klass(line):
    r = line["recipe"]
    if r in ("claimed-length", "avp-claimed-length", "nested-groups-depth", "random-bytes", "random-mutation", "typed-length", "unknown-avp-flood", "sibling-groups"):
        return r
    m = re.findall(r'"(len|flag|cut)"', r)
    return "structured:" + "+".join(m)


def run(ctx):
    quick = ctx.tier == "quick"
    if ctx.replay:
        cases = [json.load(open(ctx.replay))["case"]]
        nrand = 0
        g = dict(generated=0, distinct=0)
    else:
        g = vlib.tlc_generate(ctx.scratch, "CorruptGen", "CorruptGen_quick.cfg" if quick else "CorruptGen_thorough.cfg", workers=8, timeout=2400)
        cases = g["cases"]
        nrand = 500 if quick else 40000
    ctx.log("R2: %d structured corruptions from TLC" % len(cases))
    d = ctx.scratch.sub("h")
    cpath, tpath = os.path.join(d, "cases.ndjson"), os.path.join(d, "trace.ndjson")
    vlib.write_ndjson(cpath, cases)
    p = vlib.run_harness(ctx.harness, ["robust", "-cases", cpath, "-out", tpath, "-seed", str(ctx.seed), "-n", str(nrand), "-tier", ctx.tier, "-repo", vlib.REPO], timeout=3000)
    died = []
    if p.returncode != 0:
        if "fatal error" in p.stderr or "panic" in p.stderr or p.returncode < 0:
            died.append(p.stderr[-600:])
        else:
            raise vlib.Infra("robust driver failed: " + p.stderr[-2000:])
    lines = vlib.read_ndjson(tpath) if os.path.exists(tpath) else []
    # heavy cases in child processes with a time limit: deep nesting
    # depth 0 = the deepest nest a 16 MiB message can hold (about two million levels), decode only
    # depth -1 = four goroutines decoding messages full of AVPs nobody defines, each with another code
    heavy = [0, -1] if quick else [4096, 16384, 0, -1]
    for depth in heavy:
        tp = os.path.join(d, "nest%d.ndjson" % depth)
        try:
            ph = vlib.run_harness(ctx.harness, ["robust", "-out", tp, "-n", str(depth), "-x", "one=nest" if depth > 0 else ("one=maxnest" if depth == 0 else "one=flood"), "-repo", vlib.REPO], timeout=120 if quick else 300)
            if ph.returncode != 0:
                died.append("nested depth %d: %s" % (depth, ph.stderr[-300:]))
            else:
                lines += vlib.read_ndjson(tp)
        except vlib.Infra:
            ctx.log("nested depth %d exceeded its CPU budget: counted as not judged (slow)" % depth)
    bad, st = vlib.tlc_validate(ctx.scratch, "RobustTrace", "RobustTrace.cfg", [dict(l, hex="", detail=l["detail"][:80]) for l in lines], timeout=2400)
    slow = sum(1 for l in lines if l["outcome"] == "slow" or any(p_["outcome"] == "slow" for p_ in l["post"]))
    ctx.log("R3: %d decode observations (%d not judged: slow), %d rejected, %d process deaths" % (len(lines), slow, len(bad), len(died)))
    v = vlib.Verdict("C03")
    for e in died:
        v.report("process-died", {}, detail=e.replace("\n", " ")[-300:])
    for i, why in bad:
        line = lines[i]
        for reason in [w.strip().strip('"') for w in why.split(",")]:
            ops = [p_["op"] for p_ in line["post"] if p_["outcome"] == "panic" or p_["alloc_kb"] * 1024 > 256 * line["n"] + 1048576]
            sig = "%s:%s:%s%s" % (line["entry"], reason, klass(line), (":" + "+".join(ops)) if reason.startswith("post") else "")
            v.report(sig, dict(bytes=[int(line["hex"][k:k + 2], 16) for k in range(0, len(line["hex"]), 2)] if line["n"] <= 48 else [], recipe=line["recipe"]),
                     detail="n=%d outcome=%s detail=%s alloc_kb=%d outlen=%d post=%s hex=%s" % (line["n"], line["outcome"], line["detail"][:120], line["alloc_kb"], line["outlen"],
                                                                                          [(p_["op"], p_["outcome"], p_["alloc_kb"]) for p_ in line["post"] if p_["outcome"] not in ("ok", "err")][:4], line["hex"]))
    keys = set((l["recipe"], l["entry"]) if l["recipe"] not in ("random-bytes", "random-mutation") else (l["recipe"], l["id"], l["entry"]) for l in lines)
    cov = dict(states=g["distinct"] + st["distinct"], transitions=g["generated"] + st["generated"],
               traces_validated_against_impl=len(lines), evaluations=len(lines) + sum(len(l["post"]) for l in lines), distinct_nontrivial=len(keys),
               rule="inputs = every state of spec/CorruptGen.tla (five base messages incl. nested groups x every length field at every depth set to each boundary value, every flag bit flipped, truncation at every offset; thorough: pairs) "
                    "+ lengths claimed but not supplied (message and AVP) + groups nested 1..4096 deep, and the deepest nest a 16 MiB message can hold in a child process (thorough: further depths in child processes) + seeded random byte strings and random mutations of valid messages; each offered to ReadMessage, DecodeHeader, "
                    "DecodeAVP, DecodeGrouped and every datatype decoder, with String / PrettyDump / Serialize / Unmarshal / FindAVP(s) / FindAVPsWithPath on every decoded message; every input differs from a valid message (non-trivial); distinct by (mutation, entry point) Since extended: follow-ups WriteTo / Answer / Len; the deepest nest a 16 MiB message can hold, in a child process whose stack is limited to 16 x the input; typed inputs (wrong-length payloads of every type, V flag with vendor 0 and no payload) inspected through every consumer; a flood of unknown AVPs decoded by four goroutines; groups with up to 1024 grouped siblings.",
               samples=[dict(recipe=l["recipe"], entry=l["entry"], n=l["n"], outcome=l["outcome"], alloc_kb=l["alloc_kb"], hex=l["hex"]) for l in lines[7:len(lines):max(1, len(lines) // 3)]][:3],
               exhaustive=False, not_judged_slow=slow, rejected=len(bad), known_finding_hits={k: n for k, (n, _) in v.hits.items()})
    rc = v.finish()
    vlib.write_evidence("C03", ctx.tier, ctx.seed, cov, ctx.wall(), v.nviol,
                        ["memory = TotalAlloc delta with the collector off; bound 256 x bytes supplied + 1 MiB", "no coverage feedback: the search is guided by the model's structure",
                         "a case exceeding its CPU budget is counted as not judged"])
    return rc
