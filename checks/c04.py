"""C04: AVP boundaries are taken from the Length fields only (spec/Wire.tla Frame)."""
import json, os, re
from lib import vlib


def sig_of(line, reason):
    note = line["note"]
    if note == "rand":
        return "%s:%s:rand" % (line["entry"], reason)
    # note is the TLA+ string of the case: keep depth class, kind and whether the payload length fits the type
    m = re.findall(r'"([a-zA-Z0-9-]+)"', note)
    nums = re.findall(r'(\d+)', note)
    return "%s:%s:%s" % (line["entry"], reason, "/".join(m))


def run(ctx):
    quick = ctx.tier == "quick"
    if ctx.replay:
        cases = [json.load(open(ctx.replay))["case"]]
        nrand = 0
        g = dict(generated=0, distinct=0)
    else:
        g = vlib.tlc_generate(ctx.scratch, "FrameGen", "FrameGen_quick.cfg", workers=8)
        cases = g["cases"]
        nrand = 4000 if quick else 150000
    d = ctx.scratch.sub("h")
    cpath, tpath = os.path.join(d, "cases.ndjson"), os.path.join(d, "trace.ndjson")
    vlib.write_ndjson(cpath, cases)
    p = vlib.run_harness(ctx.harness, ["frame", "-cases", cpath, "-out", tpath, "-seed", str(ctx.seed), "-n", str(nrand), "-repo", vlib.REPO], timeout=1200)
    if p.returncode != 0:
        raise vlib.Infra("frame driver failed: " + p.stderr[-2000:])
    lines = vlib.read_ndjson(tpath)
    ctx.log("R2: %d bodies from TLC + %d random; %d trace lines" % (len(cases), nrand, len(lines)))
    bad, st = vlib.tlc_validate(ctx.scratch, "FrameTrace", "FrameTrace.cfg", lines, timeout=1500)
    ctx.log("R3: %d rejected" % len(bad))
    v = vlib.Verdict("C04")
    for i, why in bad:
        line = lines[i]
        reason = why.strip().strip('"')
        v.report(sig_of(line, reason), dict(body=line["body"], note=line["note"]), detail="entry=%s err=%s note=%s" % (line["entry"], line["err"], line["note"]))
    tolerated = sum(1 for l in lines if not l["ok"])
    keys = set((l["note"], l["entry"]) if l["note"] != "rand" else ("rand", l["id"], l["entry"]) for l in lines)
    cov = dict(states=g["distinct"] + st["distinct"], transitions=g["generated"] + st["generated"],
               traces_validated_against_impl=len(lines), evaluations=len(lines), distinct_nontrivial=len(keys),
               rule="bodies = every state of spec/FrameGen.tla (fixed-width types x payload length 0..20 x smuggled headers x nesting depth 0..2 x follower position, Address families x lengths, "
                    "declared lengths below the header size / beyond the container) + seeded random record sequences (<= 40 AVPs, depth <= 4), each decoded through ReadMessage and DecodeGrouped; "
                    "every generated body is non-trivial by construction (payload length differs from the type's width, or nesting, or a malformed length); distinct by case note / random id and entry point",
               samples=[dict(note=l["note"], entry=l["entry"], body=l["body"][:48], ok=l["ok"]) for l in lines[0:400:133]],
               exhaustive=False, decoder_errors_total=tolerated, rejected_lines=len(bad),
               known_finding_hits={k: n for k, (n, _) in v.hits.items()})
    rc = v.finish()
    vlib.write_evidence("C04", ctx.tier, ctx.seed, cov, ctx.wall(), v.nviol,
                        ["TLC evaluates Wire!Frame faithfully", "the decoder's report is read from AVP.Code/Flags/VendorID/Length/Data of the returned message"])
    return rc
