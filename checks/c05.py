"""C05: message boundaries in a byte stream follow the declared message length (spec/StreamRef.tla, Stream.tla)."""
import json, os
from lib import vlib


def klass(line):
    if any(x < 20 for x in line["lens"]):
        return "declared-below-header"
    tot = sum(max(x, 20) for x in line["lens"])
    if line["total"] < tot:
        return "truncated"
    return "whole"


def run(ctx):
    quick = ctx.tier == "quick"
    r1 = vlib.tlc_check(ctx.scratch, "Stream", "Stream_r1.cfg", workers=8)
    ctx.log("R1: Stream reader model, all fragmentations: %d distinct states, results = Expected" % r1["distinct"])
    if ctx.replay:
        cases = [json.load(open(ctx.replay))["case"]]
        nrand = 0
        g = dict(generated=0, distinct=0)
    else:
        g = vlib.tlc_generate(ctx.scratch, "StreamGen", "StreamGen_quick.cfg" if quick else "StreamGen_thorough.cfg", workers=8, timeout=1800)
        cases = g["cases"]
        nrand = 300 if quick else 6000
    d = ctx.scratch.sub("h")
    cpath, tpath = os.path.join(d, "cases.ndjson"), os.path.join(d, "trace.ndjson")
    vlib.write_ndjson(cpath, cases)
    p = vlib.run_harness(ctx.harness, ["stream", "-cases", cpath, "-out", tpath, "-seed", str(ctx.seed), "-n", str(nrand), "-repo", vlib.REPO], timeout=2400)
    if p.returncode != 0:
        raise vlib.Infra("stream driver failed: " + p.stderr[-2000:])
    lines = vlib.read_ndjson(tpath)
    ctx.log("R2: %d streams from TLC + %d random; %d trace lines" % (len(cases), nrand, len(lines)))
    bad, st = vlib.tlc_validate(ctx.scratch, "StreamTrace", "StreamTrace.cfg", lines, timeout=1500)
    ctx.log("R3: %d rejected" % len(bad))
    v = vlib.Verdict("C05")
    for i, why in bad:
        line = lines[i]
        for reason in [w.strip().strip('"') for w in why.split(",")]:
            v.report("%s:%s:%s" % (line["path"], reason, klass(line)), dict(lens=line["lens"], total=line["total"], chunks=line["chunks"]),
                     detail="results=%s err=%s" % (line["results"][-2:], line["err"]))
    keys = set()
    for l in lines:
        if len(l["lens"]) >= 2 or len(l["chunks"]) >= 2 or klass(l) != "whole":
            keys.add((l["path"], tuple(l["lens"]), l["total"], tuple(l["chunks"][:50]), len(l["chunks"])))
    cov = dict(states=r1["distinct"] + g["distinct"] + st["distinct"], transitions=r1["generated"] + g["generated"] + st["generated"],
               traces_validated_against_impl=len(lines), evaluations=len(lines), distinct_nontrivial=len(keys),
               rule="R1: spec/Stream.tla (ReadFull header, ReadFull body over a fragmenting source) explored for every stream of <= 3 scaled messages, every truncation and every fragmentation; "
                    "R2: spec/StreamGen.tla enumerates real-size streams (sizes around the 1 KiB pooled buffer) x <= 2 split points at landmarks x truncation landmarks x declared lengths 0..19; "
                    "plus seeded random long streams (<= 200 messages, 1-byte reads included); each read by ReadMessage on a fragment-exact reader and by a real connection over memnet. "
                    "non-trivial = >= 2 messages, or a split, or a truncation, or a declared length < 20; distinct by (path, sizes, cut, fragmentation) Since extended: a fourth path, an accepted connection of a server with ReadTimeout whose peer stalls after `stallat` bytes for longer than the timeout (model action Timeout); data returned together with EOF by the reader; a slow but healthy peer under ReadTimeout (two waits of 0.6 x the timeout, the second inside a message); messages above 64 KiB; MessageBufferLength raised at run time; a caller's own bufio.Reader; last bytes with EOF under CloseNotify.",
               samples=[dict(path=l["path"], lens=l["lens"][:6], total=l["total"], chunks=l["chunks"][:8], results=l["results"][:4]) for l in lines[0:len(lines):max(1, len(lines) // 3)]][:4],
               exhaustive=False, r1_states=r1["distinct"], rejected_lines=len(bad), known_finding_hits={k: n for k, (n, _) in v.hits.items()})
    rc = v.finish()
    vlib.write_evidence("C05", ctx.tier, ctx.seed, cov, ctx.wall(), v.nviol,
                        ["TLC evaluates StreamRef!Expected faithfully", "message i is recognised by its hop-by-hop id and payload bytes (all equal to i)",
                         "the connection path cannot observe exact consumption (bufio read-ahead); it is judged on results only"])
    return rc
