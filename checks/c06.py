"""C06: a decoded message never changes after it has been returned (spec/PoolImpl.tla, spec/PoolTrace.tla)."""
import json, os
from lib import vlib


def run(ctx):
    quick = ctx.tier == "quick"
    r1 = vlib.tlc_check(ctx.scratch, "PoolImpl", "PoolImpl_r1.cfg", workers=2)
    ra = vlib.tlc_check(ctx.scratch, "PoolImpl", "PoolImpl_views.cfg", workers=1, expect_violation="Immutable")
    ctx.log("R1: PoolImpl %d distinct states: with copy-on-decode the retained message is immutable; with views into the pooled buffer Immutable is violated, as it must" % r1["distinct"])
    if ctx.replay:
        cases = [json.load(open(ctx.replay))["case"]]
        g = dict(generated=0, distinct=0)
    else:
        g = vlib.tlc_generate(ctx.scratch, "PoolGen", "PoolGen_quick.cfg" if quick else "PoolGen_thorough.cfg", workers=4)
        cases = g["cases"]
    d = ctx.scratch.sub("h")
    cpath, tpath = os.path.join(d, "cases.ndjson"), os.path.join(d, "trace.ndjson")
    vlib.write_ndjson(cpath, cases)
    p = vlib.run_harness(ctx.harness, ["immut", "-cases", cpath, "-out", tpath, "-seed", str(ctx.seed), "-repo", vlib.REPO], timeout=2400)
    if p.returncode != 0:
        raise vlib.Infra("immut driver failed: " + p.stderr[-2000:])
    lines = vlib.read_ndjson(tpath)
    bad, st = vlib.tlc_validate(ctx.scratch, "PoolTrace", "PoolTrace.cfg", lines, timeout=1200)
    ctx.log("R2: %d histories; R3: %d lines, %d rejected" % (len(cases), len(lines), len(bad)))
    v = vlib.Verdict("C06")
    for i, why in bad:
        line = lines[i]
        v.report("%s:%s:depth%d:%s" % (why.strip().strip('"'), line["kind"], line["depth"], line["size"]),
                 dict(kind=line["kind"], depth=line["depth"], size=line["size"], history=line["history"]), detail=line["detail"][:300])
    keys = set(json.dumps([l["kind"], l["depth"], l["size"], l["history"]]) for l in lines)
    cov = dict(states=r1["distinct"] + ra["distinct"] + g["distinct"] + st["distinct"], transitions=r1["generated"] + ra["generated"] + g["generated"] + st["generated"],
               traces_validated_against_impl=len(lines), evaluations=sum(len(l["after"]) for l in lines), distinct_nontrivial=len(keys),
               rule="retained message = {Address IPv4 / IPv6 / other family, unknown AVP, IPv4, IPv6, OctetString, UTF8String, Unsigned32, Time, all of them} x nesting depth 0..2 x {<= 1 KiB, > 1 KiB}, followed by every history "
                    "of up to MaxLater later reads x {same goroutine, another goroutine, a real connection's serve loop} x {<= 1 KiB, > 1 KiB} of a same-layout message with complemented bytes (spec/PoolGen.tla, exhaustive); "
                    "one P and the collector off make sync.Pool hand the released buffer to the next reader. every history has a later read; distinct by (type, depth, size, history) Since extended: variable-length values of payload lengths up to the one that fills the 1 KiB pooled buffer exactly; raw wire kinds the reader may refuse (IPv4 in mapped form, damaged optional group, IPv4-mapped Address); the snapshot starts with the header as it stands and includes WriteTo; P-flagged AVPs; fixed-size types with a wrong-length payload; messages retained from the SCTP read path and by a handler of a served connection; an error answer with an undecodable member; empty groups filled by the owner of a later message.",
               samples=[dict(kind=l["kind"], depth=l["depth"], size=l["size"], history=l["history"], before=l["before"], after=l["after"]) for l in lines[0:len(lines):max(1, len(lines) // 3)]][:3],
               exhaustive=True, rejected=len(bad), known_finding_hits={k: n for k, (n, _) in v.hits.items()})
    rc = v.finish()
    vlib.write_evidence("C06", ctx.tier, ctx.seed, cov, ctx.wall(), v.nviol, ["GOMAXPROCS(1) with the collector off makes buffer reuse deterministic; other pool behaviours are covered by the model only"])
    return rc
