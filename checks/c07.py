"""C07: concurrent and retried writes deliver each message whole, exactly once (spec/WriteImpl.tla, spec/Write.tla)."""
import json, os
from lib import vlib


def run(ctx):
    quick = ctx.tier == "quick"
    r1 = vlib.tlc_check(ctx.scratch, "WriteImpl", "WriteImpl_r1.cfg", workers=4)
    ra = vlib.tlc_check(ctx.scratch, "WriteImpl", "WriteImpl_nolock.cfg", workers=1, expect_violation="WholeMessages")
    rb = vlib.tlc_check(ctx.scratch, "WriteImpl", "WriteImpl_perpart.cfg", workers=1, expect_violation="WholeMessages")
    ctx.log("R1: WriteImpl %d distinct states: one transport write at a time, whole messages, per-writer order, exactly once; without the lock, or with the lock released between the transport writes of one message, WholeMessages is violated, as it must" % r1["distinct"])
    if ctx.replay:
        cases = [json.load(open(ctx.replay))["case"]]
        nconc = 0
        g = dict(generated=0, distinct=0)
    else:
        g = vlib.tlc_generate(ctx.scratch, "WriteGen", "WriteGen_quick.cfg" if quick else "WriteGen_thorough.cfg", workers=4)
        cases = g["cases"]
        nconc = 60 if quick else 1200
    d = ctx.scratch.sub("h")
    cpath, tpath = os.path.join(d, "cases.ndjson"), os.path.join(d, "trace.ndjson")
    vlib.write_ndjson(cpath, cases)
    p = vlib.run_harness(ctx.harness, ["write", "-cases", cpath, "-out", tpath, "-seed", str(ctx.seed), "-n", str(nconc), "-repo", vlib.REPO], timeout=2400)
    if p.returncode != 0:
        raise vlib.Infra("write driver failed: " + p.stderr[-2000:])
    lines = vlib.read_ndjson(tpath)
    bad, st = vlib.tlc_validate(ctx.scratch, "WriteTrace", "WriteTrace.cfg", lines, timeout=1200)
    ctx.log("R2: %d outcome sequences x 2 targets + %d concurrency schedules; R3: %d lines, %d rejected" % (len(cases), nconc, len(lines), len(bad)))
    v = vlib.Verdict("C07")
    for i, why in bad:
        line = lines[i]
        for reason in [w.strip().strip('"') for w in why.split(",")]:
            if line["ev"] == "retry":
                errs = [o["err"] for o in line["outcomes"]]
                partial = any(o["err"] == "tmp" and o["acc"] > 0 for o in line["outcomes"])
                sig = "retry:%s:%s:%s" % (line["target"], reason, "tmp-after-partial" if partial else ("tmp" if "tmp" in errs else "other"))
                v.report(sig, dict(kind="retry", outcomes=line["outcomes"], retries=line["retries"]), detail="obs=%s" % json.dumps(line["obs"]))
            else:
                v.report("conc:%s" % reason, dict(writers=line["writers"], per=line["per"], sizes=line["sizes"], stall_at=line["stall_at"]), detail="obs=%s" % json.dumps(line["obs"])[:300])
    keys = set(json.dumps([l.get("target"), l.get("outcomes"), l.get("retries"), l.get("sizes"), l.get("stall_at")]) for l in lines
               if (l["ev"] == "conc") or any(o["err"] == "tmp" for o in l["outcomes"]))
    cov = dict(states=r1["distinct"] + ra["distinct"] + g["distinct"] + st["distinct"], transitions=r1["generated"] + ra["generated"] + g["generated"] + st["generated"],
               traces_validated_against_impl=len(lines), evaluations=len(lines), distinct_nontrivial=len(keys),
               rule="R1: spec/WriteImpl.tla, 3 writers x 2 messages x 2 transport writes per message, every interleaving with stalls; R2: every sequence of (bytes accepted in {0,10,43}, none|temporary|permanent) outcomes within "
                    "every retry budget (spec/WriteGen.tla, exhaustive), applied to a bare io.Writer under Message.WriteToWithRetry and to the net.Conn under a diam.Conn; plus seeded concurrency schedules (2-3 writer goroutines, sizes on "
                    "both sides of the 1 KiB serialisation pool and the 4 KiB buffer, the k-th transport write stalled while the others start). non-trivial = a temporary error or overlapping writers; distinct by scenario Since extended: schedules in which every transport write is slow, sizes up to 20000; a server with WriteTimeout as third retry target (errors are deadline expiries, the write is made by a handler); Serialize(A) / WriteTo(B) / Conn.Write(A); writers on the dialled Conn and on a handler's Conn of the same connection; two answers in quick succession under WriteTimeout over a transport that honours write deadlines; answers carrying stream 0 among locally created messages.",
               samples=[l for l in lines[3:len(lines):max(1, len(lines) // 3)]][:3], exhaustive=False, rejected=len(bad),
               known_finding_hits={k: n for k, (n, _) in v.hits.items()})
    rc = v.finish()
    vlib.write_evidence("C07", ctx.tier, ctx.seed, cov, ctx.wall(), v.nviol, ["concurrency schedules are forced through transport stalls, not enumerated inside the Go runtime"])
    return rc
