"""C08: on one connection handlers run one at a time, in arrival order; no interference across connections
(spec/SerialImpl.tla model; spec/Serial.tla monitor)."""
import json, os
from lib import vlib


CONF_CFG = """CONSTANTS Conns = {1, 2, 3, 4, 5, 6, 7, 8}
  MaxMsgs = 1000
  PerMessageGoroutine = FALSE
  GlobalLock = FALSE
INIT TInit
NEXT TNext
CONSTRAINT HW
POSTCONDITION Post
CHECK_DEADLOCK FALSE
"""


def conformance(ctx, scen):
    """Hook-level conformance: arrivals (test) and serve.msg / serve.ret (verif hook in conn.serve) of every scenario
    must be a behaviour of spec/SerialImpl.tla (spec/SerialImplTrace.tla). Drift is reported in the evidence only."""
    if not scen:
        return dict(status="skipped", scenarios=0)
    r = vlib.impl_conformance(ctx, "SerialImplTrace", CONF_CFG, scen, [("ev", ""), ("c", 0)], "ser")
    ctx.log("impl conformance: %d scenarios replayed against SerialImpl (%s TLC states), %s" % (r.get("scenarios", 0), r.get("tlc_states", "?"), r["status"]))
    return r


def run(ctx):
    quick = ctx.tier == "quick"
    r1 = vlib.tlc_check(ctx.scratch, "SerialImpl", "SerialImpl_r1.cfg", workers=4)
    ra = vlib.tlc_check(ctx.scratch, "SerialImpl", "SerialImpl_goroutine.cfg", workers=1, expect_violation="OneAtATime")
    rb = vlib.tlc_check(ctx.scratch, "SerialImpl", "SerialImpl_globallock.cfg", workers=1, expect_violation="NoInterference")
    ctx.log("R1: SerialImpl %d distinct states: OneAtATime, InOrder, PreviousReturned, NoInterference hold; a goroutine per message violates OneAtATime and a global dispatch lock violates NoInterference, as they must" % r1["distinct"])
    if ctx.replay:
        cases = [json.load(open(ctx.replay))["case"]]
        g = dict(generated=0, distinct=0)
    else:
        g = vlib.tlc_generate(ctx.scratch, "SerialGen", "SerialGen_quick.cfg" if quick else "SerialGen_thorough.cfg", workers=2)
        cases = g["cases"]
    d = ctx.scratch.sub("h")
    cpath, tpath = os.path.join(d, "cases.ndjson"), os.path.join(d, "trace.ndjson")
    vlib.write_ndjson(cpath, cases)
    # scenarios with a scripted handler panic run in a process of their own, after the others (a library that does
    # not contain the panic kills that process only)
    cases = [c for c in cases if c.get("flavour") != "panicreg"] + [c for c in cases if c.get("flavour") == "panicreg"]
    npan = sum(1 for c in cases if c.get("flavour") == "panicreg")
    if npan and npan < len(cases):
        vlib.write_ndjson(cpath, cases[:-npan])
        vlib.write_ndjson(cpath + ".p", cases[-npan:])
    p = vlib.run_harness(ctx.harness, ["serial", "-cases", cpath, "-out", tpath, "-seed", str(ctx.seed), "-repo", vlib.REPO], timeout=int(os.environ.get("VERIF_SERIAL_TIMEOUT", "900")))
    died = None
    if p.returncode != 0:
        if "panic:" in p.stderr or "fatal error" in p.stderr:
            # the driver process was killed from inside the library's goroutines (e.g. a handler panic that nothing
            # recovered because the handler no longer runs in the serve goroutine): an observation, not an infrastructure fault
            died = p.stderr[p.stderr.find("panic:") if "panic:" in p.stderr else p.stderr.find("fatal error"):][:400].replace("\n", " ")
        else:
            raise vlib.Infra("serial driver failed: " + p.stderr[-2000:])
    alllines = vlib.read_ndjson(tpath) if os.path.exists(tpath) else []
    if npan and npan < len(cases):
        p2 = vlib.run_harness(ctx.harness, ["serial", "-cases", cpath + ".p", "-out", tpath + ".p", "-seed", str(ctx.seed), "-repo", vlib.REPO, "-x", "first=%d" % (len(cases) - npan + 1)], timeout=600)
        if p2.returncode != 0:
            if "panic:" in p2.stderr or "fatal error" in p2.stderr:
                died = p2.stderr[p2.stderr.find("panic:") if "panic:" in p2.stderr else p2.stderr.find("fatal error"):][:400].replace("\n", " ")
            else:
                raise vlib.Infra("serial driver failed: " + p2.stderr[-2000:])
        more = vlib.read_ndjson(tpath + ".p") if os.path.exists(tpath + ".p") else []
        off = max([l["sc"] for l in alllines] + [0])
        for l in more:
            l["sc"] += off
        alllines += more
    lines = [l for l in alllines if l["ev"] != "hooklog"]
    conf = conformance(ctx, [dict(case=l["sc"], events=l.get("hooks") or []) for l in alllines if l["ev"] == "hooklog"])
    bad, st = vlib.tlc_validate(ctx.scratch, "SerialTrace", "SerialTrace.cfg", lines, timeout=1800, reset_key=lambda l: l["ev"] == "reset")
    nsc = sum(1 for l in lines if l["ev"] == "reset")
    ctx.log("R2: %d scenarios; R3: %d events in %d scenarios validated, %d rejected" % (len(cases), len(lines), nsc, len(bad)))
    v = vlib.Verdict("C08")
    if died:
        v.report("process-died", dict(driver="serial", seed=ctx.seed), detail=died)
    resets = {}
    for l in lines:
        if l["ev"] == "reset":
            resets[l["sc"]] = l["case"]
    for i, why in bad:
        line = lines[i]
        case = resets.get(line["sc"], {})
        v.report("%s:%s:%s:hold=%s" % (case.get("via"), why.strip().strip('"'), case.get("pattern"), "yes" if case.get("holdc") else "no"), case,
                 detail="event=%s" % json.dumps({k: line[k] for k in ("ev", "c", "i", "seq")}))
    keys = set(json.dumps(c, sort_keys=True) for c in cases if c["holdc"] or c["conns"] > 1)
    cov = dict(states=r1["distinct"] + ra["distinct"] + rb["distinct"] + g["distinct"] + st["distinct"],
               transitions=r1["generated"] + ra["generated"] + rb["generated"] + g["generated"] + st["generated"],
               traces_validated_against_impl=nsc, evaluations=len(lines), distinct_nontrivial=len(keys),
               rule="R1: spec/SerialImpl.tla for 2 connections x 3 messages with one held handler, every interleaving; R2: 1-3 connections (accepted by Server.Serve on an in-memory listener, or diam.NewConn) x 2-3 messages x "
                    "{burst in one segment, one byte at a time, interleaved across connections} x every placement of one held handler; handlers record enter/exit under one lock; while a handler is held every other connection "
                    "must finish within a 5 s positive deadline and the held connection's next handler must not start during a 30 ms grace period. non-trivial = a handler is held or several connections; distinct by scenario Since extended: connections dialled over loopback TCP (diam.Dial), accepted by a server with WriteTimeout shorter than the hold, multi-stream associations; GOMAXPROCS connections whose handlers are stuck in WriteTo plus one more; flavours dwr, regpending, cn (newest-reader-first transport), panicreg (own harness process), cneof; a burst of 24 behind a held handler; via sm (state machine server, peers with one Origin-Host); hook-level conformance of the serve loops.",
               samples=[l for l in lines[:6]], exhaustive=True, impl_conformance=conf, rejected=len(bad), known_finding_hits={k: n for k, (n, _) in v.hits.items()})
    rc = v.finish()
    vlib.write_evidence("C08", ctx.tier, ctx.seed, cov, ctx.wall(), v.nviol,
                        ["negative observations are one-sided (a grace period can only miss a violation)", "positive deadlines are 5 s"])
    return rc
