"""C09: dispatch selects the handler by index, then by name, then the catch-all (spec/Mux.tla)."""
import json, os
from lib import vlib


def run(ctx):
    quick = ctx.tier == "quick"
    if ctx.replay:
        cases = [json.load(open(ctx.replay))["case"]]
        g = dict(generated=0, distinct=0)
    else:
        g = vlib.tlc_generate(ctx.scratch, "MuxGen", "MuxGen_quick.cfg" if quick else "MuxGen_thorough.cfg", workers=8, timeout=1800)
        cases = g["cases"]
    ctx.log("R1/R2: %d states, %d registration histories x messages" % (g["distinct"], len(cases)))
    d = ctx.scratch.sub("h")
    cpath, tpath = os.path.join(d, "cases.ndjson"), os.path.join(d, "trace.ndjson")
    vlib.write_ndjson(cpath, cases)
    p = vlib.run_harness(ctx.harness, ["mux", "-cases", cpath, "-out", tpath, "-seed", str(ctx.seed), "-repo", vlib.REPO], timeout=1200)
    if p.returncode != 0:
        raise vlib.Infra("mux driver failed: " + p.stderr[-2000:])
    lines = vlib.read_ndjson(tpath)
    bad, st = vlib.tlc_validate(ctx.scratch, "MuxTrace", "MuxTrace.cfg", lines, timeout=1500)
    ctx.log("R3: %d lines, %d rejected" % (len(lines), len(bad)))
    v = vlib.Verdict("C09")
    for i, why in bad:
        line = lines[i]
        if "dict" in why:
            raise vlib.Infra("generator and harness disagree on the dictionary short name: %s" % json.dumps(line)[:300])
        types = sorted(set(r["t"] for r in line["regs"]))
        sig = "%s:dispatch:%s:regs=%s:fired=%d:reports=%d" % (line["via"], "req" if line["msg"]["req"] else "ans", "+".join(types), len(line["fired"]), line["reports"])
        v.report(sig, dict(msg=line["msg"], short=line["gshort"], regs=line["regs"]), detail="fired=%s reports=%d" % (line["fired"], line["reports"]))
    keys = set()
    for l in lines:
        if len(l["regs"]) >= 2:
            keys.add((l["via"], json.dumps(l["msg"], sort_keys=True), json.dumps(l["regs"], sort_keys=True)))
    cov = dict(states=g["distinct"] + st["distinct"], transitions=g["generated"] + st["generated"],
               traces_validated_against_impl=len(lines), evaluations=len(lines), distinct_nontrivial=len(keys),
               rule="every subset of the 8-key neighbourhood (own index/name/ALL, neighbours differing in application, code, R bit) x 6 messages, plus re-registration of registered keys, "
                    "replayed on a real ServeMux directly and (every 8th case) behind a connection over memnet; non-trivial = at least two registrations; distinct by (path, message, registration history) Since extended: base commands under an application id no dictionary defines; every third case after a warm-up dispatch of the same index carrying a dictionary that lacks the command.",
               samples=[dict(msg=l["msg"], regs=l["regs"][:3], fired=l["fired"], reports=l["reports"]) for l in lines[5:len(lines):max(1, len(lines) // 3)]][:3],
               exhaustive=True, rejected_lines=len(bad), known_finding_hits={k: n for k, (n, _) in v.hits.items()})
    rc = v.finish()
    vlib.write_evidence("C09", ctx.tier, ctx.seed, cov, ctx.wall(), v.nviol, ["TLC evaluates Mux!Dispatch faithfully", "command short names come from the harness's own XML reading of diam/dict/default.go"])
    return rc
