"""C09: dispatch selects the handler by index, then by name, then the catch-all (spec/Mux.tla)."""
import json, os
from lib import vlib


MC_CFG = """CONSTANTS D <- TD
  R <- TR
  Msgs <- TMsgs
  Regs <- TRegs
  MaxCalls = 100000
  MaxRegs = 100000
  Locked = TRUE
INIT TInit
NEXT TNext
CONSTRAINT HW
POSTCONDITION Post
CHECK_DEADLOCK FALSE
"""
MC_FIELDS = [("ev", ""), ("p", ""), ("app", 0), ("code", 0), ("req", False), ("short", ""), ("t", ""), ("name", ""), ("hid", 0)]


def concurrent(ctx, v, n):
    """Registration concurrent with dispatch: R1 on MuxImpl (RW lock, handler called under the read lock) with its
    sensitivity configurations, then recorded concurrent histories of a real ServeMux against MuxImplTrace."""
    r1 = vlib.tlc_check(ctx.scratch, "MuxImplMC", "MuxImpl_TRUE.cfg" if ctx.tier == "quick" else "MuxImpl_thorough.cfg", workers=8, heap_mb=12000, timeout=1800)
    vlib.tlc_check(ctx.scratch, "MuxImplMC", "MuxImpl_FALSE.cfg", workers=1, expect_violation="NoCrash")
    vlib.tlc_check(ctx.scratch, "MuxImplMC", "MuxImpl_waits.cfg", workers=1, expect_violation="NeverWaitsBehindHandler")
    vlib.tlc_check(ctx.scratch, "MuxImplMC", "MuxImpl_leak.cfg", workers=1, expect_violation="ReadersAreRunning")
    ind = None
    if ctx.tier != "quick":
        # unbounded: the lock protocol's invariant is inductive (Apalache), and is not when a panic can skip the unlock
        t = vlib.apalache_check(ctx.scratch, "MuxLockInd", "IndInit", "IndInv", 1, None)
        t += vlib.apalache_check(ctx.scratch, "MuxLockInd", "Init", "IndInv", 0, None)
        t += vlib.apalache_check(ctx.scratch, "MuxLockInd", "IndInit", "Implied", 0, None)
        t += vlib.apalache_check(ctx.scratch, "MuxLockInd", "IndInit", "IndInv", 1, None, expect_violation=True, next_="NextLeak")
        ind = dict(module="MuxLockInd", seconds=round(t, 1), holds=True, sensitivity="NextLeak violates it")
        ctx.log("inductive invariant of the mux lock protocol discharged by Apalache in %.0fs (step, base, implied; NextLeak fails as it must)" % t)
    d = ctx.scratch.sub("mc")
    tpath = os.path.join(d, "trace.ndjson")
    p = vlib.run_harness(ctx.harness, ["muxconc", "-out", tpath, "-seed", str(ctx.seed), "-n", str(n), "-repo", vlib.REPO], timeout=600)
    if p.returncode != 0:
        if "fatal error" in p.stderr or "panic" in p.stderr:
            v.report("concurrent:process-died", dict(driver="muxconc", seed=ctx.seed), detail=p.stderr[-300:].replace("\n", " "))
            return dict(status="died", scenarios=0, tlc_states=r1["distinct"]), r1
        raise vlib.Infra("muxconc driver failed: " + p.stderr[-2000:])
    scen = vlib.read_ndjson(tpath)
    # batches of 150 histories: a single run over 1200 kept TLC's state queue on disk and failed there twice in
    # background snapshots ("when writing the disk"); small runs stay in memory
    conf = dict(status="conforms", scenarios=0, tlc_states=0, drift=[])
    for b0 in range(0, len(scen), 150):
        r = vlib.impl_conformance(ctx, "MuxImplTrace", MC_CFG.replace("Locked = TRUE", "Locked = FALSE"), scen[b0:b0 + 150], MC_FIELDS, "mc%d" % (b0 // 150))
        if r["status"] == "inconclusive":
            r = vlib.impl_conformance(ctx, "MuxImplTrace", MC_CFG.replace("Locked = TRUE", "Locked = FALSE"), scen[b0:b0 + 150], MC_FIELDS, "mcr%d" % (b0 // 150))
        if r["status"] == "inconclusive":
            conf = r
            break
        conf["scenarios"] += r["scenarios"]
        conf["tlc_states"] += r.get("tlc_states", 0)
        conf["drift"] += r.get("drift", [])
    if conf["status"] != "inconclusive" and conf["drift"]:
        conf["status"] = "drift"
    strict = vlib.impl_conformance(ctx, "MuxImplTrace", MC_CFG, scen[:150], MC_FIELDS, "mcs")
    conf["inductive_invariant"] = ind
    conf["lock_discipline"] = dict(status=strict["status"], drift=strict.get("drift", [])[:2])
    if conf["status"] == "inconclusive":
        raise vlib.Infra("MuxImplTrace validation inconclusive: %s" % conf.get("detail"))
    for dr in conf["drift"]:
        stuck = dr.get("stuck_at") or {}
        v.report("concurrent:%s-not-explained" % stuck.get("ev", "?"), dict(driver="muxconc", seed=ctx.seed, case=dr.get("case")),
                 detail="no interleaving of MuxImpl explains the log at event %s: %s" % (dr.get("stuck_index"), " ".join(dr.get("events", [])[:60])))
    ctx.log("concurrent: MuxImpl %d distinct states (lookups see completed registrations; no lock => crash; a registration behind a held handler blocks other dispatchers: documented); %d recorded concurrent histories, %d not linearizable; lock discipline of the model: %s" % (r1["distinct"], conf["scenarios"], len(conf["drift"]), strict["status"]))
    return conf, r1


def error_reports(ctx, v, only=None):
    """The error-report channel (spec/ErrRep.tla): capacity 1, offers never wait, first offer wins, FIFO.
    R1 with two sensitivity configurations, every operation history up to the bound replayed on a real ServeMux
    (and the E/D ones through sm.StateMachine), results validated by TLC (spec/ErrRepTrace.tla)."""
    quick = ctx.tier == "quick"
    if only is not None:
        cases, g = [dict(ops=only)], dict(generated=0, distinct=0)
    else:
        g = vlib.tlc_generate(ctx.scratch, "ErrRep", "ErrRep_quick.cfg" if quick else "ErrRep_thorough.cfg", workers=4, timeout=900)
        cases = g["cases"]
        vlib.tlc_check(ctx.scratch, "ErrRep", "ErrRep_blocking.cfg", workers=1, expect_violation="NeverWaits")
        vlib.tlc_check(ctx.scratch, "ErrRep", "ErrRep_cap2.cfg", workers=1)
    d = ctx.scratch.sub("er")
    cpath, tpath = os.path.join(d, "cases.ndjson"), os.path.join(d, "trace.ndjson")
    vlib.write_ndjson(cpath, cases)
    p = vlib.run_harness(ctx.harness, ["errrep", "-cases", cpath, "-out", tpath, "-seed", str(ctx.seed), "-repo", vlib.REPO], timeout=1200)
    if p.returncode != 0:
        raise vlib.Infra("errrep driver failed: " + p.stderr[-2000:])
    lines = vlib.read_ndjson(tpath)
    bad, st = vlib.tlc_validate(ctx.scratch, "ErrRepTrace", "ErrRepTrace.cfg", lines, timeout=900)
    for i, why in bad:
        line = lines[i]
        kind = "stuck" if line["stuck"] else "result"
        v.report("errrep:%s:%s" % (line["via"], kind), dict(driver="errrep", ops=line["ops"]),
                 detail="ops=%s results=%s stuck_at=%d (capacity-1 channel, non-blocking offers, FIFO expected)" % ("".join(line["ops"]), line["res"], line["stuck"]))
    ctx.log("error reports: %d histories (R1 %d states; blocking send violates NeverWaits as it must), %d lines replayed on a real ServeMux / StateMachine, %d rejected" % (len(cases), g["distinct"], len(lines), len(bad)))
    return dict(histories=len(cases), lines=len(lines), rejected=len(bad), stuck=sum(1 for l in lines if l["stuck"]), tlc_states=g["distinct"] + st["distinct"])


def run(ctx):
    quick = ctx.tier == "quick"
    if ctx.replay and json.load(open(ctx.replay)).get("case", {}).get("driver") == "errrep":
        v = vlib.Verdict("C09")
        er = error_reports(ctx, v, only=json.load(open(ctx.replay))["case"]["ops"])
        rc = v.finish()
        vlib.write_evidence("C09", ctx.tier, ctx.seed, dict(states=er["tlc_states"], transitions=er["tlc_states"], traces_validated_against_impl=er["lines"], evaluations=er["lines"],
                            rule="replay of one error-report history", error_report_channel=er, exhaustive=False), ctx.wall(), v.nviol, ["TLC evaluates ErrRep faithfully"])
        return rc
    v = vlib.Verdict("C09")
    # first: a dispatch that waits for a reader of ErrorReports() would hang every later driver
    er = dict(status="skipped", tlc_states=0) if ctx.replay else error_reports(ctx, v)
    if er.get("stuck"):
        rc = v.finish()
        vlib.write_evidence("C09", ctx.tier, ctx.seed, dict(states=er["tlc_states"], transitions=er["tlc_states"], traces_validated_against_impl=er["lines"], evaluations=er["lines"],
                            rule="stopped after the error-report channel histories were rejected", error_report_channel=er, exhaustive=False), ctx.wall(), v.nviol, ["TLC evaluates ErrRep faithfully"])
        return rc
    if ctx.replay:
        cases = [json.load(open(ctx.replay))["case"]]
        g = dict(generated=0, distinct=0)
    else:
        g = vlib.tlc_generate(ctx.scratch, "MuxGen", "MuxGen_quick.cfg" if quick else "MuxGen_thorough.cfg", workers=8, timeout=1800)
        cases = g["cases"]
    ctx.log("R1/R2: %d states, %d registration histories x messages" % (g["distinct"], len(cases)))
    d = ctx.scratch.sub("h")
    cpath, tpath = os.path.join(d, "cases.ndjson"), os.path.join(d, "trace.ndjson")
    vlib.write_ndjson(cpath, cases)
    p = vlib.run_harness(ctx.harness, ["mux", "-cases", cpath, "-out", tpath, "-seed", str(ctx.seed), "-repo", vlib.REPO], timeout=1200)
    if p.returncode != 0:
        raise vlib.Infra("mux driver failed: " + p.stderr[-2000:])
    lines = vlib.read_ndjson(tpath)
    bad, st = vlib.tlc_validate(ctx.scratch, "MuxTrace", "MuxTrace.cfg", lines, timeout=1500)
    ctx.log("R3: %d lines, %d rejected" % (len(lines), len(bad)))
    for i, why in bad:
        line = lines[i]
        if "dict" in why:
            raise vlib.Infra("generator and harness disagree on the dictionary short name: %s" % json.dumps(line)[:300])
        types = sorted(set(r["t"] for r in line["regs"]))
        sig = "%s:dispatch:%s:regs=%s:fired=%d:reports=%d" % (line["via"], "req" if line["msg"]["req"] else "ans", "+".join(types), len(line["fired"]), line["reports"])
        v.report(sig, dict(msg=line["msg"], short=line["gshort"], regs=line["regs"]), detail="fired=%s reports=%d" % (line["fired"], line["reports"]))
    conf, mr1 = (dict(status="skipped"), dict(distinct=0, generated=0)) if ctx.replay and "driver" not in json.load(open(ctx.replay)).get("case", {}) else concurrent(ctx, v, 80 if quick else 1200)
    keys = set()
    for l in lines:
        if len(l["regs"]) >= 2:
            keys.add((l["via"], json.dumps(l["msg"], sort_keys=True), json.dumps(l["regs"], sort_keys=True)))
    cov = dict(states=g["distinct"] + st["distinct"] + mr1["distinct"] + er["tlc_states"], error_report_channel=er, transitions=g["generated"] + st["generated"] + mr1["generated"], concurrent_conformance=conf,
               traces_validated_against_impl=len(lines), evaluations=len(lines), distinct_nontrivial=len(keys),
               rule="every subset of the 8-key neighbourhood (own index/name/ALL, neighbours differing in application, code, R bit) x 6 messages, plus re-registration of registered keys, "
                    "replayed on a real ServeMux directly and (every 8th case) behind a connection over memnet; non-trivial = at least two registrations; distinct by (path, message, registration history) Since extended: base commands under an application id no dictionary defines; every third case after a warm-up dispatch of the same index carrying a dictionary that lacks the command; registrations concurrent with dispatch: spec/MuxImpl.tla (RW lock with writer preference, handler called under the read lock) model-checked for 2 dispatchers x 2 calls and 2 registrars x 1 (thorough: 2) registrations, and recorded concurrent histories (3 dispatchers, 2 registrars, handlers of several durations) validated against it with the lock operations as silent steps. The error-report channel (spec/ErrRep.tla: capacity 1, offers never wait, first offer wins, FIFO): every history of unmatched dispatch / matched dispatch / direct Error() / non-blocking receive up to the bound, with nobody else reading, replayed on a real ServeMux and (E/D histories) through sm.StateMachine.",
               samples=[dict(msg=l["msg"], regs=l["regs"][:3], fired=l["fired"], reports=l["reports"]) for l in lines[5:len(lines):max(1, len(lines) // 3)]][:3],
               exhaustive=True, rejected_lines=len(bad), known_finding_hits={k: n for k, (n, _) in v.hits.items()})
    rc = v.finish()
    vlib.write_evidence("C09", ctx.tier, ctx.seed, cov, ctx.wall(), v.nviol, ["TLC evaluates Mux!Dispatch faithfully", "command short names come from the harness's own XML reading of diam/dict/default.go"])
    return rc
