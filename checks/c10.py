"""C10: no application handler runs before the capabilities exchange succeeds (spec/Gate.tla)."""
import json, os, random
from lib import vlib


def run(ctx):
    quick = ctx.tier == "quick"
    g = dict(generated=0, distinct=0)
    if ctx.replay:
        cases = [json.load(open(ctx.replay))["case"]]
    else:
        cases = []
        cfgs = ["GateGen_server_quick.cfg", "GateGen_client_quick.cfg", "GateGen_server_cfgs.cfg"] if quick else ["GateGen_server_thorough.cfg", "GateGen_client_thorough.cfg"]
        for cfg in cfgs:
            r = vlib.tlc_generate(ctx.scratch, "GateGen", cfg, workers=8, timeout=2400)
            cases += r["cases"]
            g["generated"] += r["generated"]
            g["distinct"] += r["distinct"]
        if not quick:
            # longer histories beyond the exhaustive bound: seeded random over the same alphabet
            rnd = random.Random(ctx.seed)
            for _ in range(20000):
                side = rnd.choice(["server", "client"])
                alpha = ["cer_ok", "cer_bad", "cer_noid", "cer_sec", "dwr", "ccr", "cca", "ulr", "rar"] if side == "server" else ["dwr", "ccr", "cca", "ulr", "rar"]
                h = [rnd.choice(alpha) for _ in range(rnd.randint(6, 12))]
                if side == "client":
                    h.insert(rnd.randint(0, len(h)), rnd.choice(["cea_ok", "cea_ok", "cea_fail"]))
                cases.append(dict(side=side, cfg=rnd.choice(["all", "noall", "onlyall"]), hist=h))
    ctx.log("R1/R2: %d states (gate invariants hold), %d histories" % (g["distinct"], len(cases)))
    d = ctx.scratch.sub("h")
    cpath, tpath = os.path.join(d, "cases.ndjson"), os.path.join(d, "trace.ndjson")
    # replay in parallel harness processes
    nproc = 8
    parts = [cases[i::nproc] for i in range(nproc)]
    import concurrent.futures as cf
    def one(i):
        cp, tp = cpath + ".%d" % i, tpath + ".%d" % i
        vlib.write_ndjson(cp, parts[i])
        p = vlib.run_harness(ctx.harness, ["gate", "-cases", cp, "-out", tp, "-seed", str(ctx.seed), "-repo", vlib.REPO], timeout=2400)
        if p.returncode != 0:
            raise vlib.Infra("gate driver failed: " + p.stderr[-2000:])
        return vlib.read_ndjson(tp)
    lines = []
    with cf.ThreadPoolExecutor(nproc) as ex:
        for ls in ex.map(one, range(nproc)):
            lines += ls
    incomplete = [l for l in lines if len(l["obs"]) != len(l["hist"])]
    if incomplete:
        raise vlib.Infra("gate driver could not run %d histories: %s" % (len(incomplete), incomplete[0]["note"]))
    bad, st = vlib.tlc_validate(ctx.scratch, "GateTrace", "GateTrace.cfg", lines, timeout=2400)
    ctx.log("R3: %d histories replayed on the real state machine, %d rejected" % (len(lines), len(bad)))
    v = vlib.Verdict("C10")
    for i, why in bad:
        line = lines[i]
        reason = why.strip().strip('"')
        v.report("%s:%s:%s" % (line["side"], reason, line["cfg"]), dict(side=line["side"], cfg=line["cfg"], hist=line["hist"], note=line.get("note", "")), detail="obs=%s" % json.dumps(line["obs"]))
    def nontrivial(l):
        h = l["hist"]
        hs = [i for i, m in enumerate(h) if m in ("cer_ok", "cer_bad", "cer_noid", "cer_sec", "cea_ok", "cea_fail")]
        ap = [i for i, m in enumerate(h) if m in ("ccr", "cca", "ulr", "rar")]
        return bool(hs) and bool(ap)
    keys = set(json.dumps([l["side"], l["cfg"], l["hist"]]) for l in lines if nontrivial(l))
    cov = dict(states=g["distinct"] + st["distinct"], transitions=g["generated"] + st["generated"],
               traces_validated_against_impl=len(lines), evaluations=sum(len(l["hist"]) for l in lines), distinct_nontrivial=len(keys),
               rule="every history of peer messages up to the bound over {acceptable / rejected (no common application, missing Origin-Host, inband security) / retransmitted CER, DWR, requests and answers of two applications, "
                    "a base request} on the server side and {success / failing CEA, DWR, application traffic} on the client side (spec/GateGen.tla, exhaustive), with handlers registered by name, by index and as catch-all plus six "
                    "attempted overrides of CER/CEA/DWR; replayed message by message on a real state machine, stepping when the reader is parked again. non-trivial = contains a CER/CEA outcome and an application message; distinct by history Since extended: application messages with the E bit, a CER from the peer on the client side, a refused CER with a request behind it in the same fragment; a watchdog answer as an application message with a handler registered by name / by index (watchdog off); CEA with result code 2002; a refused CER whose application AVP lacks the M bit; a CEA repeated on another connection of the Client while the dial waits; an application deriving its context on HandshakeNotify.",
               samples=[dict(side=l["side"], hist=l["hist"], obs=l["obs"]) for l in lines[200:len(lines):max(1, len(lines) // 3)]][:3],
               exhaustive=quick, rejected_lines=len(bad), known_finding_hits={k: n for k, (n, _) in v.hits.items()})
    rc = v.finish()
    vlib.write_evidence("C10", ctx.tier, ctx.seed, cov, ctx.wall(), v.nviol, ["TLC evaluates Gate!Step faithfully", "a message is fully processed when the connection's reader is parked in Read again (memnet fact)"])
    return rc
