"""C11: a CER is accepted exactly when a common application exists (spec/Capab.tla)."""
import json, os
from lib import vlib


def run(ctx):
    quick = ctx.tier == "quick"
    if ctx.replay:
        cases = [json.load(open(ctx.replay))["case"]]
        nrand = 0
        g = dict(generated=0, distinct=0)
    else:
        g = vlib.tlc_generate(ctx.scratch, "CapabGen", "CapabGen_quick.cfg" if quick else "CapabGen_thorough.cfg", workers=8, timeout=2400)
        cases = g["cases"]
        nrand = 1500 if quick else 30000
    d = ctx.scratch.sub("h")
    cpath, tpath = os.path.join(d, "cases.ndjson"), os.path.join(d, "trace.ndjson")
    vlib.write_ndjson(cpath, cases)
    p = vlib.run_harness(ctx.harness, ["cer", "-cases", cpath, "-out", tpath, "-seed", str(ctx.seed), "-n", str(nrand), "-repo", vlib.REPO], timeout=2400)
    if p.returncode != 0:
        raise vlib.Infra("cer driver failed: " + p.stderr[-2000:])
    lines = vlib.read_ndjson(tpath)
    bad, st = vlib.tlc_validate(ctx.scratch, "CapabTrace", "CapabTrace.cfg", lines, timeout=2400)
    ctx.log("R2: %d CERs from TLC + %d random; R3: %d lines, %d rejected" % (len(cases), nrand, len(lines), len(bad)))
    v = vlib.Verdict("C11")
    for i, why in bad:
        line = lines[i]
        for reason in [w.strip().strip('"') for w in why.split(",")]:
            sig = "%s:%s" % (reason, line["note"]) if reason == "hostip" else reason
            v.report(sig, line["cer"], detail="note=%s cea=%s closed=%s meta=%s" % (line["note"], json.dumps(line["obs"]["cea"])[:300], line["obs"]["closed"], line["obs"]["meta"]))
    keys = set(json.dumps([l["cer"]["oh"], l["cer"]["or"], l["cer"]["inband"], l["cer"]["items"], l["note"]]) for l in lines if l["cer"]["items"])
    cov = dict(states=g["distinct"] + st["distinct"], transitions=g["generated"] + st["generated"],
               traces_validated_against_impl=len(lines), evaluations=len(lines), distinct_nontrivial=len(keys),
               rule="CERs = every state of spec/CapabGen.tla (27 presence combinations of Origin-Host / Origin-Realm / Inband-Security-Id x item lists; with all three acceptable, every ordered list of up to MaxItems items over "
                    "Acct / Auth / VSA[Vendor-Id first|last|absent; inner Acct|Auth|both|none] x {supported-auth, supported-acct, unsupported, wrong-type, relay}) + seeded random larger lists (<= 12 items) under five settings "
                    "(derived IPv4 / IPv6 / loopback endpoint, configured host addresses); each sent by a scripted peer to a real server state machine; non-trivial = at least one application item; distinct by (presence, ordered items, settings) Since extended: the same CER when no CEA can reach the peer (no address to put into it / the transport refuses the write) and on a second connection, with another local address, of a state machine that has already accepted a CER; the further dictionaries are loaded after a first state machine was created; the CER on a connection accepted from a TLS listener; application AVPs without the M bit.",
               samples=[dict(cer=l["cer"], rc=l["obs"]["cea"]["rc"], closed=l["obs"]["closed"], meta=l["obs"]["meta"]) for l in lines[100:len(lines):max(1, len(lines) // 3)]][:3],
               exhaustive=False, rejected_lines=len(bad), known_finding_hits={k: n for k, (n, _) in v.hits.items()})
    rc = v.finish()
    vlib.write_evidence("C11", ctx.tier, ctx.seed, cov, ctx.wall(), v.nviol,
                        ["TLC evaluates Capab!Reasons faithfully", "the CEA is parsed by the harness's own framer", "the dictionary's typed applications come from the harness's own XML reading"])
    return rc
