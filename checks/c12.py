"""C12: client handshake - bounded retransmission, definite outcome, stable afterwards
(spec/HandshakeImpl.tla model; spec/Handshake.tla observation predicate)."""
import json, os
from lib import vlib


CONF_CFG = """CONSTANTS MaxRetx = %d
  MaxPeerMsgs = 99
  IgnoreAfterDone = TRUE
  OnceClose = TRUE
INIT TInit
NEXT TNext
CONSTRAINT HW
POSTCONDITION Post
CHECK_DEADLOCK FALSE
"""


def conformance(ctx, lines):
    """Hook-level conformance: each scenario's merged log (scripted peer + internal events of
    handshake() / handleCEA) must be a behaviour of spec/HandshakeImpl.tla for its budget."""
    out = dict(status="conforms", scenarios=0, tlc_states=0, drift=[])
    for b in sorted(set(l["script"]["budget"] for l in lines)):
        scen = [dict(case=l["script"], events=l["events"]) for l in lines if l["script"]["budget"] == b and l.get("conform") and l["events"]]
        if not scen:
            continue
        r = vlib.impl_conformance(ctx, "HandshakeImplTrace", CONF_CFG % b, scen, [("ev", ""), ("k", "")], "hs%d" % b)
        if r["status"] == "inconclusive":
            return r
        out["scenarios"] += r["scenarios"]; out["tlc_states"] += r["tlc_states"]; out["drift"] += r["drift"]
    out["drift"] = out["drift"][:5]
    if out["drift"]:
        out["status"] = "drift"
    ctx.log("impl conformance: %d scenarios replayed against HandshakeImpl (%d TLC states), %d drifted" % (out["scenarios"], out["tlc_states"], len(out["drift"])))
    return out


def run(ctx):
    quick = ctx.tier == "quick"
    r1 = vlib.tlc_check(ctx.scratch, "HandshakeImpl", "HandshakeImpl_r1.cfg", workers=4)
    r1d = vlib.tlc_check(ctx.scratch, "HandshakeImpl", "HandshakeImpl_defect.cfg", workers=1, expect_violation="StableAfterOK")
    r1e = vlib.tlc_check(ctx.scratch, "HandshakeImpl", "HandshakeImpl_doubleclose.cfg", workers=1, expect_violation="NoCrash")
    r1f = vlib.tlc_check(ctx.scratch, "HandshakeImpl", "HandshakeImpl_noclose.cfg", workers=1, expect_violation="FailClosed")
    ctx.log("R1: HandshakeImpl %d distinct states, HandshakeObs invariants hold; sensitivity configs: CEAs not ignored after completion violates StableAfterOK, an unguarded second close of errc violates NoCrash, returning a write error without closing violates FailClosed, as they must" % r1["distinct"])
    ind = None
    if not quick and not ctx.replay:
        # unbounded safety of the model: inductive invariant, any retransmission budget
        t = vlib.apalache_check(ctx.scratch, "HandshakeInd", "IndInit", "IndInv", 1, "CInit")
        t += vlib.apalache_check(ctx.scratch, "HandshakeInd", "Init", "IndInv", 0, "CInit")
        t += vlib.apalache_check(ctx.scratch, "HandshakeInd", "IndInit", "Implied", 0, "CInit")
        t += vlib.apalache_check(ctx.scratch, "HandshakeInd", "IndInit", "IndInv", 1, "CInitOriginal", expect_violation=True)
        ind = "spec/HandshakeInd.tla: IndInv is inductive (Apalache, base + step) and implies Bounded, FailClosed, OkOnlyAfterOk, StableAfterOK, NotStuck for MaxRetransmits <= 1000; not inductive for the original handleCEA (%.0f s)" % t
        ctx.log("Apalache: " + ind)
    variant = []
    if ctx.replay:
        cases = [json.load(open(ctx.replay))["case"]]
        # the settings variant the scenario had in the full run travels with the case
        variant = ["-n", "1" if cases[0].get("variant") == "configured" else "2"] if "variant" in cases[0] else []
        cases = [{k: x for k, x in cases[0].items() if k != "variant"}]
        g = dict(generated=0, distinct=0)
    else:
        g = vlib.tlc_generate(ctx.scratch, "HandshakeGen", "HandshakeGen_quick.cfg" if quick else "HandshakeGen_thorough.cfg", workers=4)
        cases = g["cases"]
    d = ctx.scratch.sub("h")
    cpath, tpath = os.path.join(d, "cases.ndjson"), os.path.join(d, "trace.ndjson")
    vlib.write_ndjson(cpath, cases)
    p = vlib.run_harness(ctx.harness, ["handshake", "-cases", cpath, "-out", tpath, "-seed", str(ctx.seed), "-repo", vlib.REPO] + variant, timeout=1800)
    if p.returncode != 0:
        raise vlib.Infra("handshake driver failed: " + p.stderr[-2000:])
    lines = vlib.read_ndjson(tpath)
    bad, st = vlib.tlc_validate(ctx.scratch, "HandshakeTrace", "HandshakeTrace.cfg", [dict(l, events=[]) for l in lines], timeout=900)
    conf = conformance(ctx, lines)
    ctx.log("R2: %d scripts; R3: %d scenarios on the real client, %d rejected" % (len(cases), len(lines), len(bad)))
    # a failed positive deadline is re-run once in isolation before it is reported
    retry = [lines[i]["script"] for i, _ in bad][:12]
    retry_cfg = ["1" if lines[i].get("note") == "configured" else "2" for i, _ in bad][:12]
    bad = bad[:12]
    if retry and not ctx.replay:
        vlib.write_ndjson(cpath + ".retry", retry)
        lines2 = []
        for k, sc in enumerate(retry):
            vlib.write_ndjson(cpath + ".one", [sc])
            p = vlib.run_harness(ctx.harness, ["handshake", "-cases", cpath + ".one", "-out", tpath + ".one", "-seed", str(ctx.seed), "-n", retry_cfg[k], "-repo", vlib.REPO], timeout=600)
            lines2 += vlib.read_ndjson(tpath + ".one")
        bad2, _ = vlib.tlc_validate(ctx.scratch, "HandshakeTrace", "HandshakeTrace.cfg", [dict(l, events=[]) for l in lines2], timeout=900)
        confirmed = set(json.dumps(lines2[i]["script"], sort_keys=True) for i, _ in bad2)
        bad = [(i, w) for i, w in bad if json.dumps(lines[i]["script"], sort_keys=True) in confirmed]
        ctx.log("re-run in isolation: %d of %d rejections confirmed" % (len(bad), len(retry)))
    v = vlib.Verdict("C12")
    for i, why in bad:
        line = lines[i]
        for reason in [w.strip().strip('"') for w in why.split(",")]:
            sc = line["script"]
            sig = "%s:%s:extras=%s" % (reason, sc["kind"], "+".join(sorted(set(sc["extras"]))) or "none")
            v.report(sig, dict(sc, variant="configured" if line.get("note") == "configured" else "plain"), detail="obs=%s" % json.dumps(line["obs"])[:400])
    keys = set(json.dumps(l["script"], sort_keys=True) for l in lines if l["script"]["at"] > 1 or l["script"]["kind"] != "ok" or l["script"]["extras"])
    cov = dict(states=r1["distinct"] + r1d["distinct"] + g["distinct"] + st["distinct"], transitions=r1["generated"] + r1d["generated"] + g["generated"] + st["generated"],
               traces_validated_against_impl=len(lines), evaluations=len(lines), distinct_nontrivial=len(keys),
               rule="R1: spec/HandshakeImpl.tla (client loop, errc channel, serve goroutine, peer, timer as nondeterministic step) exhaustively for MaxRetransmits 2 and 4 peer messages; "
                    "R2: every budget x {success after the k-th CER, failing code, malformed (no Result-Code / no Origin-Host), success without / with unsupported applications, silence, disconnect after the k-th CER} "
                    "x extras after completion (duplicate success, late failure, late malformed; sequences up to the bound) followed by an application answer; replayed on a real sm.Client over memnet with a count-driven peer (40 ms interval). "
                    "non-trivial = a retransmission, a failure or an extra answer; distinct by script Since extended: CEAs whose only application is in a Vendor-Specific-Application-Id group or is the relay id; another connection of the same client whose peer repeats its CEA during the dial; an extra, locally unsupported application in the client's configuration; link-local local addresses; the answer arriving while the next transmission is still being written; Origin-State-Id / Firmware-Revision / Vendor-Id / Product-Name in the CER; a client with a dictionary of its own (private application / application only dict.Default knows); the at-th transmission refused by a healthy transport; an application advertised both plainly and in a vendor-specific group.",
               samples=[dict(script=l["script"], obs={k: l["obs"][k] for k in ("ncer", "mingap", "dial_ok", "errclass", "closed_end", "app_dispatched")}) for l in lines[0:len(lines):max(1, len(lines) // 3)]][:3],
               exhaustive=True, r1_states=r1["distinct"], rejected=len(bad), impl_conformance=conf, inductive_invariant=ind, known_finding_hits={k: n for k, (n, _) in v.hits.items()})
    rc = v.finish()
    vlib.write_evidence("C12", ctx.tier, ctx.seed, cov, ctx.wall(), v.nviol,
                        ["timers are nondeterministic steps in the model; on the code, spacing is checked one-sidedly from monotonic stamps and peers never act at a timer boundary",
                         "positive deadlines (5 s dial, 1.5 s dispatch) are generous; a rejection is re-run in isolation before it is reported"])
    return rc
