"""C13: the watchdog detects a silent peer and spares a responsive one
(spec/WatchdogImpl.tla model; spec/Watchdog.tla observation predicate)."""
import json, os
from lib import vlib


CONF_CFG = """CONSTANTS MaxRetx = %d
  MaxRounds = 99
  Mode = "any"
  Buffered = TRUE
  WithWriteFailures = TRUE
INIT TInit
NEXT TNext
CONSTRAINT HW
POSTCONDITION Post
CHECK_DEADLOCK FALSE
"""


def strip(l):
    return dict(l, events=[]) if "events" in l else l


def conformance(ctx, wd):
    """Hook-level conformance: each scenario's merged log (scripted peer + internal events of
    watchdog() / dwr() / handleDWA) must be a behaviour of spec/WatchdogImpl.tla for its budget."""
    out = dict(status="conforms", scenarios=0, tlc_states=0, drift=[])
    for b in sorted(set(l["script"]["budget"] for l in wd)):
        scen = [dict(case=l["script"], events=l["events"]) for l in wd if l["script"]["budget"] == b and l["events"]]
        if not scen:
            continue
        r = vlib.impl_conformance(ctx, "WatchdogImplTrace", CONF_CFG % b, scen, [("ev", ""), ("k", "")], "wd%d" % b)
        if r["status"] == "inconclusive":
            return r
        out["scenarios"] += r["scenarios"]; out["tlc_states"] += r["tlc_states"]; out["drift"] += r["drift"]
    out["drift"] = out["drift"][:5]
    if out["drift"]:
        out["status"] = "drift"
    ctx.log("impl conformance: %d scenarios replayed against WatchdogImpl (%d TLC states), %d drifted" % (out["scenarios"], out["tlc_states"], len(out["drift"])))
    return out


def run(ctx):
    quick = ctx.tier == "quick"
    states = trans = 0
    for mode in ("all", "none", "fail", "dup"):
        r = vlib.tlc_check(ctx.scratch, "WatchdogImpl", "WatchdogImpl_%s_TRUE.cfg" % mode, workers=2)
        states += r["distinct"]; trans += r["generated"]
    rw = vlib.tlc_check(ctx.scratch, "WatchdogImpl", "WatchdogImpl_all_wfail.cfg", workers=2)
    states += rw["distinct"]; trans += rw["generated"]
    rd = vlib.tlc_check(ctx.scratch, "WatchdogImpl", "WatchdogImpl_all_FALSE.cfg", workers=1, expect_violation="SparesResponsive")
    states += rd["distinct"]; trans += rd["generated"]
    ctx.log("R1: WatchdogImpl (one-slot ack channel) satisfies WatchdogObs for peers answering all / none / with a failure code / with duplicated answers; the unbuffered-channel configuration loses an acknowledgement and violates SparesResponsive as it must")
    ind = None
    if not quick and not ctx.replay:
        # unbounded safety of the model for a responsive peer: inductive invariant, any budget, any number of rounds
        t = vlib.apalache_check(ctx.scratch, "WatchdogInd", "IndInit", "IndInv", 1, "CInit")
        t += vlib.apalache_check(ctx.scratch, "WatchdogInd", "Init", "IndInv", 0, "CInit")
        t += vlib.apalache_check(ctx.scratch, "WatchdogInd", "IndInit", "Spared", 0, "CInit")
        t += vlib.apalache_check(ctx.scratch, "WatchdogInd", "IndInit", "IndInv", 1, "CInitUnbuffered", expect_violation=True)
        ind = "spec/WatchdogInd.tla: IndInv is inductive (Apalache, base + step), implies SparesResponsive and Bounded for MaxRetransmits <= 1000 and <= 10^6 rounds; not inductive with the unbuffered channel (%.0f s)" % t
        ctx.log("Apalache: " + ind)
    if ctx.replay:
        cases = [json.load(open(ctx.replay))["case"]]
        g = dict(generated=0, distinct=0)
    else:
        g = vlib.tlc_generate(ctx.scratch, "WatchdogGen", "WatchdogGen_quick.cfg" if quick else "WatchdogGen_thorough.cfg", workers=2)
        cases = g["cases"]
    d = ctx.scratch.sub("h")
    cpath, tpath = os.path.join(d, "cases.ndjson"), os.path.join(d, "trace.ndjson")

    def replay(cs, tag, dwr=True):
        vlib.write_ndjson(cpath + tag, cs)
        p = vlib.run_harness(ctx.harness, ["watchdog", "-cases", cpath + tag, "-out", tpath + tag, "-seed", str(ctx.seed), "-repo", vlib.REPO] + ([] if dwr else ["-x", "dwr=no"]), timeout=1800)
        if p.returncode != 0:
            raise vlib.Infra("watchdog driver failed: " + p.stderr[-2000:])
        return vlib.read_ndjson(tpath + tag)
    lines = replay(cases, "")
    bad, st = vlib.tlc_validate(ctx.scratch, "WatchdogTrace", "WatchdogTrace.cfg", [strip(l) for l in lines], timeout=900)
    conf = conformance(ctx, [l for l in lines if l["ev"] == "wd"])
    ctx.log("R2: %d scripts; R3: %d lines, %d rejected" % (len(cases), len(lines), len(bad)))
    wdbad = [(i, w) for i, w in bad if lines[i]["ev"] == "wd"]
    if wdbad and not ctx.replay:
        # timing-sensitive scenarios are re-run alone before they are reported
        confirmed = []
        for i, w in wdbad[:10]:
            l2 = replay([lines[i]["script"]], ".one", dwr=False)
            b2, _ = vlib.tlc_validate(ctx.scratch, "WatchdogTrace", "WatchdogTrace.cfg", [strip(l) for l in l2], timeout=300)
            if b2:
                confirmed.append((i, b2[0][1]))
        ctx.log("re-run in isolation: %d of %d rejections confirmed" % (len(confirmed), len(wdbad[:10])))
        bad = confirmed + [(i, w) for i, w in bad if lines[i]["ev"] != "wd"]
    v = vlib.Verdict("C13")
    for i, why in bad:
        line = lines[i]
        for reason in [w.strip().strip('"') for w in why.split(",")]:
            if line["ev"] == "wd":
                sc = line["script"]
                v.report("%s:%s:%s" % (reason, sc["kind"], "sync" if sc["sync"] else "async"), sc, detail="obs=%s note=%s" % (json.dumps(line["obs"]), line["note"]))
            else:
                v.report("server:%s" % reason, dict(req_hbh=line["req_hbh"], req_e2e=line["req_e2e"], osid=line["osid"]), detail=json.dumps(line)[:300])
    wd = [l for l in lines if l["ev"] == "wd"]
    keys = set(json.dumps(l["script"], sort_keys=True) for l in wd) | set(json.dumps([l["req_hbh"], l["req_e2e"], l["osid"]]) for l in lines if l["ev"] == "dwa")
    cov = dict(states=states + g["distinct"] + st["distinct"], transitions=trans + g["generated"] + st["generated"],
               traces_validated_against_impl=len(lines), evaluations=len(lines), distinct_nontrivial=len(keys),
               rule="R1: spec/WatchdogImpl.tla (watchdog goroutine with write / select as separate steps, serve goroutine's non-blocking ack, peer) for budget 1, 3 rounds, three peer modes, plus the unbuffered-channel sensitivity configuration; "
                    "R2: every budget x {answer all, answer all twice, stop after the n-th round, answer only the j-th copy, failing code, silence} x {answer delivered asynchronously, answer handled before the DWR's transport write returns}; "
                    "replayed on a real sm.Client (WatchdogInterval 60 ms, RetransmitInterval 30 ms) with a count-driven peer; server half: DWRs with boundary identifiers, with/without Origin-State-Id, to a handshaken server state machine. every script is non-trivial; distinct by script Since extended: every answer twice / j times then silence, DWA without Result-Code, the transport refusing the first DWR; DWRs naming their sender in another spelling or differently, with Origin-State-Id 0 / 77 / max, with the T bit; a handshake that takes several watchdog intervals; a Client re-used after a connection was closed in mid-round.",
               samples=[dict(script=l["script"], obs=l["obs"]) for l in wd[0:len(wd):max(1, len(wd) // 3)]][:3],
               exhaustive=True, rejected=len(bad), impl_conformance=conf, inductive_invariant=ind, known_finding_hits={k: n for k, (n, _) in v.hits.items()})
    rc = v.finish()
    vlib.write_evidence("C13", ctx.tier, ctx.seed, cov, ctx.wall(), v.nviol,
                        ["time is abstracted in the model (the retransmission timer fires only when no answer is pending)", "spacing is checked one-sidedly from monotonic stamps",
                         "a rejected timing-sensitive scenario is re-run alone before it is reported"])
    return rc
