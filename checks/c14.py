"""C14: CloseNotify fires exactly once when, and only when, the connection is gone
(spec/ConnImpl.tla model; spec/ConnObs.tla observation predicate)."""
import json, os
import concurrent.futures as cf
from lib import vlib


def conformance(ctx, scen):
    """Hook-level conformance: the merged log of test actions and internal events of every scenario
    must be a behaviour of spec/ConnImpl.tla (spec/ConnImplTrace.tla). A rejection is model drift:
    reported in the evidence, not a verdict (the property is judged on observations)."""
    import re
    drift = []
    todo = list(scen)
    states = 0
    for _ in range(6):
        if not todo:
            break
        tl, starts = [], []
        for l in todo:
            starts.append(len(tl) + 1)
            tl.append(dict(ev="reset", k="", how="", gone=False))
            tl += [dict(ev=e["ev"], k=e["k"], how=e["how"], gone=e["gone"]) for e in l["events"]]
        d = ctx.scratch.specdir("conf%d" % len(drift))
        vlib.write_ndjson(os.path.join(d, "trace.ndjson"), tl)
        try:
            r = vlib.run_tlc(d, "ConnImplTrace", "ConnImplTrace.cfg", workers=1, heap_mb=3000, timeout=1500)
        except vlib.Infra as e:
            return dict(status="inconclusive", detail=str(e)[:200], scenarios=len(scen))
        states += r["distinct"]
        m = re.search(r'"HIGHWATER",\s*(\d+)', r["out"])
        if r["violated"] == "NotDone" or (m and not r["error"] and not r["violated"] and int(m.group(1)) == len(tl) + 1):
            todo = []
            break          # every line consumed: accepted (no invariant in the cfg: no error trace to print)
        if r["error"] or not m:
            return dict(status="inconclusive", detail=(r["error"] or "")[:200])
        hw = int(m.group(1))
        k = max(i for i, s0 in enumerate(starts) if s0 <= max(hw, 1))
        drift.append(dict(sched=todo[k]["sched"], via=todo[k]["via"], stuck_at=tl[hw - 1] if 0 < hw <= len(tl) else None, stuck_index=hw - starts[k],
                          events=[e["ev"] + (":" + (e["k"] or e["how"]) if (e["k"] or e["how"]) else "") for e in todo[k]["events"]]))
        todo = todo[:k] + todo[k + 1:]
    ctx.log("impl conformance: %d scenarios replayed against ConnImpl (%d TLC states), %d drifted" % (len(scen), states, len(drift)))
    return dict(status="conforms" if not drift else "drift", scenarios=len(scen), tlc_states=states, drift=drift[:5])


def run(ctx):
    quick = ctx.tier == "quick"
    r1 = vlib.tlc_check(ctx.scratch, "ConnImpl", "ConnImpl_r1.cfg", workers=8)
    ra = vlib.tlc_check(ctx.scratch, "ConnImpl", "ConnImpl_orig_fires.cfg", workers=1, expect_violation="FiresWhenGone")
    rb = vlib.tlc_check(ctx.scratch, "ConnImpl", "ConnImpl_orig_leak.cfg", workers=1, expect_violation="NoLeak")
    ctx.log("R1: ConnImpl (serve exit notifies and closes the pipe) %d distinct states: OnlyAfter, NoLoss, FiresWhenGone, NoLeak hold; the original exit path violates FiresWhenGone and NoLeak as it must" % r1["distinct"])
    if ctx.replay:
        cases = [json.load(open(ctx.replay))["case"]]
        g = dict(generated=0, distinct=0)
    else:
        g = vlib.tlc_generate(ctx.scratch, "ConnGen", "ConnGen_quick.cfg" if quick else "ConnGen_thorough.cfg", workers=4, timeout=1800)
        cases = g["cases"]
    d = ctx.scratch.sub("h")
    nproc = 12 if len(cases) > 50 else 1
    parts = [cases[i::nproc] for i in range(nproc)]

    def one(i):
        cp, tp = os.path.join(d, "cases.%d" % i), os.path.join(d, "trace.%d" % i)
        vlib.write_ndjson(cp, parts[i])
        p = vlib.run_harness(ctx.harness, ["closenotify", "-cases", cp, "-out", tp, "-seed", str(ctx.seed), "-repo", vlib.REPO] + ([] if i == 0 else ["-x", "watchdog=no"]), timeout=(300 if quick else 2400))
        if p.returncode != 0:
            raise vlib.Infra("closenotify driver failed: " + p.stderr[-2000:])
        return vlib.read_ndjson(tp)
    lines = []
    with cf.ThreadPoolExecutor(nproc) as ex:
        for ls in ex.map(one, range(nproc)):
            lines += ls
    bad, st = vlib.tlc_validate(ctx.scratch, "ConnTrace", "ConnTrace.cfg", [dict(l, events=[]) for l in lines], timeout=1800)
    cl = [l for l in lines if l.get("conform") and l["via"] != "client+watchdog"]
    if len(cl) > 6000:   # an even sample: the cost of the nondeterministic search grows with the log
        cl = cl[::(len(cl) + 5999) // 6000]
    conf = conformance(ctx, cl)
    ctx.log("R2: %d schedules; R3: %d scenarios on real connections (12 harness processes), %d rejected" % (len(cases), len(lines), len(bad)))
    # any failing scenario is re-run alone (fresh process) before it is reported
    if bad and not ctx.replay:
        confirmed = []
        for i, w in bad[:15]:
            if lines[i]["via"] == "client+watchdog":
                confirmed.append((i, w))
                continue
            cp, tp = os.path.join(d, "one.cases"), os.path.join(d, "one.trace")
            vlib.write_ndjson(cp, [dict(sched=lines[i]["sched"], via=lines[i]["via"])])
            p = vlib.run_harness(ctx.harness, ["closenotify", "-cases", cp, "-out", tp, "-seed", str(ctx.seed), "-repo", vlib.REPO, "-x", "watchdog=no"], timeout=600)
            l2 = vlib.read_ndjson(tp)
            b2, _ = vlib.tlc_validate(ctx.scratch, "ConnTrace", "ConnTrace.cfg", l2, timeout=300)
            if b2:
                confirmed.append((i, b2[0][1]))
            else:
                ctx.log("transient (not confirmed alone): %s via=%s sched=%s note=%s" % (w, lines[i]["via"], lines[i]["sched"], lines[i]["note"]))
        ctx.log("re-run in isolation: %d of %d rejections confirmed" % (len(confirmed), len(bad[:15])))
        bad = confirmed
    v = vlib.Verdict("C14")
    for i, why in bad:
        line = lines[i]
        reason = why.strip().strip('"')
        term = [e for e in line["sched"] if e in ("x", "xt", "xbig", "eof", "eofd", "rerr", "lclose", "lclosew", "mp", "mhp", "heof", "heofd", "idle")]
        pre = [e for e in line["sched"][:line["sched"].index(term[0])] if e in ("mh", "mm", "cn")] if term else []
        sig = "%s:%s:req=%s:term=%s" % (line["via"], reason, "+".join(sorted(set(pre))) or "after", term[0] if term else "none")
        v.report(sig, dict(sched=line["sched"], via=line["via"]), detail="steps=%s goroutines=%d dump=%s note=%s" % (json.dumps(line["steps"])[:300], line["goroutines"], line["dump"][:300], line["note"]))
    keys = set(json.dumps([l["via"], l["sched"]]) for l in lines)
    cov = dict(states=r1["distinct"] + ra["distinct"] + rb["distinct"] + g["distinct"] + st["distinct"],
               transitions=r1["generated"] + ra["generated"] + rb["generated"] + g["generated"] + st["generated"],
               traces_validated_against_impl=len(lines), evaluations=sum(len(l["sched"]) for l in lines), distinct_nontrivial=len(keys),
               rule="R1: spec/ConnImpl.tla exhaustively for 3 chunks (good / undecodable) x 2 CloseNotify requests x all end events, every interleaving of reader, copier and environment; "
                    "R2: every ordering up to the bound of {good message, message whose handler requests CloseNotify, two messages in one fragment with a request in between, message halves, request from another goroutine} "
                    "then one terminator {undecodable, undecodable + trailing fragment, peer EOF, read error, local Close} then up to two late requests (spec/ConnGen.tla); each replayed on diam.NewConn / an accepted server connection "
                    "over memnet, stepping on quiescence; plus sm.Client with watchdog terminated in four ways. every schedule has a request and a termination (non-trivial); distinct by (path, schedule) Since extended: terminators handler panic (with / without a request first), peer close while a handler runs, last message in the same read as the close; the first request after a termination is made while finish() holds the reader lock (hook finish.sr) and must return; a server with ReadTimeout and an idle peer; an answering handler whose first write attempt fails temporarily (mw); a message pipelined behind a running handler when the peer closes (heofd); Close while a Write is blocked (lclosew); a mux whose error reports nobody reads; multi-stream associations; TLS connections whose handshake fails.",
               samples=[dict(via=l["via"], sched=l["sched"], steps=l["steps"], goroutines=l["goroutines"]) for l in lines[10:len(lines):max(1, len(lines) // 3)]][:3],
               exhaustive=True, r1_states=r1["distinct"], rejected=len(bad), impl_conformance=conf, known_finding_hits={k: n for k, (n, _) in v.hits.items()})
    rc = v.finish()
    vlib.write_evidence("C14", ctx.tier, ctx.seed, cov, ctx.wall(), v.nviol,
                        ["'never closes' is decided after a 600 ms positive deadline once the transport is closed; a failing scenario is re-run alone in a fresh process before it is reported",
                         "library goroutines are recognised by go-diameter frames in a process-wide goroutine dump; scenarios run sequentially inside each harness process"])
    return rc
