"""C15: faults on one connection stay on that connection (spec/ServerImpl.tla model; spec/Isolation.tla observation)."""
import json, os
import concurrent.futures as cf
from lib import vlib


def run(ctx):
    quick = ctx.tier == "quick"
    r1 = vlib.tlc_check(ctx.scratch, "ServerImpl", "ServerImpl_r1.cfg", workers=4)
    ra = vlib.tlc_check(ctx.scratch, "ServerImpl", "ServerImpl_norecover.cfg", workers=1, expect_violation="HealthyServed")
    rb = vlib.tlc_check(ctx.scratch, "ServerImpl", "ServerImpl_noretry.cfg", workers=1, expect_violation="KeepsAccepting")
    rc_ = vlib.tlc_check(ctx.scratch, "ServerImpl", "ServerImpl_unseq.cfg", workers=1, expect_violation="NoDrop")
    rt = vlib.tlc_check(ctx.scratch, "ServerImpl", "ServerImpl_tls.cfg", workers=4)
    rta = vlib.tlc_check(ctx.scratch, "ServerImpl", "ServerImpl_tlsaccept.cfg", workers=1, expect_violation="AcceptNotBlocked")
    ctx.log("R1: ServerImpl %d distinct states: isolation invariants hold; without recover / without retry on temporary accept errors they are violated, and two undecodable inputs not sequenced on the receipt of the first report lose the second report (one-slot non-blocking offer), as they must; with a TLS handshake step per connection (%d states) acceptance is never blocked, and is when the accept loop performs the handshake" % (r1["distinct"], rt["distinct"]))
    if ctx.replay:
        cases = [json.load(open(ctx.replay))["case"]]
        g = dict(generated=0, distinct=0)
    else:
        g = vlib.tlc_generate(ctx.scratch, "IsolationGen", "IsolationGen_quick.cfg" if quick else "IsolationGen_thorough.cfg", workers=2, timeout=1800)
        cases = g["cases"]
    d = ctx.scratch.sub("h")
    nproc = 8 if len(cases) > 16 else 1
    parts = [cases[i::nproc] for i in range(nproc)]
    died = []

    def one(i):
        cp, tp = os.path.join(d, "cases.%d" % i), os.path.join(d, "trace.%d" % i)
        vlib.write_ndjson(cp, parts[i])
        # every second harness process runs with one P and the collector off (deterministic sync.Pool hand-over)
        p = vlib.run_harness(ctx.harness, ["isolation", "-cases", cp, "-out", tp, "-seed", str(ctx.seed), "-repo", vlib.REPO] + (["-x", "p1=1"] if i % 2 == 1 else []), timeout=2400)
        ls = vlib.read_ndjson(tp) if os.path.exists(tp) else []
        if p.returncode != 0:
            if "panic" in p.stderr or "fatal error" in p.stderr:
                cur = json.load(open(tp + ".current")) if os.path.exists(tp + ".current") else {}
                died.append((cur, p.stderr[-400:]))
            else:
                raise vlib.Infra("isolation driver failed: " + p.stderr[-2000:])
        return ls
    lines = []
    with cf.ThreadPoolExecutor(nproc) as ex:
        for ls in ex.map(one, range(nproc)):
            lines += ls
    bad, st = vlib.tlc_validate(ctx.scratch, "IsolationTrace", "IsolationTrace.cfg", lines, timeout=1200)
    ctx.log("R2: %d scenarios; R3: %d scenarios on a real Server.Serve, %d rejected, %d harness processes died" % (len(cases), len(lines), len(bad), len(died)))
    v = vlib.Verdict("C15")
    for cur, err in died:
        kinds = sorted(set(f["kind"] for f in cur.get("faults", []) if f["kind"] != "none"))
        v.report("process-died:%s" % "+".join(kinds), cur, detail=err.replace("\n", " ")[-300:])
    for i, why in bad:
        line = lines[i]
        kinds = sorted(set(f["kind"] for f in line["case"]["faults"] if f["kind"] != "none"))
        for reason in [w.strip().strip('"') for w in why.split(",")]:
            v.report("%s:%s:temps=%s" % (reason, "+".join(kinds), "yes" if any(line["case"]["temps"]) else "no"), line["case"],
                     detail="conns=%s reports=%d accepted=%d serve_returned=%s" % (json.dumps(line["conns"]), line["reports"], line["accepted"], line["serve_returned"]))
    keys = set(json.dumps(c, sort_keys=True) for c in cases)
    cov = dict(states=rt["distinct"] + rta["distinct"] + r1["distinct"] + ra["distinct"] + rb["distinct"] + rc_["distinct"] + g["distinct"] + st["distinct"],
               transitions=r1["generated"] + ra["generated"] + rb["generated"] + rc_["generated"] + g["generated"] + st["generated"],
               traces_validated_against_impl=len(lines), evaluations=len(lines), distinct_nontrivial=len(keys),
               rule="R1: spec/ServerImpl.tla for 3 connections x 2 messages x <= 2 temporary accept errors anywhere in the accept sequence, every interleaving; R2: 2-3 connections x messages x every placement of "
                    "one (thorough: two) fault(s) among {handler panic, undecodable message, disconnect between messages, disconnect inside a message} x four patterns of temporary accept errors (before / between / after accepts), "
                    "on a real Server.Serve with an echo handler (also under a state machine); a probe connection pushed after the trailing accept errors must be served. every scenario has >= 2 connections and >= 1 fault; distinct by scenario Since extended: the report channel as a one-slot lossy channel (undecodable inputs sequenced on receipt); a message nested deeper than the decoder accepts as a fault kind; a disconnect inside a message body; a TLS listener (tls.NewListener over in-memory pipes) with peers that stall in or fail the TLS handshake before / between / after healthy peers (ServerImpl with a handshake step per connection); fault kinds shortlen, avplen4, badw; a Server without a Handler of its own (DefaultServeMux); unread reports with a handler still running elsewhere.",
               samples=[dict(case=l["case"], conns=l["conns"], reports=l["reports"]) for l in lines[0:len(lines):max(1, len(lines) // 3)]][:3],
               exhaustive=True, rejected=len(bad), known_finding_hits={k: n for k, (n, _) in v.hits.items()})
    rc = v.finish()
    vlib.write_evidence("C15", ctx.tier, ctx.seed, cov, ctx.wall(), v.nviol, ["positive deadlines are 5 s", "a harness process killed by a panic is reported as process-died for the scenario it was running"])
    return rc
