"""C16: answers mirror the request they answer (spec/Answer.tla)."""
import json, os
from lib import vlib


def run(ctx):
    quick = ctx.tier == "quick"
    if ctx.replay:
        cases = [json.load(open(ctx.replay))["case"]]
        nrand = 0
        g = dict(generated=0, distinct=0)
    else:
        g = vlib.tlc_generate(ctx.scratch, "AnswerGen", "AnswerGen_quick.cfg" if quick else "AnswerGen_thorough.cfg", workers=8, timeout=1800)
        cases = g["cases"]
        nrand = 5000 if quick else 100000
    d = ctx.scratch.sub("h")
    cpath, tpath = os.path.join(d, "cases.ndjson"), os.path.join(d, "trace.ndjson")
    vlib.write_ndjson(cpath, cases)
    p = vlib.run_harness(ctx.harness, ["answer", "-cases", cpath, "-out", tpath, "-seed", str(ctx.seed), "-n", str(nrand), "-repo", vlib.REPO], timeout=1200)
    if p.returncode != 0:
        raise vlib.Infra("answer driver failed: " + p.stderr[-2000:])
    lines = vlib.read_ndjson(tpath)
    lines += extra_lines(ctx)
    bad, st = vlib.tlc_validate(ctx.scratch, "AnswerTrace", "AnswerTrace.cfg", lines, timeout=1500)
    ctx.log("R2: %d headers from TLC + %d random; R3: %d lines, %d rejected" % (len(cases), nrand, len(lines), len(bad)))
    v = vlib.Verdict("C16")
    for i, why in bad:
        line = lines[i]
        for reason in [w.strip().strip('"') for w in why.split(",")]:
            z = []
            if line["req"]["hbh"] == [0, 0, 0, 0]:
                z.append("hbh=0")
            if line["req"]["e2e"] == [0, 0, 0, 0]:
                z.append("e2e=0")
            sig = "%s:%s:%s" % (line["via"], reason, "+".join(z) if (z and reason == "ids") else "any")
            v.report(sig, dict(req=line["req"], rc=line["rc"]), detail="ans=%s" % json.dumps(line["ans"]))
    keys = set(json.dumps([l["via"], l["req"], l["rc"], l["stream"]]) for l in lines)
    cov = dict(states=g["distinct"] + st["distinct"], transitions=g["generated"] + st["generated"],
               traces_validated_against_impl=len(lines), evaluations=len(lines), distinct_nontrivial=len(keys),
               rule="request headers: identifiers in {0,1,2^31,2^32-1}^2 x flag bytes x three command/application pairs x result codes (TLC-enumerated) + seeded random headers, answered with Message.Answer; "
                    "plus CEA / DWA built by a server state machine over memnet and the stream half over the in-memory SCTP backend where available; every header is a distinct non-trivial case Since extended: streams 16, 40, 65535; answers deferred until a message on another stream was read and written with retries whose first attempt fails; a sequence of DWRs with different flags on one connection; an earlier answer edited in place; two SCTP writers with the first held at the entry of the transport write; deferred SCTP answers on a Server with WriteTimeout.",
               samples=[dict(req=l["req"], rc=l["rc"], ans=l["ans"]) for l in lines[0:len(lines):max(1, len(lines) // 3)]][:3],
               exhaustive=False, rejected_lines=len(bad), known_finding_hits={k: n for k, (n, _) in v.hits.items()})
    rc = v.finish()
    vlib.write_evidence("C16", ctx.tier, ctx.seed, cov, ctx.wall(), v.nviol, ["TLC evaluates Answer!Reasons faithfully"])
    return rc


def extra_lines(ctx):
    """CEA / DWA / stream half: recorded by other drivers when they exist."""
    out = []
    for name in ("smanswer", "sctpanswer"):
        try:
            d = ctx.scratch.sub("h-" + name)
            tpath = os.path.join(d, "trace.ndjson")
            p = vlib.run_harness(ctx.harness, [name, "-out", tpath, "-seed", str(ctx.seed), "-n", "300" if ctx.tier == "quick" else "5000", "-repo", vlib.REPO], timeout=900)
            if p.returncode == 0:
                out += vlib.read_ndjson(tpath)
            elif "unknown driver" not in p.stderr:
                raise vlib.Infra("%s driver failed: %s" % (name, p.stderr[-1500:]))
        except FileNotFoundError:
            pass
    return out
