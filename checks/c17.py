"""C17: dictionary lookups resolve through the application, its parents, then base (spec/Dict.tla)."""
import json, os
from lib import vlib


def run(ctx):
    quick = ctx.tier == "quick"
    if ctx.replay:
        cases = [json.load(open(ctx.replay))["case"]]
        g = dict(generated=0, distinct=0)
        extra = ["-x", "only=gen"]
    else:
        g = vlib.tlc_generate(ctx.scratch, "DictGen", "DictGen_quick.cfg" if quick else "DictGen_thorough.cfg", workers=4, timeout=1800)
        cases = g["cases"]
        extra = []
    ctx.log("R1/R2: %d load sequences (Monotone and CmdMonotone hold on every transition)" % len(cases))
    d = ctx.scratch.sub("h")
    cpath, tpath = os.path.join(d, "cases.ndjson"), os.path.join(d, "trace.ndjson")
    vlib.write_ndjson(cpath, cases)
    p = vlib.run_harness(ctx.harness, ["dict", "-cases", cpath, "-out", tpath, "-seed", str(ctx.seed), "-tier", ctx.tier, "-repo", vlib.REPO] + extra, timeout=2400)
    if p.returncode != 0:
        raise vlib.Infra("dict driver failed: " + p.stderr[-2000:])
    lines = vlib.read_ndjson(tpath)
    bad, st = vlib.tlc_validate(ctx.scratch, "DictTrace", "DictTrace.cfg", lines, timeout=2400, chunk=min(400, max(50, len(lines) // 16 + 1)), heap_mb=2500)
    kinds = {}
    for l in lines:
        kinds[l["ev"]] = kinds.get(l["ev"], 0) + 1
    ctx.log("R3: %s; %d rejected" % (kinds, len(bad)))
    v = vlib.Verdict("C17")
    for i, why in bad:
        line = lines[i]
        for reason in [w.strip().strip('"') for w in why.split(",")]:
            if line["ev"] == "dict":
                v.report("gen:%s" % reason, dict(loaded=line["loaded"], files=line["files"]), detail="load_err=%s" % line["load_err"])
            elif line["ev"] == "lookup":
                v.report("%s:%s" % (reason, "byname" if line["key"]["byname"] else "bycode"), {}, detail=json.dumps({k: line[k] for k in ("app", "key", "vendor", "res")}))
            elif line["ev"] == "const":
                v.report("%s:%s:%s" % (reason, line["kind"], line["name"]), {}, detail=json.dumps(line))
            elif line["ev"] == "type":
                v.report("%s:%s" % (reason, line["name"]), {}, detail=json.dumps(line))
            else:
                v.report(reason, {}, detail=json.dumps(line)[:300])
    nlook = sum(sum(len(s["avp"]) + len(s["cmd"]) + len(s["apps"]) for s in l["steps"]) for l in lines if l["ev"] == "dict") + sum(1 for l in lines if l["ev"] != "dict")
    keys = set()
    for l in lines:
        if l["ev"] == "dict":
            keys.add(json.dumps(l["loaded"]))
        elif l["ev"] == "lookup":
            if l["res"]["placeholder"] or not l["res"]["found"] or l["res"]["app"] != l["app"]:
                keys.add(json.dumps([l["app"], l["key"], l["vendor"]]))
    cov = dict(states=g["distinct"] + st["distinct"], transitions=g["generated"] + st["generated"],
               traces_validated_against_impl=len(lines), evaluations=nlook, distinct_nontrivial=len(keys),
               rule="generated dictionaries: every sequence of up to MaxFiles distinct files from a pool of five (redefinitions in base, under applications 1 / 4 / S6a (child of 4) / an unrelated one, three vendors, two types for one application id) "
                    "loaded in every order (spec/DictGen.tla), all lookups of the key neighbourhood (6 applications x 4 codes + 5 names x 5 vendors incl. wildcard and absent; commands; applications by id and type) after each Load; "
                    "embedded dictionaries: for all of base and a seeded sample (thorough: all) of the other definitions, lookups by code and by name from every application incl. an unrelated one with exact / wildcard / foreign / zero vendor, plus absent keys; "
                    "every exported constant of avp/codes.go, commands.go, applications.go; every type name. non-trivial = resolves at another level than asked, or is absent; distinct by (application, key, vendor) / load order Since extended: a pool of seven files (a vendor-specific redefinition in the same application; application 1 alone); every sequence with both orders of querying the applications; an eighth file that renames codes; an application-level redefinition of a base command code; an AVP-less messages file; a vendor-only code in application 1 with any-vendor lookups through FindAVP; undefined codes carried as placeholders.",
               samples=[{k: l[k] for k in ("app", "key", "vendor", "res")} for l in lines if l["ev"] == "lookup"][10:2000:700],
               exhaustive=False, rejected=len(bad), known_finding_hits={k: n for k, (n, _) in v.hits.items()})
    rc = v.finish()
    vlib.write_evidence("C17", ctx.tier, ctx.seed, cov, ctx.wall(), v.nviol,
                        ["the application hierarchy (S6a, Gx -> 4 -> 1 -> 0) is taken as given", "candidate definitions of the embedded dictionaries come from the harness's own XML reading of diam/dict/default.go, in load order",
                         "constant names are matched to dictionary names after removing '-', '_', ' ' and case"])
    return rc
