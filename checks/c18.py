"""C18: struct marshalling and unmarshalling are inverse and dictionary-faithful (spec/Marshal.tla)."""
import json, os
from lib import vlib


def run(ctx):
    quick = ctx.tier == "quick"
    if ctx.replay:
        cases = [json.load(open(ctx.replay))["case"]]
        nrand = 0
        g = dict(generated=0, distinct=0)
    else:
        g = vlib.tlc_generate(ctx.scratch, "MarshalGen", "MarshalGen_quick.cfg" if quick else "MarshalGen_thorough.cfg", workers=4, timeout=2400)
        cases = g["cases"]
        nrand = 2000 if quick else 50000
    d = ctx.scratch.sub("h")
    cpath, tpath = os.path.join(d, "cases.ndjson"), os.path.join(d, "trace.ndjson")
    vlib.write_ndjson(cpath, cases)
    p = vlib.run_harness(ctx.harness, ["marshal", "-cases", cpath, "-out", tpath, "-seed", str(ctx.seed), "-n", str(nrand), "-repo", vlib.REPO], timeout=2400)
    if p.returncode != 0:
        raise vlib.Infra("marshal driver failed: " + p.stderr[-2000:])
    lines = vlib.read_ndjson(tpath)
    bad, st = vlib.tlc_validate(ctx.scratch, "MarshalTrace", "MarshalTrace.cfg", lines, timeout=2400)
    ctx.log("R2: %d choice vectors over the struct family + %d random values; R3: %d lines, %d rejected" % (len(cases), nrand, len(lines), len(bad)))
    v = vlib.Verdict("C18")
    for i, why in bad:
        line = lines[i]
        for reason in [w.strip().strip('"') for w in why.split(",")]:
            v.report("%s:%s" % (reason, line["type"]), dict(type=line["type"], vec=line["vec"]), detail="merr=%s uerr=%s value=%s" % (line["merr"], line["uerr"], json.dumps(line["value"])[:300]))
    def nonzero(fs):
        return any(not f["empty"] for f in fs)
    keys = set(json.dumps([l["type"], l["value"]]) for l in lines if nonzero(l["value"]))
    cov = dict(states=g["distinct"] + st["distinct"], transitions=g["generated"] + st["generated"],
               traces_validated_against_impl=len(lines), evaluations=len(lines), distinct_nontrivial=len(keys),
               rule="13 struct types (native scalars, floats / time / enumerated, datatype types, addresses, IPv6 / QoSFilterRule, pointers incl. pointer to nested struct, slices incl. []*T and []byte, nested / anonymous structs, "
                    "slices of nested structs, embedded struct, omitempty, vendor-specific AVPs, AVP / *AVP / []*AVP fields) x every choice vector (zero / boundary / ordinary, nil / set, lengths 0..2) up to the cap (spec/MarshalGen.tla) "
                    "+ seeded random values; each marshalled, compared with Marshal!MarshalSpec, unmarshalled directly and after Serialize + ReadMessage. non-trivial = a non-zero field; distinct by (type, value) Since extended: 17 struct types (vendor / rule-text disagreement incl. must-not V, late embedded struct, group of the base dictionary with members of the message's application, tagged embedded struct); every third case marshalled into a message that already holds another value; types BaseVSA, DatatypeConv, Repeat, SignedU32; every fourth case under the shifted dictionary in the same process; the message must not follow the struct when it is refilled; omitempty on names ending in letters of the option; all-omitted groups; a base AVP whose code the application gives to a vendor AVP.",
               samples=[dict(type=l["type"], vec=l["vec"], avps=l["avps"][:2]) for l in lines[5:len(lines):max(1, len(lines) // 3)]][:3],
               exhaustive=False, rejected=len(bad), known_finding_hits={k: n for k, (n, _) in v.hits.items()})
    rc = v.finish()
    vlib.write_evidence("C18", ctx.tier, ctx.seed, cov, ctx.wall(), v.nviol,
                        ["values are described by the harness's own reflection walker; dictionary code / vendor / must come from the harness's table of the verification dictionary",
                         "only single-key struct tags (avp:\"...\") are in the family"])
    return rc
