"""C19: SCTP multistream - every message is assembled from one stream, in order (spec/SctpImpl.tla, spec/SctpObs.tla)."""
import json, os
from lib import vlib


def run(ctx):
    quick = ctx.tier == "quick"
    r1 = vlib.tlc_check(ctx.scratch, "SctpImpl", "SctpImpl_r1.cfg", workers=8, timeout=1800)
    ra = vlib.tlc_check(ctx.scratch, "SctpImpl", "SctpImpl_fresh.cfg", workers=1, expect_violation="OneMessageOneStream")
    ctx.log("R1: SctpImpl %d distinct states (2 streams x 2 messages, every chunking and interleaving): one message one stream, per-stream order, nothing lost; fresh-data-first violates it, as it must" % r1["distinct"])
    g = dict(generated=0, distinct=0)
    if ctx.replay:
        cases = [json.load(open(ctx.replay))["case"]]
        nrand = 0
    else:
        cases = []
        for cfg in (["SctpGen_a.cfg", "SctpGen_b.cfg"] if quick else ["SctpGen_thorough.cfg", "SctpGen_b.cfg"]):
            r = vlib.tlc_generate(ctx.scratch, "SctpGen", cfg, workers=4, timeout=2400)
            cases += r["cases"]
            g["generated"] += r["generated"]
            g["distinct"] += r["distinct"]
        nrand = 300 if quick else 5000
    d = ctx.scratch.sub("h")
    cpath, tpath = os.path.join(d, "cases.ndjson"), os.path.join(d, "trace.ndjson")
    vlib.write_ndjson(cpath, cases)
    p = vlib.run_harness(ctx.harness, ["sctp", "-cases", cpath, "-out", tpath, "-seed", str(ctx.seed), "-n", str(nrand), "-repo", vlib.REPO], timeout=2400)
    if p.returncode != 0:
        raise vlib.Infra("sctp driver failed: " + p.stderr[-2000:])
    lines = vlib.read_ndjson(tpath)
    bad, st = vlib.tlc_validate(ctx.scratch, "SctpTrace", "SctpTrace.cfg", lines, timeout=1800)
    ctx.log("R2: %d chunk schedules + %d random, each burst and stepwise; R3: %d lines, %d rejected" % (len(cases), nrand, len(lines), len(bad)))
    v = vlib.Verdict("C19")
    for i, why in bad:
        line = lines[i]
        for reason in [w.strip().strip('"') for w in why.split(",")]:
            v.report("%s:%s:streams=%d" % (reason, line["mode"], len(line["sizes"])), dict(sizes=line["sizes"], sched=line["sched"]),
                     detail="delivered=%s out=%s note=%s" % (json.dumps(line["delivered"])[:250], json.dumps(line["out"])[:150], line["note"]))
    def nontrivial(l):
        seen = []
        for s, n in l["sched"]:
            if seen and seen[-1] != s:
                return True
            seen.append(s)
        return False
    keys = set(json.dumps([l["mode"], l["sizes"], l["sched"]]) for l in lines if nontrivial(l))
    cov = dict(states=r1["distinct"] + ra["distinct"] + g["distinct"] + st["distinct"], transitions=r1["generated"] + ra["generated"] + g["generated"] + st["generated"],
               traces_validated_against_impl=len(lines), evaluations=len(lines), distinct_nontrivial=len(keys),
               rule="R1: spec/SctpImpl.tla, 2 streams x 2 messages (unit-sized bytes), every chunk size up to 4 and every interleaving, exhaustive; R2: real messages (20 / 28 / 52 bytes), chunk boundaries at landmarks (inside a header, header end, "
                    "inside a body, message end, spanning two messages) x all interleavings up to MaxChunks chunks over 2 and 3 streams (spec/SctpGen.tla), plus seeded random schedules (up to 8 streams, sizes across the 1 KiB buffer, chunks of 1..1500 bytes); "
                    "each fed at once and stepwise to an in-memory association under diam.SCTPConn and consumed by the connection's own reader loop. non-trivial = chunks of different streams interleave; distinct by (mode, sizes, schedule) Since extended: wire streams 0, 15, 16, 1, 40, 9, 65535, 14; a third mode with answers deferred to the next delivery and written with retries whose first attempt fails; a writer stream pinned by the handler; the first request of every stream answered through Conn.Write after ResetWriterStream.",
               samples=[dict(mode=l["mode"], sizes=l["sizes"], sched=l["sched"][:6], delivered=l["delivered"][:3]) for l in lines[3:len(lines):max(1, len(lines) // 3)]][:3],
               exhaustive=False, r1_states=r1["distinct"], rejected=len(bad), known_finding_hits={k: n for k, (n, _) in v.hits.items()})
    rc = v.finish()
    vlib.write_evidence("C19", ctx.tier, ctx.seed, cov, ctx.wall(), v.nviol,
                        ["the in-memory association stands in for the kernel: a read returns at most len(buf) bytes of the head chunk, the rest stays at the head",
                         "requires the verif build-tag hook diam/network_sctp_verif.go"])
    return rc
