"""C20: AVP search returns exactly the AVPs a reference tree walk finds (spec/Tree.tla)."""
import json, os
from lib import vlib


def run(ctx):
    quick = ctx.tier == "quick"
    if ctx.replay:
        cases = [json.load(open(ctx.replay))["case"]]
        nrand = 0
        g = dict(generated=0, distinct=0)
    else:
        g = vlib.tlc_generate(ctx.scratch, "TreeGen", "TreeGen_quick.cfg" if quick else "TreeGen_thorough.cfg", workers=8, timeout=2400)
        cases = g["cases"]
        nrand = 300 if quick else 5000
    d = ctx.scratch.sub("h")
    cpath, tpath = os.path.join(d, "cases.ndjson"), os.path.join(d, "trace.ndjson")
    vlib.write_ndjson(cpath, cases)
    p = vlib.run_harness(ctx.harness, ["find", "-cases", cpath, "-out", tpath, "-seed", str(ctx.seed), "-n", str(nrand), "-repo", vlib.REPO], timeout=1200)
    if p.returncode != 0:
        raise vlib.Infra("find driver failed: " + p.stderr[-2000:])
    lines = vlib.read_ndjson(tpath)
    bad, st = vlib.tlc_validate(ctx.scratch, "TreeTrace", "TreeTrace.cfg", lines, timeout=2400)
    nq = sum(len(l["q"]) for l in lines)
    ctx.log("R2: %d forests from TLC + %d random; R3: %d lines (%d queries), %d rejected" % (len(cases), nrand, len(lines), nq, len(bad)))
    v = vlib.Verdict("C20")
    for i, why in bad:
        line = lines[i]
        v.report("find:%s" % why.strip().strip('"'), dict(tree=line["tree"]), detail="")
    def rep(ns):
        seen, r = set(), False
        def walk(x):
            nonlocal r
            for n in x:
                if n["code"] in seen:
                    r = True
                seen.add(n["code"])
                walk(n["kids"])
        walk(ns)
        return r or any(n["grouped"] for n in ns)
    keys = set(json.dumps(l["tree"]) for l in lines if rep(l["tree"]))
    cov = dict(states=g["distinct"] + st["distinct"], transitions=g["generated"] + st["generated"],
               traces_validated_against_impl=len(lines), evaluations=nq, distinct_nontrivial=len(keys),
               rule="forests = every state of spec/TreeGen.tla (all trees of depth <= 3 with fan-out <= 2 over two leaf and two grouped codes, top level of up to MaxTop trees of depth <= 2, empty groups and repeated codes included) "
                    "+ seeded random forests (<= 200 nodes, depth <= 6); on each, FindAVP and FindAVPs for 5 codes (one absent) by number and by name, and FindAVPsWithPath for every path of length <= 3 "
                    "(through non-grouped AVPs and absent codes included); returned pointers are mapped to positions by identity. non-trivial = a code occurs at least twice or inside a group; distinct by forest Since extended: three ways of building the message (complete, groups filled late, struct literals); every third forest uses the base dictionary's Failed-AVP as its second group; named paths with every element by name; by-name queries with the defining and with another vendor id; every fifth forest uses the vendor-specific twin; a name the base application also defines; a group under a code typed otherwise; every query repeated after the first AVP was dropped from the message.",
               samples=[dict(tree=l["tree"], q=l["q"][:2]) for l in lines[50:len(lines):max(1, len(lines) // 3)]][:3],
               exhaustive=False, rejected_lines=len(bad), known_finding_hits={k: n for k, (n, _) in v.hits.items()})
    rc = v.finish()
    vlib.write_evidence("C20", ctx.tier, ctx.seed, cov, ctx.wall(), v.nviol, ["TLC evaluates Tree!Want faithfully", "queries use codes the message's dictionary defines"])
    return rc
