"""C01 / C02: wire round trip and RFC 6733 layout, decided by spec/Wire.tla.

R1+R2  spec/WireGen.tla   every message over the shape classes (TLC enumerates; the
                          reference codec is checked against itself on each state)
       harness `codec`    builds each through the public API, serialises, reads back
R3     spec/WireTrace.tla every recorded line checked against Wire!Enc etc.
"""
import json, os
from lib import vlib

C01_REASONS = ["build", "wser", "read", "dhdr", "davps", "reser"]
C02_REASONS = ["enc", "hlen", "wenc", "lenbook", "davps@wire", "read@wire", "dhdr@wire"]
ORDER = ["generator-not-wf", "vdict", "build", "enc", "hlen", "wenc", "wser", "lenbook", "read", "dhdr", "davps", "reser"]


def leaf_class(a):
    k = a["kind"]
    s = a["sem"]
    if k == "addr":
        fam, b = s[0], s[1:]
        if fam == 1:
            return "addr:ipv4"
        if fam == 2:
            if b[:10] == [0] * 10 and b[10:12] == [255, 255]:
                return "addr:ipv6-v4mapped"
            return "addr:ipv6"
        if len(b) + 2 in (4, 16):
            return "addr:otherfam-encsize%d" % (len(b) + 2)
        return "addr:otherfam"
    if k == "ipv6":
        if s[:10] == [0] * 10 and s[10:12] == [255, 255]:
            return "ipv6:v4mapped"
        return "ipv6"
    if k == "grouped":
        return "grouped"
    return k


def nodes(avps):
    for a in avps:
        yield a
        if a["kind"] == "grouped":
            yield from nodes(a["kids"])


def shape_key(avps):
    def one(a):
        if a["kind"] == "grouped":
            return "G%d[%s]" % (a["flags"], ",".join(one(k) for k in a["kids"]))
        return "%s/%d/%d" % (leaf_class(a), a["flags"], len(a["sem"]))
    return ",".join(one(a) for a in avps)


def nontrivial(avps):
    if len(avps) >= 2:
        return True
    for a in nodes(avps):
        if a["kind"] == "grouped":
            return True
        if a["kind"] in ("octets", "utf8", "ident", "uri", "ipfilter", "qos", "unknown", "addr") and len(a["sem"]) % 4 != 0:
            return True
    return False


def parse_reasons(why):
    return [w.strip().strip('"') for w in why.strip("<> ").split(",") if w.strip()]


def run_pipeline(ctx, cases, nrand, tag):
    """Run harness + R3 on the given TLC cases plus nrand random messages.
    Returns (lines, bad) with bad = {line index: [reasons]}."""
    d = ctx.scratch.sub("h-" + tag)
    cpath = os.path.join(d, "cases.ndjson")
    tpath = os.path.join(d, "trace.ndjson")
    vlib.write_ndjson(cpath, cases)
    p = vlib.run_harness(ctx.harness, ["codec", "-cases", cpath, "-out", tpath, "-seed", str(ctx.seed), "-n", str(nrand),
                                       "-tier", ctx.tier, "-repo", vlib.REPO], timeout=1200)
    if p.returncode != 0:
        raise vlib.Infra("codec driver failed: " + p.stderr[-2000:])
    lines = vlib.read_ndjson(tpath)
    bad, st = vlib.tlc_validate(ctx.scratch, "WireTrace", "WireTrace.cfg", lines, timeout=1500)
    return lines, {i: parse_reasons(w) for i, w in bad}, st


def run(ctx, prop):
    mine = C01_REASONS if prop == "C01" else C02_REASONS
    quick = ctx.tier == "quick"
    if ctx.replay:
        rp = json.load(open(ctx.replay))
        cases = [rp["case"]]
        nrand = 0
        g = dict(generated=0, distinct=0)
    else:
        g = vlib.tlc_generate(ctx.scratch, "WireGen", "WireGen_quick.cfg", workers=8)
        cases = g["cases"]
        if not quick:
            g2 = vlib.tlc_generate(ctx.scratch, "WireGen", "WireGen_thorough.cfg", workers=8, timeout=1800)
            cases += g2["cases"]
            g["generated"] += g2["generated"]
            g["distinct"] += g2["distinct"]
        nrand = 3000 if quick else 60000
        if prop == "C02":
            lb = vlib.tlc_generate(ctx.scratch, "LenBook", "LenBook_quick.cfg" if quick else "LenBook_thorough.cfg", workers=4)
            cases += [c for c in lb["cases"] if c["ops"]]
            g["generated"] += lb["generated"]
            g["distinct"] += lb["distinct"]
            ctx.log("R1/R2: LenBook %d states (invariant hlen = 20 + padded sizes holds), %d operation histories" % (lb["distinct"], len(lb["cases"])))
        ctx.log("R2: %d abstract messages from TLC (%d states)" % (len(cases), g["distinct"]))
    lines, bad, st = run_pipeline(ctx, cases, nrand, "main")
    ctx.log("R3: %d lines validated, %d rejected" % (len(lines), len(bad)))

    def relevant(line, reasons):
        out = []
        for r in reasons:
            if r in ("generator-not-wf", "vdict"):
                raise vlib.Infra("harness/spec binding broken: %s on line %s" % (r, json.dumps(line)[:300]))
            key = r + "@wire" if (line["ev"] == "wire" and r in ("davps", "read", "dhdr")) else r
            if key in mine:
                out.append(r)
            elif prop == "C01" and line["ev"] == "wire" and r in ("davps", "read", "dhdr", "reser"):
                out.append(r)  # the converse direction of C01 (wire -> read -> serialise)
        return out

    v = vlib.Verdict(prop)
    lbn = 0
    for i, reasons in sorted(bad.items()):
        line = lines[i]
        if line["ev"] == "lenbook":
            if "lenbook" in mine:
                v.report("lenbook:%s:%s" % (line["start"], "-".join(o["op"] for o in line["ops"][-2:])),
                         dict(start=line["start"], ops=line["ops"]), detail="after=%s err=%s" % (line["after"], line["err"]))
            del bad[i]
    # attribute each rejected message to the AVP(s) that fail on their own
    units, owner = [], []
    direct = []
    for i, reasons in sorted(bad.items()):
        line = lines[i]
        rs = relevant(line, reasons)
        if not rs:
            continue
        ns = list(nodes(line["m"]["avps"]))
        if len(ns) <= 1:
            direct.append((line, rs, ns[0] if ns else None))
            continue
        for n in ns:
            if n["kind"] == "grouped":
                n = dict(n, kids=[])
            units.append(dict(m=dict(hdr=line["m"]["hdr"], avps=[n]), dict=line["dict"], src="shrink", bytes=[], style=line.get("style", "")))
            owner.append((i, rs))
    attributed = {}
    if units:
        # cap the shrink work; identical units are run once
        seen, uniq = {}, []
        for u in units:
            k = json.dumps(u, sort_keys=True)
            if k not in seen:
                seen[k] = len(uniq)
                uniq.append(u)
        # identical units are run once; batches keep each harness / TLC round bounded
        ubad = {}
        B = 4000
        for b0 in range(0, len(uniq), B):
            _, ub, _ = run_pipeline(ctx, uniq[b0:b0 + B], 0, "shrink%d" % (b0 // B))
            nb = len(uniq[b0:b0 + B])
            for j, r in ub.items():
                if 1 <= j <= nb:              # line 0 of every batch is the vdict line; lines after the units are
                    ubad[b0 + j - 1] = r      # the driver's own dictionary-derived messages, not units
        for (u, (i, rs)) in zip(units, owner):
            j = seen[json.dumps(u, sort_keys=True)]
            ur = [r for r in ubad.get(j, []) if r in rs]
            if ur:
                attributed.setdefault(i, []).append((u["m"]["avps"][0], ur))
    for line, rs, n in direct:
        first = [r for r in ORDER if r in rs][0]
        sig = "%s:%s:%s" % (line["ev"], first, leaf_class(n) if n else "noavp")
        v.report(sig, dict(m=line["m"], dict=line["dict"], src=line["src"], bytes=line["bytes"] if line["ev"] == "wire" else [], style=line.get("style", "")),
                 detail="reasons=%s rerr=%s berr=%s" % (rs, line.get("rerr"), line.get("berr")))
    for i, reasons in sorted(bad.items()):
        line = lines[i]
        rs = relevant(line, reasons)
        if not rs or len(list(nodes(line["m"]["avps"]))) <= 1:
            continue
        case = dict(m=line["m"], dict=line["dict"], src=line["src"], bytes=line["bytes"] if line["ev"] == "wire" else [], style=line.get("style", ""))
        if i in attributed:
            explained = set()
            for n, ur in attributed[i]:
                explained.update(ur)
                first = [r for r in ORDER if r in ur][0]
                v.report("%s:%s:%s" % (line["ev"], first, leaf_class(n)), case, detail="reasons=%s rerr=%s (attributed by shrinking)" % (rs, line.get("rerr")))
            # what no single AVP of the message shows alone is a failure of the combination (e.g. the AVPs
            # behind one that is mis-sized can no longer be read): it is not covered by a finding about that AVP
            rest = [r for r in ORDER if r in rs and r not in explained]
            if rest:
                v.report("%s:%s:combination" % (line["ev"], rest[0]), case, detail="reasons=%s unexplained=%s rerr=%s; beyond what the single AVPs show alone" % (rs, rest, line.get("rerr")))
        else:
            first = [r for r in ORDER if r in rs][0]
            v.report("%s:%s:combination" % (line["ev"], first), case, detail="reasons=%s rerr=%s; no single AVP fails alone" % (rs, line.get("rerr")))

    lbl = [l for l in lines if l["ev"] == "lenbook"]
    msgs = [l for l in lines if l["ev"] in ("msg", "wire")]
    keys = set()
    for l in msgs:
        if nontrivial(l["m"]["avps"]):
            keys.add((l["ev"], l["m"]["hdr"]["flags"], shape_key(l["m"]["avps"])))
    samples = [dict(m=l["m"], bytes=l["bytes"][:64], src=l["src"]) for l in msgs[1:200:67]]
    cov = dict(states=g["distinct"] + st["distinct"], transitions=g["generated"] + st["generated"],
               traces_validated_against_impl=len(msgs) + len(lbl), evaluations=len(msgs) + len(lbl), distinct_nontrivial=len(keys) + len(lbl),
               lenbook_histories=len(lbl),
               rule="messages = every state of spec/WireGen.tla (exhaustive over its shape classes, up to the configured number of AVPs) "
                    "+ seeded random trees over the verification dictionary + one message per AVP definition of the embedded dictionaries; "
                    "non-trivial = at least two AVPs, or a grouped AVP, or a payload needing padding; distinct by (event, header flags, structural shape with value classes) Since extended: five ways of assembling a message (NewAVP, vendor AVPs without the V bit / Message.NewAVP, struct literals, Message.NewAVP by dictionary name, groups filled after an enclosing group was wrapped); codes of the base dictionary under unknown vendors; the library's pools are poisoned between ReadMessage and the inspection of its result; LenBook over ten operations with WriteTo equality; grouped base AVPs inside groups; a second message read from the same reader; SerializeTo into an over-long buffer; bodies larger than the pooled buffers.",
               samples=samples, exhaustive=False,
               tlc_generator_states=g["distinct"], tlc_validator_processes=st["procs"], rejected_lines=len(bad),
               known_finding_hits={k: n for k, (n, _) in v.hits.items()})
    rc = v.finish()
    vlib.write_evidence(prop, ctx.tier, ctx.seed, cov, ctx.wall(), v.nviol,
                        ["TLC (tla2tools 1.8.0) evaluates spec/Wire.tla faithfully", "JSON trace lines reflect what the library returned (harness/abs has no codec of its own)",
                         "IEEE-754 bit patterns and time.Unix come from the Go standard library"])
    return rc
