// Package abs is the bridge between the abstract messages of spec/Wire.tla and
// values of the go-diameter public API. It contains no encoder or decoder of
// its own: bytes are always produced / consumed by the library under test (or
// by TLC), and compared by TLC.
package abs

import (
	"fmt"
	"math"
	"net"
	"time"

	"github.com/fiorix/go-diameter/v4/diam"
	"github.com/fiorix/go-diameter/v4/diam/datatype"
	"github.com/fiorix/go-diameter/v4/diam/dict"
)

// Hdr is the abstract message header (Wire.tla: H).
type Hdr struct {
	Version int   `json:"version"`
	Flags   int   `json:"flags"`
	Cmd     []int `json:"cmd"` // 3 bytes
	App     []int `json:"app"` // 4 bytes
	HbH     []int `json:"hbh"`
	E2E     []int `json:"e2e"`
}

// AVP is the abstract AVP (Wire.tla: A).
type AVP struct {
	Code   []int  `json:"code"`
	Flags  int    `json:"flags"`
	Vendor []int  `json:"vendor"`
	Kind   string `json:"kind"`
	Sem    []int  `json:"sem"`
	Kids   []AVP  `json:"kids"`
}

// Msg is the abstract message.
type Msg struct {
	Hdr  Hdr   `json:"hdr"`
	AVPs []AVP `json:"avps"`
}

func B4(v uint32) []int {
	return []int{int(v >> 24), int(v >> 16 & 255), int(v >> 8 & 255), int(v & 255)}
}
func B3(v uint32) []int { return []int{int(v >> 16 & 255), int(v >> 8 & 255), int(v & 255)} }
func U32(b []int) uint32 {
	var v uint32
	for _, x := range b {
		v = v<<8 | uint32(x&255)
	}
	return v
}
func Limbs32(v uint32) []int { return []int{int(v >> 16), int(v & 0xffff)} }
func Limbs64(v uint64) []int {
	return []int{int(v >> 48), int(v >> 32 & 0xffff), int(v >> 16 & 0xffff), int(v & 0xffff)}
}
func FromLimbs(l []int) uint64 {
	var v uint64
	for _, x := range l {
		v = v<<16 | uint64(x&0xffff)
	}
	return v
}
func Ints(b []byte) []int {
	r := make([]int, len(b))
	for i, x := range b {
		r[i] = int(x)
	}
	return r
}
func Bytes(b []int) []byte {
	r := make([]byte, len(b))
	for i, x := range b {
		r[i] = byte(x)
	}
	return r
}

// Data builds the library value for (kind, sem).
func Data(a *AVP) (datatype.Type, error) {
	switch a.Kind {
	case "u32":
		return datatype.Unsigned32(uint32(FromLimbs(a.Sem))), nil
	case "i32":
		return datatype.Integer32(int32(uint32(FromLimbs(a.Sem)))), nil
	case "enum":
		return datatype.Enumerated(int32(uint32(FromLimbs(a.Sem)))), nil
	case "f32":
		return datatype.Float32(math.Float32frombits(uint32(FromLimbs(a.Sem)))), nil
	case "u64":
		return datatype.Unsigned64(FromLimbs(a.Sem)), nil
	case "i64":
		return datatype.Integer64(int64(FromLimbs(a.Sem))), nil
	case "f64":
		return datatype.Float64(math.Float64frombits(FromLimbs(a.Sem))), nil
	case "time":
		return datatype.Time(time.Unix(int64(FromLimbs(a.Sem)), 0)), nil
	case "addr":
		if len(a.Sem) < 1 {
			return nil, fmt.Errorf("addr without family")
		}
		fam, b := a.Sem[0], Bytes(a.Sem[1:])
		if fam == 1 || fam == 2 {
			return datatype.Address(b), nil
		}
		return datatype.Address(append([]byte{byte(fam >> 8), byte(fam)}, b...)), nil
	case "octets":
		return datatype.OctetString(Bytes(a.Sem)), nil
	case "utf8":
		return datatype.UTF8String(Bytes(a.Sem)), nil
	case "ident":
		return datatype.DiameterIdentity(Bytes(a.Sem)), nil
	case "uri":
		return datatype.DiameterURI(Bytes(a.Sem)), nil
	case "ipfilter":
		return datatype.IPFilterRule(Bytes(a.Sem)), nil
	case "qos":
		return datatype.QoSFilterRule(Bytes(a.Sem)), nil
	case "ipv4":
		return datatype.IPv4(Bytes(a.Sem)), nil
	case "ipv6":
		return datatype.IPv6(Bytes(a.Sem)), nil
	case "unknown":
		return datatype.Unknown(Bytes(a.Sem)), nil
	case "grouped":
		g := &diam.GroupedAVP{}
		for i := range a.Kids {
			k, err := ToGo(&a.Kids[i])
			if err != nil {
				return nil, err
			}
			g.AddAVP(k)
		}
		return g, nil
	}
	return nil, fmt.Errorf("unknown kind %q", a.Kind)
}

// ToGo builds a library AVP through the public constructor.
func ToGo(a *AVP) (*diam.AVP, error) { return ToGoStyle(a, "newavp") }

// ToGoStyle builds a library AVP the way an application may: "newavp" = diam.NewAVP with the
// flags as given; "novbit" = diam.NewAVP with the V bit left out for a vendor AVP (the
// constructor sets it); "literal" = a struct literal (Length left zero). Grouped members are
// built in the same style.
func ToGoStyle(a *AVP, style string) (*diam.AVP, error) {
	if style == "late2" {
		return late2(a)
	}
	d, err := dataStyle(a, style)
	if err != nil {
		return nil, err
	}
	switch style {
	case "literal":
		return &diam.AVP{Code: U32(a.Code), Flags: uint8(a.Flags), VendorID: U32(a.Vendor), Data: d}, nil
	case "novbit":
		fl := uint8(a.Flags)
		if U32(a.Vendor) != 0 {
			fl &^= 0x80
		}
		return diam.NewAVP(U32(a.Code), fl, U32(a.Vendor), d), nil
	}
	return diam.NewAVP(U32(a.Code), uint8(a.Flags), U32(a.Vendor), d), nil
}

var vNames = func() map[[2]uint32]string {
	m := map[[2]uint32]string{}
	for _, d := range VDefs() {
		m[[2]uint32{d.Code, d.Vendor}] = d.Name
	}
	return m
}()

// late2: a group is wrapped (diam.NewAVP measures it) while the groups nested in it are still empty; they
// receive their members afterwards through GroupedAVP.AddAVP; only then is the outermost AVP added to a message
func late2(a *AVP) (*diam.AVP, error) {
	if a.Kind != "grouped" {
		return ToGoStyle(a, "newavp")
	}
	g := &diam.GroupedAVP{}
	var fills []func() error
	for i := range a.Kids {
		k := &a.Kids[i]
		if k.Kind != "grouped" {
			ka, err := ToGoStyle(k, "newavp")
			if err != nil {
				return nil, err
			}
			g.AVP = append(g.AVP, ka)
			continue
		}
		kg := &diam.GroupedAVP{}
		g.AVP = append(g.AVP, diam.NewAVP(U32(k.Code), uint8(k.Flags), U32(k.Vendor), kg))
		fills = append(fills, func() error {
			for j := range k.Kids {
				x, err := late2(&k.Kids[j])
				if err != nil {
					return err
				}
				kg.AddAVP(x)
			}
			return nil
		})
	}
	out := diam.NewAVP(U32(a.Code), uint8(a.Flags), U32(a.Vendor), g)
	for _, f := range fills {
		if err := f(); err != nil {
			return nil, err
		}
	}
	return out, nil
}

func dataStyle(a *AVP, style string) (datatype.Type, error) {
	if a.Kind != "grouped" || style == "newavp" || style == "byname" {
		return Data(a)
	}
	g := &diam.GroupedAVP{}
	for i := range a.Kids {
		k, err := ToGoStyle(&a.Kids[i], style)
		if err != nil {
			return nil, err
		}
		g.AVP = append(g.AVP, k)
	}
	return g, nil
}

// NewMessage builds a library message from the abstract one through the public API
// (NewMessage + AddAVP). Identifiers are stored after construction because
// NewMessage replaces zero identifiers by random ones.
func NewMessage(m *Msg, dp *dict.Parser) (*diam.Message, error) {
	return NewMessageStyle(m, dp, "newavp")
}

// NewMessageStyle: see ToGoStyle; "novbit" additionally adds top-level AVPs with Message.NewAVP.
func NewMessageStyle(m *Msg, dp *dict.Parser, style string) (*diam.Message, error) {
	gm := diam.NewMessage(U32(m.Hdr.Cmd), uint8(m.Hdr.Flags), U32(m.Hdr.App), U32(m.Hdr.HbH), U32(m.Hdr.E2E), dp)
	gm.Header.HopByHopID = U32(m.Hdr.HbH)
	gm.Header.EndToEndID = U32(m.Hdr.E2E)
	gm.Header.Version = uint8(m.Hdr.Version)
	for i := range m.AVPs {
		a, err := ToGoStyle(&m.AVPs[i], style)
		if err != nil {
			return nil, err
		}
		if style == "byname" {
			// Message.NewAVP with the dictionary name instead of the code, where the dictionary has one
			if name, ok := vNames[[2]uint32{a.Code, a.VendorID}]; ok && gm.Header.ApplicationID == VApp {
				if _, err := gm.NewAVP(name, a.Flags, a.VendorID, a.Data); err == nil {
					continue
				}
			}
			gm.AddAVP(a)
			continue
		}
		if style == "novbit" && i%2 == 0 {
			fl := a.Flags
			if a.VendorID != 0 {
				fl &^= 0x80
			}
			if _, err := gm.NewAVP(a.Code, fl, a.VendorID, a.Data); err != nil {
				return nil, err
			}
			continue
		}
		gm.AddAVP(a)
	}
	return gm, nil
}

// KindOf names the kind of a library value by its Go type.
func KindOf(d datatype.Type) string {
	switch d.(type) {
	case datatype.Unsigned32:
		return "u32"
	case datatype.Integer32:
		return "i32"
	case datatype.Enumerated:
		return "enum"
	case datatype.Float32:
		return "f32"
	case datatype.Unsigned64:
		return "u64"
	case datatype.Integer64:
		return "i64"
	case datatype.Float64:
		return "f64"
	case datatype.Time, *datatype.Time:
		return "time"
	case datatype.Address:
		return "addr"
	case datatype.OctetString:
		return "octets"
	case datatype.UTF8String:
		return "utf8"
	case datatype.DiameterIdentity:
		return "ident"
	case datatype.DiameterURI:
		return "uri"
	case datatype.IPFilterRule:
		return "ipfilter"
	case datatype.QoSFilterRule:
		return "qos"
	case datatype.IPv4:
		return "ipv4"
	case datatype.IPv6:
		return "ipv6"
	case datatype.Unknown:
		return "unknown"
	case *diam.GroupedAVP:
		return "grouped"
	case datatype.Grouped:
		return "rawgrouped"
	case nil:
		return "nil"
	}
	return fmt.Sprintf("go:%T", d)
}

// Sem is the semantic value of a library value, computed arithmetically from the
// Go value (never by calling the library's Serialize).
func Sem(d datatype.Type) []int {
	switch v := d.(type) {
	case datatype.Unsigned32:
		return Limbs32(uint32(v))
	case datatype.Integer32:
		return Limbs32(uint32(int32(v)))
	case datatype.Enumerated:
		return Limbs32(uint32(int32(v)))
	case datatype.Float32:
		return Limbs32(math.Float32bits(float32(v)))
	case datatype.Unsigned64:
		return Limbs64(uint64(v))
	case datatype.Integer64:
		return Limbs64(uint64(int64(v)))
	case datatype.Float64:
		return Limbs64(math.Float64bits(float64(v)))
	case datatype.Time:
		return Limbs64(uint64(time.Time(v).Unix()))
	case datatype.Address:
		// documented representation: 4 bytes = IPv4, 16 bytes = IPv6, otherwise family || address
		switch len(v) {
		case net.IPv4len:
			return append([]int{1}, Ints(v)...)
		case net.IPv6len:
			return append([]int{2}, Ints(v)...)
		}
		if len(v) < 2 {
			return append([]int{0}, Ints(v)...)
		}
		return append([]int{int(v[0])<<8 | int(v[1])}, Ints(v[2:])...)
	case datatype.OctetString:
		return Ints([]byte(v))
	case datatype.UTF8String:
		return Ints([]byte(v))
	case datatype.DiameterIdentity:
		return Ints([]byte(v))
	case datatype.DiameterURI:
		return Ints([]byte(v))
	case datatype.IPFilterRule:
		return Ints([]byte(v))
	case datatype.QoSFilterRule:
		return Ints([]byte(v))
	case datatype.IPv4:
		return Ints(v)
	case datatype.IPv6:
		return Ints(v)
	case datatype.Unknown:
		return Ints(v)
	case datatype.Grouped:
		return Ints(v)
	}
	return []int{}
}

// FromGo describes a library AVP as an abstract AVP.
func FromGo(a *diam.AVP) AVP {
	r := AVP{Code: B4(a.Code), Flags: int(a.Flags), Vendor: B4(a.VendorID), Kind: KindOf(a.Data), Sem: []int{}, Kids: []AVP{}}
	if g, ok := a.Data.(*diam.GroupedAVP); ok {
		for _, k := range g.AVP {
			r.Kids = append(r.Kids, FromGo(k))
		}
		return r
	}
	if a.Data != nil {
		r.Sem = Sem(a.Data)
	}
	return r
}

func FromGoList(as []*diam.AVP) []AVP {
	r := []AVP{}
	for _, a := range as {
		r = append(r, FromGo(a))
	}
	return r
}

// HdrFromGo describes a library header.
func HdrFromGo(h *diam.Header) Hdr {
	return Hdr{Version: int(h.Version), Flags: int(h.CommandFlags), Cmd: B3(h.CommandCode), App: B4(h.ApplicationID), HbH: B4(h.HopByHopID), E2E: B4(h.EndToEndID)}
}
