package abs

import (
	"encoding/xml"
	"fmt"
	"go/ast"
	"go/parser"
	"go/token"
	"path/filepath"
	"sort"
	"strconv"
	"strings"
)

// Independent extraction of the embedded dictionaries: the XML text is taken from
// the string literals of diam/dict/default.go with go/parser and decoded with the
// harness's own encoding/xml structures; dict.Parser's indexes are never consulted.

func DefaultXML(repo string) (map[string]string, error) {
	fset := token.NewFileSet()
	f, err := parser.ParseFile(fset, filepath.Join(repo, "diam/dict/default.go"), nil, 0)
	if err != nil {
		return nil, err
	}
	out := map[string]string{}
	for _, d := range f.Decls {
		g, ok := d.(*ast.GenDecl)
		if !ok || g.Tok != token.VAR {
			continue
		}
		for _, s := range g.Specs {
			vs := s.(*ast.ValueSpec)
			for i, n := range vs.Names {
				if i < len(vs.Values) && strings.HasSuffix(n.Name, "XML") {
					if lit, ok := vs.Values[i].(*ast.BasicLit); ok && lit.Kind == token.STRING {
						v, err := strconv.Unquote(lit.Value)
						if err == nil {
							out[n.Name] = v
						}
					}
				}
			}
		}
	}
	if len(out) == 0 {
		return nil, fmt.Errorf("no *XML literals found in default.go")
	}
	return out, nil
}

// DefaultLoadOrder returns the names of the XML variables in the order the
// library's init() loads them (the order of the `dictionaries` table in default.go),
// read from the source with go/parser.
func DefaultLoadOrder(repo string) ([]string, error) {
	fset := token.NewFileSet()
	f, err := parser.ParseFile(fset, filepath.Join(repo, "diam/dict/default.go"), nil, 0)
	if err != nil {
		return nil, err
	}
	var order []string
	ast.Inspect(f, func(n ast.Node) bool {
		if fd, ok := n.(*ast.FuncDecl); ok && fd.Name.Name == "init" {
			ast.Inspect(fd, func(m ast.Node) bool {
				if id, ok := m.(*ast.Ident); ok && strings.HasSuffix(id.Name, "XML") {
					order = append(order, id.Name)
				}
				return true
			})
			return false
		}
		return true
	})
	if len(order) == 0 {
		xs, err := DefaultXML(repo)
		if err != nil {
			return nil, err
		}
		for k := range xs {
			order = append(order, k)
		}
		sort.Strings(order)
	}
	return order, nil
}

type XFile struct {
	XMLName xml.Name `xml:"diameter"`
	Apps    []XApp   `xml:"application"`
}
type XApp struct {
	ID      uint32     `xml:"id,attr"`
	Type    string     `xml:"type,attr"`
	Name    string     `xml:"name,attr"`
	Vendors []XVendor  `xml:"vendor"`
	Cmds    []XCommand `xml:"command"`
	AVPs    []XAVP     `xml:"avp"`
}
type XVendor struct {
	ID   uint32 `xml:"id,attr"`
	Name string `xml:"name,attr"`
}
type XCommand struct {
	Code  uint32  `xml:"code,attr"`
	Name  string  `xml:"name,attr"`
	Short string  `xml:"short,attr"`
	Req   []XRule `xml:"request>rule"`
	Ans   []XRule `xml:"answer>rule"`
}
type XRule struct {
	AVP string `xml:"avp,attr"`
}
type XAVP struct {
	Name   string `xml:"name,attr"`
	Code   uint32 `xml:"code,attr"`
	Must   string `xml:"must,attr"`
	May    string `xml:"may,attr"`
	Vendor uint32 `xml:"vendor-id,attr"`
	Data   struct {
		Type  string  `xml:"type,attr"`
		Rules []XRule `xml:"rule"`
	} `xml:"data"`
}

func ParseXML(s string) (*XFile, error) {
	f := &XFile{}
	if err := xml.Unmarshal([]byte(s), f); err != nil {
		return nil, err
	}
	return f, nil
}

// DefaultFiles returns the parsed embedded dictionaries in load order.
func DefaultFiles(repo string) ([]*XFile, []string, error) {
	xs, err := DefaultXML(repo)
	if err != nil {
		return nil, nil, err
	}
	order, err := DefaultLoadOrder(repo)
	if err != nil {
		return nil, nil, err
	}
	var fs []*XFile
	var names []string
	for _, n := range order {
		s, ok := xs[n]
		if !ok {
			continue
		}
		f, err := ParseXML(s)
		if err != nil {
			return nil, nil, fmt.Errorf("%s: %v", n, err)
		}
		fs = append(fs, f)
		names = append(names, n)
	}
	return fs, names, nil
}
