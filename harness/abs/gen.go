package abs

import (
	"math"
	"math/rand"
)

// Seeded random generators of abstract values. Values are "valid for their data
// type" in the sense of Wire!WFAVP (times inside the representable window,
// address families 1..65534 with 4 / 16 bytes for IPv4 / IPv6).

var u32Edge = []uint32{0, 1, 2, 255, 256, 65535, 65536, 1 << 24, 0x7fffffff, 0x80000000, 0x80000001, 0xfffffffe, 0xffffffff}
var u64Edge = []uint64{0, 1, 0xffffffff, 1 << 32, 0x7fffffffffffffff, 0x8000000000000000, 0xffffffffffffffff, 0x0102030405060708}
var f32Edge = []uint32{0, 0x80000000, 0x7f800000, 0xff800000, 0x7fc00000, 0x7fa00001, 0xffc12345, 1, 0x007fffff, 0x00800000, 0x7f7fffff, 0x3f800000}
var f64Edge = []uint64{0, 0x8000000000000000, 0x7ff0000000000000, 0xfff0000000000000, 0x7ff8000000000000, 0x7ff4000000000001, 0xfff8123456789abc, 1, 0x000fffffffffffff, 0x0010000000000000, 0x7fefffffffffffff, 0x3ff0000000000000}

// Unix seconds: window edges, both sides of the 2036 era boundary (2085978496), 1970, 1900+2^31
var timeEdge = []int64{-61505152, -61505151, -1, 0, 1, 2085978495, 2085978496, 2085978497, 4233462143, 4233462142, 1700000000, 2147483647, 2147483648}

func RandBytes(r *rand.Rand, n int) []int {
	b := make([]int, n)
	for i := range b {
		b[i] = r.Intn(256)
	}
	return b
}

func randLen(r *rand.Rand) int {
	switch r.Intn(10) {
	case 0:
		return 0
	case 1:
		return 1 + r.Intn(3)
	case 2:
		return 4
	case 3:
		return 5 + r.Intn(4)
	case 4:
		return 60 + r.Intn(10)
	case 5:
		return 250 + r.Intn(20)
	default:
		return r.Intn(40)
	}
}

// RandSem draws a semantic value of the given kind.
func RandSem(r *rand.Rand, kind string) []int {
	edge := r.Intn(3) == 0
	switch kind {
	case "u32", "i32", "enum":
		if edge {
			return Limbs32(u32Edge[r.Intn(len(u32Edge))])
		}
		return Limbs32(r.Uint32())
	case "f32":
		if edge {
			return Limbs32(f32Edge[r.Intn(len(f32Edge))])
		}
		if r.Intn(4) == 0 { // random NaN payload / denormal
			if r.Intn(2) == 0 {
				return Limbs32(0x7f800000 | uint32(r.Intn(2))<<31 | (r.Uint32()&0x007fffff | 1))
			}
			return Limbs32(uint32(r.Intn(2))<<31 | r.Uint32()&0x007fffff)
		}
		return Limbs32(math.Float32bits(float32(r.NormFloat64() * 1e6)))
	case "u64", "i64":
		if edge {
			return Limbs64(u64Edge[r.Intn(len(u64Edge))])
		}
		return Limbs64(r.Uint64())
	case "f64":
		if edge {
			return Limbs64(f64Edge[r.Intn(len(f64Edge))])
		}
		if r.Intn(4) == 0 {
			if r.Intn(2) == 0 {
				return Limbs64(0x7ff0000000000000 | uint64(r.Intn(2))<<63 | (r.Uint64()&0x000fffffffffffff | 1))
			}
			return Limbs64(uint64(r.Intn(2))<<63 | r.Uint64()&0x000fffffffffffff)
		}
		return Limbs64(math.Float64bits(r.NormFloat64() * 1e12))
	case "time":
		if edge {
			return Limbs64(uint64(timeEdge[r.Intn(len(timeEdge))]))
		}
		return Limbs64(uint64(-61505152 + r.Int63n(4233462143+61505152+1)))
	case "addr":
		switch r.Intn(6) {
		case 0, 1:
			return append([]int{1}, RandBytes(r, 4)...)
		case 2, 3:
			b := RandBytes(r, 16)
			if b[10] == 0xff && b[11] == 0xff { // keep IPv4-mapped for the dedicated class below
				b[0] = 0x20
			}
			if allZero(b[:10]) {
				b[0] = 0x20
			}
			return append([]int{2}, b...)
		case 4: // other family (E.164 = 8 etc.), any length that is not confusable is also drawn
			fam := []int{3, 8, 15, 16, 65534, 256}[r.Intn(6)]
			return append([]int{fam}, RandBytes(r, 1+r.Intn(20))...)
		default: // IPv4-mapped IPv6 address (a valid IPv6 address)
			b := []int{0, 0, 0, 0, 0, 0, 0, 0, 0, 0, 255, 255}
			return append([]int{2}, append(b, RandBytes(r, 4)...)...)
		}
	case "ipv4":
		return RandBytes(r, 4)
	case "ipv6":
		b := RandBytes(r, 16)
		if r.Intn(5) == 0 {
			b = append([]int{0, 0, 0, 0, 0, 0, 0, 0, 0, 0, 255, 255}, RandBytes(r, 4)...)
		}
		return b
	case "utf8", "ident", "uri", "ipfilter", "qos":
		n := randLen(r)
		b := make([]int, n)
		for i := range b {
			b[i] = 32 + r.Intn(95)
		}
		if r.Intn(4) == 0 { // arbitrary bytes are carried verbatim too
			return RandBytes(r, n)
		}
		return b
	case "octets", "unknown":
		return RandBytes(r, randLen(r))
	}
	return []int{}
}

func allZero(b []int) bool {
	for _, x := range b {
		if x != 0 {
			return false
		}
	}
	return true
}

// RandAVP draws an AVP for a definition; grouped AVPs get children drawn from defs.
func RandAVP(r *rand.Rand, d Def, defs []Def, depth int) AVP {
	a := AVP{Code: B4(d.Code), Vendor: B4(d.Vendor), Kind: d.Kind, Sem: []int{}, Kids: []AVP{}}
	fl := []int{0, 64, 32, 96}[r.Intn(4)]
	if r.Intn(20) == 0 {
		fl |= []int{16, 8, 4, 2, 1}[r.Intn(5)] // reserved bits are carried verbatim
	}
	if d.Vendor != 0 {
		fl |= 128
	}
	a.Flags = fl
	if d.Kind == "grouped" {
		n := 0
		if depth > 0 {
			n = r.Intn(4)
		}
		for i := 0; i < n; i++ {
			a.Kids = append(a.Kids, RandAVP(r, defs[r.Intn(len(defs))], defs, depth-1))
		}
		return a
	}
	a.Sem = RandSem(r, d.Kind)
	return a
}

// RandUnknownAVP draws an AVP whose code the dictionary does not define.
func RandUnknownAVP(r *rand.Rand) AVP {
	a := AVP{Code: B4(uint32(7000 + r.Intn(100))), Vendor: B4(0), Kind: "unknown", Sem: RandBytes(r, randLen(r)), Kids: []AVP{}}
	a.Flags = []int{0, 64, 32}[r.Intn(3)]
	if r.Intn(2) == 0 {
		a.Flags |= 128
		a.Vendor = B4([]uint32{4242, 1, 0x7fffffff, 0xffffffff, 0}[r.Intn(5)])
	}
	if r.Intn(4) == 0 {
		// a code the base dictionary defines, under a vendor nobody defines: a different, undefined AVP
		a.Code = B4([]uint32{268, 55, 257, 260, 263, 264, 1, 27, 279, 284}[r.Intn(10)])
		a.Flags |= 128
		a.Vendor = B4([]uint32{4242, 193, 0x7fffffff}[r.Intn(3)])
	}
	return a
}

var idEdge = []uint32{0, 1, 1 << 31, 0xffffffff}

func RandHdr(r *rand.Rand, cmd, app uint32) Hdr {
	fl := []int{0x00, 0x80, 0x40, 0xc0, 0x20, 0x10, 0xf0, 0xff, 0x0f, 0xa0}[r.Intn(10)]
	if r.Intn(3) == 0 {
		fl = r.Intn(256)
	}
	id := func() uint32 {
		if r.Intn(3) == 0 {
			return idEdge[r.Intn(len(idEdge))]
		}
		return r.Uint32()
	}
	return Hdr{Version: 1, Flags: fl, Cmd: B3(cmd), App: B4(app), HbH: B4(id()), E2E: B4(id())}
}
