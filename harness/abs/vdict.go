package abs

import (
	"bytes"
	"fmt"
	"strings"

	"github.com/fiorix/go-diameter/v4/diam/dict"
)

// The verification dictionary: application 999 / vendor 99999, one AVP of every
// type name the parser accepts, vendor-specific twins, two grouped AVPs.
// The same table is the constant VDictTable of spec/VDict.tla; the harness emits
// it as a trace line and TLC checks that both sides agree.

type KindInfo struct {
	Kind     string
	TypeName string
}

var KindTable = []KindInfo{
	{"u32", "Unsigned32"}, {"i32", "Integer32"}, {"enum", "Enumerated"}, {"f32", "Float32"},
	{"u64", "Unsigned64"}, {"i64", "Integer64"}, {"f64", "Float64"}, {"time", "Time"},
	{"addr", "Address"}, {"octets", "OctetString"}, {"utf8", "UTF8String"}, {"ident", "DiameterIdentity"},
	{"uri", "DiameterURI"}, {"ipfilter", "IPFilterRule"}, {"qos", "QoSFilterRule"}, {"ipv4", "IPv4"},
	{"ipv6", "IPv6"}, {"grouped", "Grouped"},
}

func KindOfTypeName(tn string) string {
	for _, k := range KindTable {
		if k.TypeName == tn {
			return k.Kind
		}
	}
	return "?" + tn
}

const (
	VApp     = 999
	VVendor  = 99999
	VCmd     = 9999
	VGroup2  = 9050
	VVGroup2 = 9150
)

// Def is one AVP definition as the harness knows it (never read from dict.Parser).
type Def struct {
	App    uint32 `json:"app"`
	Code   uint32 `json:"code"`
	Vendor uint32 `json:"vendor"`
	Name   string `json:"name"`
	Kind   string `json:"kind"`
	Must   string `json:"must"`
}

func VDefs() []Def {
	var d []Def
	for i, k := range KindTable {
		d = append(d, Def{VApp, uint32(9001 + i), 0, "V-" + k.TypeName, k.Kind, "M"})
	}
	for i, k := range KindTable {
		d = append(d, Def{VApp, uint32(9101 + i), VVendor, "VV-" + k.TypeName, k.Kind, "M,V"})
	}
	d = append(d, Def{VApp, VGroup2, 0, "V-Grouped2", "grouped", "M"})
	d = append(d, Def{VApp, VVGroup2, VVendor, "VV-Grouped2", "grouped", "M,V"})
	// definitions whose flag rule text and vendor id disagree
	d = append(d, Def{VApp, 9201, VVendor, "VW-Unsigned32", "u32", "M"})
	d = append(d, Def{VApp, 9202, 0, "VX-OctetString", "octets", "M,V"})
	return d
}

func typeNameOfKind(kind string) string {
	for _, k := range KindTable {
		if k.Kind == kind {
			return k.TypeName
		}
	}
	return ""
}

// VDictXML renders the verification dictionary.
func VDictXML() string { return VDictXMLShift(0) }

// VDictXMLShift renders a variant in which every AVP code is shifted: the same names
// resolve to different codes (used to check that names resolve through the message's
// own dictionary).
func VDictXMLShift(shift uint32) string {
	var b bytes.Buffer
	fmt.Fprintf(&b, "<?xml version=\"1.0\" encoding=\"UTF-8\"?>\n<diameter>\n<application id=\"%d\" type=\"auth\" name=\"Verif\">\n<vendor id=\"%d\" name=\"VerifVendor\"/>\n", VApp, VVendor)
	fmt.Fprintf(&b, "<command code=\"%d\" short=\"VT\" name=\"Verif-Test\"><request><rule avp=\"V-Unsigned32\" required=\"false\" max=\"1\"/></request><answer><rule avp=\"V-Unsigned32\" required=\"false\" max=\"1\"/></answer></command>\n", VCmd)
	// command codes that use the top bit of the 24-bit field (the range 3GPP uses for vendor-specific commands)
	for i, c := range []uint32{8388635, 16777214} {
		fmt.Fprintf(&b, "<command code=\"%d\" short=\"VH%d\" name=\"Verif-High-%d\"><request><rule avp=\"V-Unsigned32\" required=\"false\" max=\"1\"/></request><answer><rule avp=\"V-Unsigned32\" required=\"false\" max=\"1\"/></answer></command>\n", c, i, i)
	}
	for _, d := range VDefs() {
		v := ""
		if d.Vendor != 0 {
			v = fmt.Sprintf(" vendor-id=\"%d\"", d.Vendor)
		}
		extra := ""
		if d.Kind == "grouped" {
			extra = "<rule avp=\"V-Unsigned32\" required=\"false\" max=\"1\"/>"
		}
		if d.Kind == "enum" {
			extra = "<item code=\"0\" name=\"ZERO\"/><item code=\"1\" name=\"ONE\"/>"
		}
		// an entry with a vendor id whose rule text does not ask for the V bit also forbids it (as a few
		// entries of the embedded dictionaries do): the vendor id decides, not the rule text
		mustNot := "-"
		if d.Vendor != 0 && !strings.Contains(d.Must, "V") {
			mustNot = "V"
		}
		fmt.Fprintf(&b, "<avp name=\"%s\" code=\"%d\" must=\"%s\" may=\"P\" must-not=\"%s\" may-encrypt=\"-\"%s><data type=\"%s\">%s</data></avp>\n",
			d.Name, d.Code+shift, d.Must, mustNot, v, typeNameOfKind(d.Kind), extra)
	}
	b.WriteString("</application>\n</diameter>\n")
	return b.String()
}

// NewVParser returns a fresh parser holding the base dictionary (as extracted from
// the repository source) and the verification dictionary.
func NewVParser(repo string) (*dict.Parser, error) { return NewVParserShift(repo, 0) }

func NewVParserShift(repo string, shift uint32) (*dict.Parser, error) {
	xs, err := DefaultXML(repo)
	if err != nil {
		return nil, err
	}
	p, _ := dict.NewParser()
	base, ok := xs["baseXML"]
	if !ok {
		return nil, fmt.Errorf("baseXML not found in default.go")
	}
	if err := p.Load(strings.NewReader(base)); err != nil {
		return nil, fmt.Errorf("load base: %v", err)
	}
	if err := p.Load(strings.NewReader(VDictXMLShift(shift))); err != nil {
		return nil, fmt.Errorf("load vdict: %v", err)
	}
	return p, nil
}
