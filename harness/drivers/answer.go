package drivers

import (
	"encoding/json"
	"math/rand"

	"verifharness/abs"

	"github.com/fiorix/go-diameter/v4/diam"
	"github.com/fiorix/go-diameter/v4/diam/dict"
)

// Answer driver (C16, message API half): builds a request header, calls
// Message.Answer and records the answer. spec/AnswerTrace.tla decides.

type ansHdr struct {
	Flags int   `json:"flags"`
	Cmd   []int `json:"cmd"`
	App   []int `json:"app"`
	HbH   []int `json:"hbh"`
	E2E   []int `json:"e2e"`
}
type ansCase struct {
	Req ansHdr `json:"req"`
	RC  int    `json:"rc"`
}
type ansFirst struct {
	Code  int   `json:"code"`
	Flags int   `json:"flags"`
	Sem   []int `json:"sem"`
}
type ansObs struct {
	Hdr    ansHdr   `json:"hdr"`
	NAVPs  int      `json:"navps"`
	First  ansFirst `json:"first"`
	Stream int      `json:"stream"`
}
type ansLine struct {
	Ev     string `json:"ev"`
	ID     int    `json:"id"`
	Via    string `json:"via"`
	Req    ansHdr `json:"req"`
	RC     int    `json:"rc"`
	Stream int    `json:"stream"`
	Ans    ansObs `json:"ans"`
}

func hdrOf(h *diam.Header) ansHdr {
	return ansHdr{Flags: int(h.CommandFlags), Cmd: abs.B3(h.CommandCode), App: abs.B4(h.ApplicationID), HbH: abs.B4(h.HopByHopID), E2E: abs.B4(h.EndToEndID)}
}

func streamNo(s uint) int {
	if s == diam.InvalidStreamID {
		return -1
	}
	return int(s)
}

func obsAnswer(a *diam.Message) ansObs {
	o := ansObs{Hdr: hdrOf(a.Header), NAVPs: len(a.AVP), First: ansFirst{Sem: []int{}}, Stream: streamNo(a.MessageStream())}
	if len(a.AVP) > 0 {
		o.First = ansFirst{Code: int(a.AVP[0].Code), Flags: int(a.AVP[0].Flags), Sem: abs.Sem(a.AVP[0].Data)}
	}
	return o
}

func runAnswer(id int, c *ansCase) ansLine {
	req := diam.NewMessage(abs.U32(c.Req.Cmd), uint8(c.Req.Flags), abs.U32(c.Req.App), abs.U32(c.Req.HbH), abs.U32(c.Req.E2E), dict.Default)
	// a request received from a peer carries whatever identifiers the peer chose, zero included
	req.Header.HopByHopID = abs.U32(c.Req.HbH)
	req.Header.EndToEndID = abs.U32(c.Req.E2E)
	ans := req.Answer(uint32(c.RC))
	return ansLine{Ev: "answer", ID: id, Via: "api", Req: c.Req, RC: c.RC, Stream: streamNo(req.MessageStream()), Ans: obsAnswer(ans)}
}

func Answer(a Args) error {
	out, err := NewOut(a.Out)
	if err != nil {
		return err
	}
	defer out.Close()
	id := 0
	if a.Cases != "" {
		err = ReadLines(a.Cases, func(line []byte) error {
			var c ansCase
			if err := json.Unmarshal(line, &c); err != nil {
				return err
			}
			id++
			out.Emit(runAnswer(id, &c))
			return nil
		})
		if err != nil {
			return err
		}
	}
	r := rand.New(rand.NewSource(a.Seed))
	cmds := [][2]uint32{{257, 0}, {280, 0}, {272, 4}, {316, 16777251}, {274, 0}, {258, 0}}
	for i := 0; i < a.N; i++ {
		k := cmds[r.Intn(len(cmds))]
		c := ansCase{Req: ansHdr{Flags: r.Intn(256), Cmd: abs.B3(k[0]), App: abs.B4(k[1]), HbH: abs.B4(r.Uint32()), E2E: abs.B4(r.Uint32())}, RC: []int{0, 2001, 3001, 5012, 1 + r.Intn(1<<30)}[r.Intn(5)]}
		id++
		out.Emit(runAnswer(id, &c))
	}
	return nil
}
