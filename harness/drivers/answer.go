package drivers

import (
	"encoding/json"
	"math/rand"
	"time"

	"verifharness/abs"

	"github.com/fiorix/go-diameter/v4/diam"
	"github.com/fiorix/go-diameter/v4/diam/datatype"
	"github.com/fiorix/go-diameter/v4/diam/dict"
)

// Answer driver (C16, message API half): builds a request header, calls
// Message.Answer and records the answer. spec/AnswerTrace.tla decides.

type ansHdr struct {
	Flags int   `json:"flags"`
	Cmd   []int `json:"cmd"`
	App   []int `json:"app"`
	HbH   []int `json:"hbh"`
	E2E   []int `json:"e2e"`
}
type ansCase struct {
	Req ansHdr `json:"req"`
	RC  int    `json:"rc"`
}
type ansFirst struct {
	Code  int   `json:"code"`
	Flags int   `json:"flags"`
	Sem   []int `json:"sem"`
}
type ansObs struct {
	Hdr    ansHdr   `json:"hdr"`
	NAVPs  int      `json:"navps"`
	First  ansFirst `json:"first"`
	Stream int      `json:"stream"`
}
type ansLine struct {
	Ev     string `json:"ev"`
	ID     int    `json:"id"`
	Via    string `json:"via"`
	Req    ansHdr `json:"req"`
	RC     int    `json:"rc"`
	Stream int    `json:"stream"`
	Ans    ansObs `json:"ans"`
}

func hdrOf(h *diam.Header) ansHdr {
	return ansHdr{Flags: int(h.CommandFlags), Cmd: abs.B3(h.CommandCode), App: abs.B4(h.ApplicationID), HbH: abs.B4(h.HopByHopID), E2E: abs.B4(h.EndToEndID)}
}

func streamNo(s uint) int {
	if s == diam.InvalidStreamID {
		return -1
	}
	return int(s)
}

func obsAnswer(a *diam.Message) ansObs {
	o := ansObs{Hdr: hdrOf(a.Header), NAVPs: len(a.AVP), First: ansFirst{Sem: []int{}}, Stream: streamNo(a.MessageStream())}
	if len(a.AVP) > 0 {
		o.First = ansFirst{Code: int(a.AVP[0].Code), Flags: int(a.AVP[0].Flags), Sem: abs.Sem(a.AVP[0].Data)}
	}
	return o
}

func runAnswer(id int, c *ansCase) ansLine {
	req := diam.NewMessage(abs.U32(c.Req.Cmd), uint8(c.Req.Flags), abs.U32(c.Req.App), abs.U32(c.Req.HbH), abs.U32(c.Req.E2E), dict.Default)
	// a request received from a peer carries whatever identifiers the peer chose, zero included
	req.Header.HopByHopID = abs.U32(c.Req.HbH)
	req.Header.EndToEndID = abs.U32(c.Req.E2E)
	if id%5 == 0 && c.RC != 0 {
		// the application prepared an answer with this result code earlier and then changed its mind: it edited the
		// Result-Code AVP of THAT answer in place. Answers built afterwards are new messages.
		pre := req.Answer(uint32(c.RC))
		if len(pre.AVP) > 0 {
			pre.AVP[0].Data = datatype.Unsigned32(5012)
			pre.AVP[0].Flags = 0
		}
	}
	ans := req.Answer(uint32(c.RC))
	return ansLine{Ev: "answer", ID: id, Via: "api", Req: c.Req, RC: c.RC, Stream: streamNo(req.MessageStream()), Ans: obsAnswer(ans)}
}

func Answer(a Args) error {
	out, err := NewOut(a.Out)
	if err != nil {
		return err
	}
	defer out.Close()
	id := 0
	if a.Cases != "" {
		err = ReadLines(a.Cases, func(line []byte) error {
			var c ansCase
			if err := json.Unmarshal(line, &c); err != nil {
				return err
			}
			id++
			out.Emit(runAnswer(id, &c))
			return nil
		})
		if err != nil {
			return err
		}
	}
	r := rand.New(rand.NewSource(a.Seed))
	cmds := [][2]uint32{{257, 0}, {280, 0}, {272, 4}, {316, 16777251}, {274, 0}, {258, 0}}
	for i := 0; i < a.N; i++ {
		k := cmds[r.Intn(len(cmds))]
		c := ansCase{Req: ansHdr{Flags: r.Intn(256), Cmd: abs.B3(k[0]), App: abs.B4(k[1]), HbH: abs.B4(r.Uint32()), E2E: abs.B4(r.Uint32())}, RC: []int{0, 2001, 3001, 5012, 1 + r.Intn(1<<30)}[r.Intn(5)]}
		id++
		out.Emit(runAnswer(id, &c))
	}
	return nil
}

// SMAnswer (C16, state machine half): CEA (success and each failure path) and DWA built
// by a real server state machine over memnet, for boundary and random identifiers.
func SMAnswer(a Args) error {
	out, err := NewOut(a.Out)
	if err != nil {
		return err
	}
	defer out.Close()
	r := rand.New(rand.NewSource(a.Seed))
	ids := []uint32{0, 1, 1 << 31, 0xffffffff}
	kinds := []struct {
		name string
		rc   int
	}{{"cer_ok", 2001}, {"cer_bad", 5010}, {"cer_noid", 5012}, {"cer_sec", 5017}}
	id := 0
	one := func(kind string, rc int, hbh, e2e uint32, pbit bool) {
		s := newSMServer(srvSettings, "", nil)
		defer s.shutdown()
		b := gateMsg(kind, 0)
		// identifiers and the proxiable bit are patched into the serialised request
		put32 := func(off int, v uint32) {
			b[off], b[off+1], b[off+2], b[off+3] = byte(v>>24), byte(v>>16), byte(v>>8), byte(v)
		}
		put32(12, hbh)
		put32(16, e2e)
		if pbit {
			b[4] |= 0x40
		}
		s.Conn.Feed(b)
		s.Conn.WaitOut(20, 3*time.Second)
		s.Conn.WaitReaderBlocked(2 * time.Second)
		msgs, _ := splitMsgs(s.Conn.Out())
		emitApp := func(via string, reqFlags int, cmd uint32, app uint32, rc int, hb, ee uint32, m *wireMsg) {
			id++
			l := ansLine{Ev: "answer", ID: id, Via: via, Req: ansHdr{Flags: reqFlags, Cmd: abs.B3(cmd), App: abs.B4(app), HbH: abs.B4(hb), E2E: abs.B4(ee)}, RC: rc, Stream: -1,
				Ans: ansObs{Hdr: ansHdr{Cmd: []int{0, 0, 0}, App: []int{0, 0, 0, 0}, HbH: []int{0, 0, 0, 0}, E2E: []int{0, 0, 0, 0}}, First: ansFirst{Sem: []int{}}, Stream: -1}}
			if m != nil {
				l.Ans.Hdr = ansHdr{Flags: int(m.Flags), Cmd: abs.B3(m.Cmd), App: abs.B4(m.App), HbH: abs.B4(m.HbH), E2E: abs.B4(m.E2E)}
				l.Ans.NAVPs = len(m.AVPs)
				if len(m.AVPs) > 0 {
					f := m.AVPs[0]
					l.Ans.First = ansFirst{Code: int(f.Code), Flags: int(f.Flags), Sem: []int{}}
					if len(f.Payload) == 4 {
						l.Ans.First.Sem = abs.Limbs32(be32(f.Payload))
					}
				}
			}
			out.Emit(l)
		}
		emit := func(via string, reqFlags int, cmd uint32, rc int, hb, ee uint32, m *wireMsg) {
			emitApp(via, reqFlags, cmd, 0, rc, hb, ee, m)
		}
		var first *wireMsg
		if len(msgs) > 0 {
			first = &msgs[0]
		}
		emit("sm-cea:"+kind, int(b[4]), 257, rc, hbh, e2e, first)
		if kind == "cer_ok" && first != nil {
			off := len(s.Conn.Out())
			d := buildDWR(e2e, hbh, r.Intn(2) == 0, peerHost, peerRealm)
			if pbit {
				d[4] |= 0x40
			}
			s.Conn.Feed(d)
			s.Conn.WaitOut(off+20, 3*time.Second)
			s.Conn.WaitReaderBlocked(2 * time.Second)
			m2, _ := splitMsgs(s.Conn.Out()[off:])
			var dwa *wireMsg
			if len(m2) > 0 {
				dwa = &m2[0]
			}
			emit("sm-dwa", int(d[4]), 280, 2001, e2e, hbh, dwa)
			// further DWRs on the same connection, differing from the first in their flags and ids
			for j, fl := range []byte{0x80, 0xC0, 0x90, 0xD0} {
				off := len(s.Conn.Out())
				d := buildDWR(hbh+uint32(j)+1, e2e^uint32(j), j%2 == 0, peerHost, peerRealm)
				d[4] = fl
				// a watchdog request under an application id other than 0 resolves through the base dictionary
				// and is answered all the same: the answer mirrors the request's application id
				app := []uint32{0, 4, 0xffffffff, 16777251}[j]
				d[8], d[9], d[10], d[11] = byte(app>>24), byte(app>>16), byte(app>>8), byte(app)
				s.Conn.Feed(d)
				s.Conn.WaitOut(off+20, 3*time.Second)
				s.Conn.WaitReaderBlocked(2 * time.Second)
				m3, _ := splitMsgs(s.Conn.Out()[off:])
				var dwa *wireMsg
				if len(m3) > 0 {
					dwa = &m3[0]
				}
				emitApp("sm-dwa-seq", int(fl), 280, app, 2001, hbh+uint32(j)+1, e2e^uint32(j), dwa)
			}
		}
	}
	for _, k := range kinds {
		for _, h := range ids {
			for _, e := range ids {
				one(k.name, k.rc, h, e, (h+e)%2 == 1)
			}
		}
	}
	for i := 0; i < a.N; i++ {
		k := kinds[r.Intn(len(kinds))]
		one(k.name, k.rc, r.Uint32(), r.Uint32(), r.Intn(2) == 0)
	}
	return nil
}
