package drivers

import (
	"crypto/tls"
	"encoding/json"
	"fmt"
	"github.com/fiorix/go-diameter/v4/diam"
	"io"
	"math/rand"
	"net"
	"strings"
	"time"
	"verifharness/memnet"

	"verifharness/abs"

	"github.com/fiorix/go-diameter/v4/diam/datatype"
	"github.com/fiorix/go-diameter/v4/diam/dict"
	"github.com/fiorix/go-diameter/v4/diam/sm"
)

// CER driver (C11): a scripted peer sends one CER to a real server state machine over
// memnet; the CEA is read with the harness's own framer, the transport Close is observed
// and the metadata is read by a catch-all handler triggered by a follow-up request.

type appRef struct {
	T  string `json:"t"`
	ID []int  `json:"id"`
}
type ceaObs struct {
	Present bool     `json:"present"`
	RC      int      `json:"rc"`
	OH      string   `json:"oh"`
	OR      string   `json:"or"`
	HostIPs [][]int  `json:"hostips"`
	HbH     []int    `json:"hbh"`
	E2E     []int    `json:"e2e"`
	Flags   int      `json:"flags"`
	Apps    []appRef `json:"apps"`
}
type metaObs struct {
	Present bool    `json:"present"`
	OH      string  `json:"oh"`
	OR      string  `json:"or"`
	Apps    [][]int `json:"apps"`
}
type cerObs struct {
	CEA    ceaObs  `json:"cea"`
	Closed bool    `json:"closed"`
	Meta   metaObs `json:"meta"`
}
type cerSettings struct {
	OH       string  `json:"oh"`
	OR       string  `json:"or"`
	HostIPs  [][]int `json:"hostips"`
	LocalIPs [][]int `json:"localips"`
	Local    string  `json:"local"`
	// CanAnswer is false when no CEA can reach the peer: no host address is configured and the
	// local endpoint has no numeric address (the CEA cannot be built), or the transport refuses the write
	CanAnswer bool `json:"cananswer"`
}
type peerID struct {
	OH string `json:"oh"`
	OR string `json:"or"`
}
type cerLine struct {
	Ev       string      `json:"ev"`
	ID       int         `json:"id"`
	Cer      cerSpec     `json:"cer"`
	DictApps []appRef    `json:"dictapps"`
	Settings cerSettings `json:"settings"`
	Peer     peerID      `json:"peer"`
	Obs      cerObs      `json:"obs"`
	Note     string      `json:"note"`
}

func dictApps(repo string) ([]appRef, error) {
	fs, _, err := abs.DefaultFiles(repo)
	if err != nil {
		return nil, err
	}
	var out []appRef
	seen := map[string]bool{}
	for _, f := range fs {
		for _, a := range f.Apps {
			if a.Type == "" {
				continue
			}
			k := fmt.Sprintf("%s/%d", a.Type, a.ID)
			if !seen[k] {
				seen[k] = true
				out = append(out, appRef{T: a.Type, ID: abs.B4(a.ID)})
			}
		}
	}
	return out, nil
}

func addrInts(ip net.IP) []int {
	if v4 := ip.To4(); v4 != nil {
		return append([]int{1}, abs.Ints(v4)...)
	}
	return append([]int{2}, abs.Ints(ip.To16())...)
}

func fixItems(it []appItem) []appItem {
	if it == nil {
		return []appItem{}
	}
	for i := range it {
		it[i].Inner = fixItems(it[i].Inner)
		if it[i].ID == nil {
			it[i].ID = []int{0, 0, 0, 0}
		}
	}
	return it
}

func parseCEA(m *wireMsg) ceaObs {
	o := ceaObs{Present: true, HbH: abs.B4(m.HbH), E2E: abs.B4(m.E2E), Flags: int(m.Flags), HostIPs: [][]int{}, Apps: []appRef{}}
	if rc, ok := m.u32(268); ok {
		o.RC = int(rc)
	}
	for _, a := range m.AVPs {
		switch a.Code {
		case 264:
			o.OH = string(a.Payload)
		case 296:
			o.OR = string(a.Payload)
		case 257:
			if len(a.Payload) >= 2 {
				o.HostIPs = append(o.HostIPs, append([]int{int(a.Payload[0])<<8 | int(a.Payload[1])}, abs.Ints(a.Payload[2:])...))
			}
		case 258:
			if len(a.Payload) == 4 {
				o.Apps = append(o.Apps, appRef{T: "auth", ID: abs.Ints(a.Payload)})
			}
		case 259:
			if len(a.Payload) == 4 {
				o.Apps = append(o.Apps, appRef{T: "acct", ID: abs.Ints(a.Payload)})
			}
		case 260:
			inner, _ := splitAVPs(a.Payload)
			for _, in := range inner {
				if in.Code == 258 && len(in.Payload) == 4 {
					o.Apps = append(o.Apps, appRef{T: "auth", ID: abs.Ints(in.Payload)})
				}
				if in.Code == 259 && len(in.Payload) == 4 {
					o.Apps = append(o.Apps, appRef{T: "acct", ID: abs.Ints(in.Payload)})
				}
			}
		}
	}
	return o
}

type cerVariant struct {
	Local      string
	Configured []net.IP
	Deprecated net.IP // Settings.HostIPAddress (deprecated, single): used only when the list is empty
	Note       string
	Dual       bool // the server's dictionary defines application 777 twice: as auth and as acct
	WFail      bool // the transport refuses every write
	// Warm: the state machine has already accepted a CER (sharing the S6a application only) on another
	// connection, whose local endpoint is WarmLocal
	Warm      bool
	WarmLocal string
}

const dualXML1 = `<?xml version="1.0" encoding="UTF-8"?><diameter><application id="777" type="auth" name="Dual-Auth"></application></diameter>`

// an accounting application that names a vendor: advertised inside Vendor-Specific-Application-Id, as accounting
const vacctXML = `<?xml version="1.0" encoding="UTF-8"?><diameter><application id="778" type="acct" name="Vendor-Acct"><vendor id="10415" name="TGPP"/></application></diameter>`
const dualXML2 = `<?xml version="1.0" encoding="UTF-8"?><diameter><application id="777" type="acct" name="Dual-Acct"></application></diameter>`

var dualParser *dict.Parser

func getDualParser(repo string) *dict.Parser {
	if dualParser == nil {
		xs, err := abs.DefaultXML(repo)
		if err != nil {
			panic(err)
		}
		p, _ := dict.NewParser()
		order, _ := abs.DefaultLoadOrder(repo)
		for _, n := range order {
			if err := p.Load(strings.NewReader(xs[n])); err != nil {
				panic(err)
			}
		}
		p.Load(strings.NewReader(dualXML1))
		p.Load(strings.NewReader(dualXML2))
		dualParser = p
	}
	return dualParser
}

func runCER(id int, c *cerSpec, v cerVariant, dapps []appRef, repo string) cerLine {
	c.Items = fixItems(c.Items)
	set := &sm.Settings{OriginHost: srvSettings.OriginHost, OriginRealm: srvSettings.OriginRealm, VendorID: 13, ProductName: "verif-srv"}
	cs := cerSettings{OH: string(set.OriginHost), OR: string(set.OriginRealm), HostIPs: [][]int{}, LocalIPs: [][]int{}, Local: v.Local, CanAnswer: !v.WFail}
	for _, ip := range v.Configured {
		set.HostIPAddresses = append(set.HostIPAddresses, datatype.Address(ip))
		cs.HostIPs = append(cs.HostIPs, addrInts(ip))
	}
	if v.Deprecated != nil {
		set.HostIPAddress = datatype.Address(v.Deprecated)
		if len(v.Configured) == 0 {
			cs.HostIPs = append(cs.HostIPs, addrInts(v.Deprecated))
		}
	}
	if host, _, err := net.SplitHostPort(v.Local); err == nil {
		if ip := net.ParseIP(host); ip != nil {
			cs.LocalIPs = append(cs.LocalIPs, addrInts(ip))
		}
	}
	if len(cs.LocalIPs) == 0 && len(cs.HostIPs) == 0 {
		cs.CanAnswer = false
	}
	l := cerLine{Ev: "cer", ID: id, Cer: *c, DictApps: dapps, Settings: cs, Peer: peerID{OH: peerHost, OR: peerRealm}, Note: v.Note,
		Obs: cerObs{CEA: ceaObs{HostIPs: [][]int{}, HbH: []int{}, E2E: []int{}, Apps: []appRef{}}, Meta: metaObs{Apps: [][]int{}}}}
	switch c.OH {
	case "empty", "absent":
		l.Peer.OH = ""
	}
	first := v.Local
	if v.Warm {
		first = v.WarmLocal
	}
	s := newSMServer(set, first, func(s *smServer) { s.SM.HandleFunc("ALL", s.record("ALL")) })
	defer s.shutdown()
	if v.Warm {
		w := &cerSpec{OH: "present", OR: "present", Inband: "absent", HbH: abs.B4(1), E2E: abs.B4(1),
			Items: []appItem{{T: "vsa", ID: []int{0, 0, 0, 0}, VPos: "first", Inner: []appItem{{T: "auth", ID: abs.B4(16777251), Inner: []appItem{}}}}}}
		s.Conn.Feed(buildCER(w, dict.Default))
		s.Conn.WaitOut(20, 3*time.Second)
		s.Conn.WaitReaderBlocked(2 * time.Second)
		if msgs, _ := splitMsgs(s.Conn.Out()); len(msgs) != 1 || parseCEA(&msgs[0]).RC != 2001 {
			l.Note += " warm-up CER not accepted"
		}
		warm := s.Conn
		s.Conn = s.addConn(v.Local)
		s.extra = append(s.extra, warm)
	}
	if v.WFail {
		s.Conn.OnWrite = func(int, []byte) memnet.WriteOutcome {
			return memnet.WriteOutcome{N: 0, Err: &memnet.NetErr{Msg: "scripted write failure"}}
		}
	}
	s.Conn.Feed(buildCER(c, dict.Default))
	if !cs.CanAnswer {
		// no answer can arrive: the outcome is definite once the handler has returned (the reader
		// is parked again) or the transport is closed
		s.Conn.WaitReaderBlocked(3 * time.Second)
		l.Obs.Closed = s.Conn.Closed()
		if msgs, _ := splitMsgs(s.Conn.Out()); len(msgs) > 0 {
			l.Obs.CEA = parseCEA(&msgs[0])
		}
		if !l.Obs.Closed {
			s.Conn.OnWrite = nil
			s.Conn.Feed(appMsg(272, 4, true, 99))
			s.Conn.WaitReaderBlocked(2 * time.Second)
			if f := s.fired(); len(f) > 0 && f[0].Meta {
				l.Obs.Meta.Present = true
			}
			l.Obs.Closed = s.Conn.Closed()
		}
		return l
	}
	// wait for one complete answer (or the connection being closed without one)
	deadline := time.Now().Add(5 * time.Second)
	var msgs []wireMsg
	for time.Now().Before(deadline) {
		msgs, _ = splitMsgs(s.Conn.Out())
		if len(msgs) > 0 {
			break
		}
		if s.Conn.Closed() {
			msgs, _ = splitMsgs(s.Conn.Out())
			break
		}
		s.Conn.WaitOut(len(s.Conn.Out())+1, 20*time.Millisecond)
	}
	if len(msgs) == 0 {
		l.Obs.Closed = s.Conn.Closed()
		return l
	}
	l.Obs.CEA = parseCEA(&msgs[0])
	if l.Obs.CEA.RC == 2001 {
		s.Conn.WaitReaderBlocked(2 * time.Second)
		s.Conn.Feed(appMsg(272, 4, true, 99))
		if s.waitFired(1, 3*time.Second) {
			f := s.fired()[0]
			if f.Meta {
				l.Obs.Meta = metaObs{Present: true, OH: f.OH, OR: f.OR, Apps: [][]int{}}
				for _, a := range f.Apps {
					l.Obs.Meta.Apps = append(l.Obs.Meta.Apps, abs.B4(a))
				}
			}
		}
		l.Obs.Closed = s.Conn.Closed()
	} else {
		// Close, if any, happens in the handler before it returns: once the reader is parked
		// again (or the transport is closed) the outcome is definite - no grace period needed
		s.Conn.WaitReaderBlocked(3 * time.Second)
		l.Obs.Closed = s.Conn.Closed()
		if len(s.fired()) > 0 && s.fired()[0].Meta {
			l.Obs.Meta.Present = true
		}
	}
	return l
}

func CER(a Args) error {
	out, err := NewOut(a.Out)
	if err != nil {
		return err
	}
	defer out.Close()
	dapps, err := dictApps(a.Repo)
	if err != nil {
		return err
	}
	// a further dictionary pair loaded on top of the embedded ones defines application 777
	// twice, as auth and as acct (the state machine advertises from dict.Default, so the
	// default dictionary itself is extended, in this process only)
	// ... after a first state machine has been created: what a state machine supports is what the
	// dictionary holds when it is created, not when the process created its first one
	_ = sm.New(&sm.Settings{OriginHost: srvSettings.OriginHost, OriginRealm: srvSettings.OriginRealm, VendorID: 13, ProductName: "verif-early"})
	if err := dict.Default.Load(strings.NewReader(dualXML1)); err != nil {
		return err
	}
	if err := dict.Default.Load(strings.NewReader(dualXML2)); err != nil {
		return err
	}
	if err := dict.Default.Load(strings.NewReader(vacctXML)); err != nil {
		return err
	}
	dapps = append(dapps, appRef{T: "auth", ID: abs.B4(777)}, appRef{T: "acct", ID: abs.B4(777)}, appRef{T: "acct", ID: abs.B4(778)})
	both := cerVariant{Local: "10.0.0.1:3868", Configured: []net.IP{net.ParseIP("10.1.1.1"), net.ParseIP("2001:db8::5")}, Deprecated: net.ParseIP("192.0.2.99"), Note: "configured+deprecated"}
	deponly := cerVariant{Local: "10.0.0.1:3868", Deprecated: net.ParseIP("192.0.2.99"), Note: "deprecated-only"}
	base := cerVariant{Local: "10.0.0.1:3868", Note: "derived-ipv4"}
	noaddr := cerVariant{Local: "pipe", Note: "no-address"}
	wfail := cerVariant{Local: "10.0.0.1:3868", WFail: true, Note: "write-fails"}
	warm := cerVariant{Local: "[2001:db8::7]:3868", Warm: true, WarmLocal: "10.1.2.3:3868", Note: "second-connection"}
	id := 0
	if a.Cases != "" {
		err = ReadLines(a.Cases, func(line []byte) error {
			var c cerSpec
			if err := json.Unmarshal(line, &c); err != nil {
				return err
			}
			id++
			out.Emit(runCER(id, &c, base, dapps, a.Repo))
			switch id % 8 { // the same CER when no CEA can reach the peer
			case 0:
				out.Emit(runCER(id, &c, noaddr, dapps, a.Repo))
			case 4:
				out.Emit(runCER(id, &c, wfail, dapps, a.Repo))
			case 2, 6: // the same CER on a state machine that has already served another connection
				out.Emit(runCER(id, &c, warm, dapps, a.Repo))
			case 1: // the list and the deprecated single address both configured: the list is what a CEA carries
				if id%16 == 1 {
					out.Emit(runCER(id, &c, both, dapps, a.Repo))
				} else {
					out.Emit(runCER(id, &c, deponly, dapps, a.Repo))
				}
			case 5, 7: // the same CER with its application AVPs not marked mandatory
				c2 := c
				c2.NoM = true
				l := runCER(id, &c2, base, dapps, a.Repo)
				l.Note = "no-m-bit"
				out.Emit(l)
			case 3: // the same CER on a connection accepted from a TLS listener
				if id%16 == 3 || c.Inband == "nonzero" {
					out.Emit(runCERTLS(id, &c, dapps))
				}
			}
			return nil
		})
		if err != nil {
			return err
		}
	}
	r := rand.New(rand.NewSource(a.Seed))
	variants := []cerVariant{
		base,
		{Local: "10.0.0.1:3868", Configured: []net.IP{net.ParseIP("10.1.1.1"), net.ParseIP("2001:db8::5")}, Note: "configured"},
		{Local: "[2001:db8::1]:3868", Note: "derived-ipv6"},
		{Local: "127.0.0.1:3868", Note: "derived-loopback"},
		{Local: "[2001:db8::1]:3868", Configured: []net.IP{net.ParseIP("192.0.2.7")}, Note: "configured-ipv6-endpoint"},
		noaddr, wfail, warm, both, deponly,
	}
	ids := [][]int{abs.B4(778), abs.B4(778), abs.B4(4), abs.B4(3), abs.B4(12345), abs.B4(1), abs.B4(16777251), abs.B4(0xffffffff), abs.B4(16777238), abs.B4(77), abs.B4(777), abs.B4(777)}
	randItem := func() appItem {
		mk := func() appItem {
			return appItem{T: []string{"acct", "auth"}[r.Intn(2)], ID: ids[r.Intn(len(ids))], Inner: []appItem{}}
		}
		if r.Intn(3) == 0 {
			v := appItem{T: "vsa", ID: []int{0, 0, 0, 0}, VPos: []string{"first", "last", "absent"}[r.Intn(3)], Inner: []appItem{}}
			for k := r.Intn(3); k > 0; k-- {
				v.Inner = append(v.Inner, mk())
			}
			return v
		}
		return mk()
	}
	for i := 0; i < a.N; i++ {
		c := cerSpec{OH: "present", OR: "present", Inband: []string{"absent", "zero", "zero", "nonzero"}[r.Intn(4)], HbH: abs.B4(r.Uint32()), E2E: abs.B4(r.Uint32()), Items: []appItem{}}
		if r.Intn(10) == 0 {
			c.OH = []string{"absent", "empty"}[r.Intn(2)]
		}
		if r.Intn(10) == 0 {
			c.OR = []string{"absent", "empty"}[r.Intn(2)]
		}
		for k := r.Intn(13); k > 0; k-- {
			c.Items = append(c.Items, randItem())
		}
		id++
		out.Emit(runCER(id, &c, variants[r.Intn(len(variants))], dapps, a.Repo))
	}
	return nil
}

// runCERTLS: the same CER on a connection accepted from a TLS listener (tls.NewListener over an in-memory pipe).
// Transport security does not change what a CER must satisfy: in particular a CER that requires in-band
// security is refused there as anywhere else.
func runCERTLS(id int, c *cerSpec, dapps []appRef) cerLine {
	c.Items = fixItems(c.Items)
	set := &sm.Settings{OriginHost: srvSettings.OriginHost, OriginRealm: srvSettings.OriginRealm, VendorID: 13, ProductName: "verif-srv"}
	cs := cerSettings{OH: string(set.OriginHost), OR: string(set.OriginRealm), HostIPs: [][]int{}, LocalIPs: [][]int{addrInts(net.ParseIP("10.0.0.1"))}, Local: "10.0.0.1:3868", CanAnswer: true}
	l := cerLine{Ev: "cer", ID: id, Cer: *c, DictApps: dapps, Settings: cs, Peer: peerID{OH: peerHost, OR: peerRealm}, Note: "tls",
		Obs: cerObs{CEA: ceaObs{HostIPs: [][]int{}, HbH: []int{}, E2E: []int{}, Apps: []appRef{}}, Meta: metaObs{Apps: [][]int{}}}}
	switch c.OH {
	case "empty", "absent":
		l.Peer.OH = ""
	}
	cert, err := selfSigned()
	if err != nil {
		l.Note = "tls: no certificate: " + err.Error()
		return l
	}
	s := &smServer{SM: sm.New(set), Conn: memnet.NewConn(), ch: make(chan struct{}, 64), stop: make(chan struct{})}
	s.SM.HandleFunc("ALL", s.record("ALL"))
	go func() {
		for {
			select {
			case <-s.SM.ErrorReports():
			case <-s.stop:
				return
			}
		}
	}()
	defer close(s.stop)
	pl := newPipeListener()
	defer pl.Close()
	go (&diam.Server{Handler: s.SM}).Serve(tls.NewListener(pl, &tls.Config{Certificates: []tls.Certificate{cert}}))
	srvEnd, cliEnd := net.Pipe()
	defer cliEnd.Close()
	pl.ch <- addrConn{srvEnd}
	tc := tls.Client(cliEnd, &tls.Config{InsecureSkipVerify: true})
	tc.SetDeadline(time.Now().Add(3 * time.Second))
	if err := tc.Handshake(); err != nil {
		l.Note = "tls: handshake: " + err.Error()
		return l
	}
	readOne := func(d time.Duration) (*wireMsg, bool) { // (message, stream ended)
		tc.SetReadDeadline(time.Now().Add(d))
		hdr := make([]byte, 20)
		if _, err := io.ReadFull(tc, hdr); err != nil {
			ne, isNet := err.(net.Error)
			return nil, !(isNet && ne.Timeout())
		}
		n := int(hdr[1])<<16 | int(hdr[2])<<8 | int(hdr[3])
		if n < 20 {
			return nil, false
		}
		rest := make([]byte, n-20)
		if _, err := io.ReadFull(tc, rest); err != nil {
			return nil, true
		}
		if ms, _ := splitMsgs(append(hdr, rest...)); len(ms) == 1 {
			return &ms[0], false
		}
		return nil, false
	}
	tc.SetWriteDeadline(time.Now().Add(3 * time.Second))
	if _, err := tc.Write(buildCER(c, dict.Default)); err != nil {
		l.Note = "tls: write: " + err.Error()
		return l
	}
	m, ended := readOne(3 * time.Second)
	if m == nil {
		l.Obs.Closed = ended
		return l
	}
	l.Obs.CEA = parseCEA(m)
	if l.Obs.CEA.RC == 2001 {
		tc.SetWriteDeadline(time.Now().Add(3 * time.Second))
		tc.Write(appMsg(272, 4, true, 99))
		if s.waitFired(1, 3*time.Second) {
			f := s.fired()[0]
			if f.Meta {
				l.Obs.Meta = metaObs{Present: true, OH: f.OH, OR: f.OR, Apps: [][]int{}}
				for _, a := range f.Apps {
					l.Obs.Meta.Apps = append(l.Obs.Meta.Apps, abs.B4(a))
				}
			}
		}
		_, ended = readOne(8 * time.Millisecond)
		l.Obs.Closed = ended
	} else {
		_, ended = readOne(2 * time.Second) // the refusal is followed by the end of the stream
		l.Obs.Closed = ended
		if len(s.fired()) > 0 && s.fired()[0].Meta {
			l.Obs.Meta.Present = true
		}
	}
	return l
}
