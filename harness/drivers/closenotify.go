package drivers

import (
	"crypto/tls"
	"encoding/json"
	"io"
	"net"
	"reflect"
	"runtime"
	"strings"
	"sync"
	"time"
	"verifharness/sctpmem"

	"verifharness/memnet"

	"github.com/fiorix/go-diameter/v4/diam"
	"github.com/fiorix/go-diameter/v4/diam/avp"
	"github.com/fiorix/go-diameter/v4/diam/datatype"
	"github.com/fiorix/go-diameter/v4/diam/dict"
	"github.com/fiorix/go-diameter/v4/diam/sm"
)

// CloseNotify driver (C14): replays schedules of {CloseNotify requests, deliveries in
// fragments, undecodable input, peer EOF, read error, local Close} on a real connection
// over memnet, stepping only when the previous step's effects are quiescent, and records
// the state of every channel obtained, the messages handed to handlers and the library
// goroutines left over. spec/ConnTrace.tla decides.

type cnStep struct {
	Chans     []bool `json:"chans"` // closed?
	Delivered int    `json:"delivered"`
	Panic     bool   `json:"panic"`
	TClosed   bool   `json:"tclosed"` // the library has closed the transport
	Hung      bool   `json:"hung"`    // a CloseNotify call did not return within 2 s
	Held      []bool `json:"held"`    // "heof" only: the channels' state while the handler was still running
}
type cnCase struct {
	Sched []string `json:"sched"`
	Via   string   `json:"via"` // set when a recorded scenario is re-run: the same kind of connection
}

func installHook() {
	diam.SetVerifHook(func(point string, obj interface{}, args ...interface{}) {
		l := logFor(obj)
		if l == nil {
			return
		}
		if point == "finish.sr" {
			// scheduler gate, not an event of the model: finish() holds the reader's lock and has not
			// notified yet; whoever waits for the signal makes its request now
			if l.exitCh != nil {
				select {
				case l.exitCh <- struct{}{}:
				default:
				}
				time.Sleep(300 * time.Microsecond)
			}
			return
		}
		ev := cnEvent{Ev: point}
		if point == "cn.create" && len(args) > 0 {
			ev.Gone, _ = args[0].(bool)
		}
		l.add(ev)
	})
}

type cnLine struct {
	Events     []cnEvent `json:"events"`
	Conform    bool      `json:"conform"`
	Ev         string    `json:"ev"`
	ID         int       `json:"id"`
	Via        string    `json:"via"`
	Sched      []string  `json:"sched"`
	Steps      []cnStep  `json:"steps"`
	InOrder    bool      `json:"inorder"`
	Goroutines int       `json:"goroutines"`
	Dump       string    `json:"dump"`
	Note       string    `json:"note"`
}

// diamGoroutines counts goroutines (other than the caller) that have a go-diameter frame.
func diamGoroutines() (int, string) {
	buf := make([]byte, 1<<20)
	buf = buf[:runtime.Stack(buf, true)]
	blocks := strings.Split(string(buf), "\n\n")
	n := 0
	var dump []string
	for i, b := range blocks {
		if i == 0 {
			continue // the calling goroutine
		}
		if strings.Contains(b, "go-diameter/v4/diam") {
			n++
			lines := strings.Split(b, "\n")
			keep := []string{}
			for _, ln := range lines {
				if strings.Contains(ln, "go-diameter/v4/diam") && !strings.HasPrefix(ln, "\t") {
					keep = append(keep, strings.TrimSpace(ln))
				}
			}
			dump = append(dump, strings.Join(keep, " <- "))
		}
	}
	return n, strings.Join(dump, " | ")
}

func isClosed(ch <-chan struct{}) bool {
	select {
	case <-ch:
		return true
	default:
		return false
	}
}

// bits of the End-to-End id that script the handler: 0xC0000000 request CloseNotify,
// 0x20000000 then panic, 0x10000000 block until the test releases it
const (
	cnAsk   = 0xC0000000
	cnPanic = 0x20000000
	cnHold  = 0x10000000
	cnWrite = 0x08000000 // answer the request (with retries)
)

func cnGoodX(id uint32, bits uint32) []byte {
	h := diam.Header{Version: 1, MessageLength: 20, CommandFlags: 0x80, CommandCode: 272, ApplicationID: 4, HopByHopID: id, EndToEndID: bits | id}
	return h.Serialize()
}

func cnGood(id uint32, askCN bool) []byte {
	e2e := id
	if askCN {
		e2e = 0xC0000000 | id
	}
	h := diam.Header{Version: 1, MessageLength: 20, CommandFlags: 0x80, CommandCode: 272, ApplicationID: 4, HopByHopID: id, EndToEndID: e2e}
	return h.Serialize()
}

func cnBad() []byte {
	h := diam.Header{Version: 1, MessageLength: 20, CommandFlags: 0x80, CommandCode: 0xABCDEF, ApplicationID: 4, HopByHopID: 0xEEEE, EndToEndID: 0xEEEE}
	return h.Serialize()
}

// cnExpired counts bounded waits of this process that ran into their deadline (a message that never reached its
// handler): each costs seconds, and a library under which that keeps happening has been found wanting many times
// over, so after a number of them the remaining schedules are not run
var cnExpired int

var undrainedMux *diam.ServeMux

// lateGate: the first request after a termination is made while finish() still holds the reader lock
// (true) or well after the exit path has completed (false)
var lateGate = true

func runCN(id int, c *cnCase, via string) cnLine {
	l := cnLine{Ev: "cn", ID: id, Via: via, Sched: c.Sched, Steps: []cnStep{}, InOrder: true, Events: []cnEvent{}, Conform: true}
	lg := &evlog{exitCh: make(chan struct{}, 1)}
	curLog.Store(lg)
	defer curLog.Store((*evlog)(nil))
	for _, ev := range c.Sched {
		if ev == "mm" || ev == "m1" || ev == "m2" || ev == "xbig" || ev == "eofd" || ev == "heofd" {
			l.Conform = false // the model's chunks are whole messages, and data never comes with the end of the stream
		}

	}
	base, _ := diamGoroutines()
	mc := memnet.NewConn()
	logsByConn.Store(reflect.ValueOf(mc).Pointer(), lg)
	defer logsByConn.Delete(reflect.ValueOf(mc).Pointer())
	var mu sync.Mutex
	var chans []<-chan struct{}
	var delivered []uint32
	handled := 0 // handlers that have returned (a step is over when its handlers are, not when they start)
	panicked := false
	mux := diam.NewServeMux()
	stop := make(chan struct{})
	if via == "client+undrained" {
		// an application that never reads ErrorReports(): one mux for all scenarios of this kind, so that its
		// report slot is occupied from the first undecodable message on; terminations are signalled all the same
		if undrainedMux == nil {
			undrainedMux = diam.NewServeMux()
		}
		mux = undrainedMux
		l.Conform = false
	} else {
		go func() {
			for {
				select {
				case <-mux.ErrorReports():
				case <-stop:
					return
				}
			}
		}()
	}
	var dconn diam.Conn
	holding := make(chan struct{}, 4)
	release := make(chan struct{})
	gotConn := make(chan struct{}, 1)
	mux.HandleFunc("ALL", func(dc diam.Conn, m *diam.Message) {
		defer func() {
			mu.Lock()
			handled++
			mu.Unlock()
		}()
		mu.Lock()
		if dconn == nil {
			dconn = dc
			select {
			case gotConn <- struct{}{}:
			default:
			}
		}
		delivered = append(delivered, m.Header.HopByHopID)
		mu.Unlock()
		if m.Header.EndToEndID&0xC0000000 == 0xC0000000 {
			lg.add(cnEvent{Ev: "cnreq"})
			ch := dc.(diam.CloseNotifier).CloseNotify()
			mu.Lock()
			chans = append(chans, ch)
			mu.Unlock()
		}
		if m.Header.EndToEndID&cnWrite != 0 {
			m.Answer(2001).WriteToWithRetry(dc, 2)
		}
		if m.Header.EndToEndID&cnHold != 0 {
			holding <- struct{}{}
			<-release
		}
		if m.Header.EndToEndID&cnPanic != 0 {
			panic("scripted handler panic")
		}
	})
	var ln *memnet.Listener
	if via == "server" || via == "server+timeout" {
		ln = memnet.NewListener()
		srv := &diam.Server{Handler: mux, Dict: dict.Default}
		if via == "server+timeout" {
			srv.ReadTimeout = 300 * time.Millisecond
			l.Conform = false // read deadlines are not in the model
		}
		go srv.Serve(ln)
		ln.Push(mc)
	} else {
		dc, err := diam.NewConn(mc, "10.0.0.2:3868", mux, dict.Default)
		if err != nil {
			l.Note = err.Error()
			close(stop)
			return l
		}
		dconn = dc
	}
	exitSeen := false
	nextID := uint32(0)
	wantDel := 0
	term := false
	waitDelivered := func(n int) {
		deadline := time.Now().Add(3 * time.Second)
		for time.Now().Before(deadline) {
			mu.Lock()
			k := handled
			mu.Unlock()
			if k >= n || mc.Closed() {
				return
			}
			time.Sleep(200 * time.Microsecond)
		}
		cnExpired++
	}
	hung := false
	request := func() {
		mu.Lock()
		dc := dconn
		mu.Unlock()
		if dc == nil {
			return
		}
		lg.add(cnEvent{Ev: "cnreq"})
		done := make(chan (<-chan struct{}), 1)
		go func() {
			defer func() {
				if r := recover(); r != nil {
					mu.Lock()
					panicked = true
					mu.Unlock()
					done <- nil
				}
			}()
			done <- dc.(diam.CloseNotifier).CloseNotify()
		}()
		select {
		case ch := <-done:
			if ch != nil {
				mu.Lock()
				chans = append(chans, ch)
				mu.Unlock()
			}
		case <-time.After(2 * time.Second):
			hung = true // the call did not return (a deadlock inside the library)
		}
	}
	var half []byte
	for _, ev := range c.Sched {
		switch ev {
		case "m", "mh":
			if !term {
				nextID++
				lg.add(cnEvent{Ev: "feed", K: "m"})
				mc.Feed(cnGood(nextID, ev == "mh"))
				wantDel++
				waitDelivered(wantDel)
				mc.WaitReaderBlocked(2 * time.Second)
			}
		case "mw": // a good message whose handler answers; the transport refuses the first write attempt temporarily
			if !term {
				nextID++
				nw := 0
				mc.OnWrite = func(k int, b []byte) memnet.WriteOutcome {
					nw++
					if nw == 1 {
						return memnet.WriteOutcome{N: 0, Err: &memnet.NetErr{Msg: "scripted temporary write error", Temp: true}}
					}
					return memnet.WriteOutcome{N: -1}
				}
				lg.add(cnEvent{Ev: "feed", K: "m"})
				mc.Feed(cnGoodX(nextID, cnWrite))
				wantDel++
				waitDelivered(wantDel)
				mc.WaitReaderBlocked(2 * time.Second)
				mc.OnWrite = nil
			}
		case "mm":
			if !term {
				b := append(cnGood(nextID+1, true), cnGood(nextID+2, false)...)
				nextID += 2
				mc.Feed(b)
				wantDel += 2
				waitDelivered(wantDel)
				mc.WaitReaderBlocked(2 * time.Second)
			}
		case "m1":
			nextID++
			b := cnGood(nextID, false)
			half = b[9:]
			mc.Feed(b[:9])
			mc.WaitReaderBlocked(2 * time.Second)
		case "m2":
			mc.Feed(half)
			wantDel++
			waitDelivered(wantDel)
			mc.WaitReaderBlocked(2 * time.Second)
		case "cn":
			if !term {
				mc.WaitReaderBlocked(2 * time.Second)
			} else if !exitSeen {
				// the first request after a termination is made while the serve loop is in its exit path
				select {
				case <-lg.exitCh:
				case <-time.After(20 * time.Millisecond):
				}
				if !lateGate {
					time.Sleep(2 * time.Millisecond) // the exit path (a few microseconds after the gate) is over
				}
				exitSeen = true
			}
			if via == "server" || via == "server+timeout" {
				mu.Lock()
				have := dconn != nil
				mu.Unlock()
				if !have {
					l.Note = "no conn for cn"
				}
			}
			request()
		case "mp", "mhp": // a good message whose handler panics (mhp: after requesting CloseNotify)
			nextID++
			bits := uint32(cnPanic)
			if ev == "mhp" {
				bits |= cnAsk
			}
			lg.add(cnEvent{Ev: "feed", K: "p"})
			mc.Feed(cnGoodX(nextID, bits))
			mc.WaitClosed(3 * time.Second)
			term = true
		case "heof", "heofd": // the peer disconnects while a handler is running (heofd: with one more message behind)
			nextID++
			lg.add(cnEvent{Ev: "feed", K: "m"})
			if ev == "heofd" {
				nextID++
				mc.Feed(append(cnGoodX(nextID-1, cnHold), cnGood(nextID, false)...))
			} else {
				mc.Feed(cnGoodX(nextID, cnHold))
			}
			select {
			case <-holding:
			case <-time.After(3 * time.Second):
			}
			lg.add(cnEvent{Ev: "end", How: "eof"})
			mc.FeedErr(io.EOF)
			term = true
			defer func() {
				select {
				case <-release:
				default:
					close(release)
				}
			}()
		case "x":
			lg.add(cnEvent{Ev: "feed", K: "x"})
			mc.Feed(cnBad())
			mc.WaitClosed(3 * time.Second)
			term = true
		case "xt":
			lg.add(cnEvent{Ev: "feed", K: "x"})
			mc.Feed(cnBad())
			lg.add(cnEvent{Ev: "feed", K: "m"})
			mc.Feed(cnGood(nextID+1, false)) // trailing data in a separate fragment, must never be delivered
			mc.WaitClosed(3 * time.Second)
			term = true
		case "xbig":
			// one fragment: an undecodable header and more trailing bytes than the 4 KiB read buffer holds
			b := cnBad()
			for i := 0; i < 400; i++ {
				b = append(b, cnGood(nextID+1, false)...)
			}
			mc.Feed(b)
			mc.WaitClosed(3 * time.Second)
			term = true
		case "idle": // nothing is sent for longer than the server's ReadTimeout: the connection is given up
			mc.WaitClosed(1500 * time.Millisecond)
			term = true
		case "eofd": // the last message arrives in the same Read call as the peer's close
			nextID++
			wantDel++
			lg.add(cnEvent{Ev: "feed", K: "m"})
			lg.add(cnEvent{Ev: "end", How: "eof"})
			mc.FeedLastWithErr(cnGood(nextID, false), io.EOF)
			mc.WaitClosed(3 * time.Second)
			term = true
		case "eof":
			lg.add(cnEvent{Ev: "end", How: "eof"})
			mc.FeedErr(io.EOF)
			mc.WaitClosed(3 * time.Second)
			term = true
		case "rerr":
			lg.add(cnEvent{Ev: "end", How: "err"})
			mc.FeedErr(&memnet.NetErr{Msg: "scripted read error"})
			mc.WaitClosed(3 * time.Second)
			term = true
		case "lclosew": // local Close while another goroutine is blocked in a Write (the peer stopped reading)
			mu.Lock()
			dc := dconn
			mu.Unlock()
			if dc == nil {
				mc.Close()
				term = true
				break
			}
			inWrite := make(chan struct{}, 1)
			mc.OnWrite = func(k int, b []byte) memnet.WriteOutcome {
				select {
				case inWrite <- struct{}{}:
				default:
				}
				mc.WaitClosed(5 * time.Second) // accepts nothing until the transport is closed under it
				return memnet.WriteOutcome{N: 0, Err: memnet.ErrClosed}
			}
			go func() {
				defer func() { recover() }()
				diam.NewMessage(272, 0x80, 4, 77, 77, dict.Default).WriteTo(dc)
			}()
			select {
			case <-inWrite:
			case <-time.After(2 * time.Second):
			}
			lg.add(cnEvent{Ev: "lclose"})
			closed := make(chan struct{})
			go func() {
				dc.Close()
				close(closed)
			}()
			select {
			case <-closed:
			case <-time.After(2 * time.Second):
				hung = true // Close did not return
			}
			mc.WaitClosed(time.Second)
			if !mc.Closed() {
				mc.Close() // release the blocked writer
			}
			term = true
		case "lclose":
			mu.Lock()
			dc := dconn
			mu.Unlock()
			lg.add(cnEvent{Ev: "lclose"})
			if dc != nil {
				dc.Close()
			} else {
				mc.Close()
			}
			mc.WaitClosed(3 * time.Second)
			term = true
		}
		var held []bool
		if ev == "heof" || ev == "heofd" {
			// while the handler is still running: if the reader has switched to the pipe the copier sees
			// the peer's close and the channels fire now (bounded wait); then the handler is released
			deadline := time.Now().Add(300 * time.Millisecond)
			for time.Now().Before(deadline) {
				mu.Lock()
				all := true
				for _, ch := range chans {
					if !isClosed(ch) {
						all = false
					}
				}
				mu.Unlock()
				if all {
					break
				}
				time.Sleep(500 * time.Microsecond)
			}
			mu.Lock()
			held = []bool{}
			for _, ch := range chans {
				held = append(held, isClosed(ch))
			}
			mu.Unlock()
			close(release)
			mc.WaitClosed(3 * time.Second)
		}
		if term {
			// positive deadline: every channel obtained so far should close promptly
			deadline := time.Now().Add(600 * time.Millisecond)
			closedAll := false
			for time.Now().Before(deadline) {
				mu.Lock()
				all := true
				for _, ch := range chans {
					if !isClosed(ch) {
						all = false
					}
				}
				mu.Unlock()
				if all {
					closedAll = true
					break
				}
				time.Sleep(500 * time.Microsecond)
			}
			if !closedAll {
				cnExpired++
			}
		}
		mu.Lock()
		st := cnStep{Chans: []bool{}, Delivered: len(delivered), Panic: panicked, Held: []bool{}, Hung: hung, TClosed: mc.Closed()}
		if held != nil {
			st.Held = held
		}
		for _, ch := range chans {
			st.Chans = append(st.Chans, isClosed(ch))
		}
		mu.Unlock()
		l.Steps = append(l.Steps, st)
	}
	if ln != nil {
		ln.Close()
	}
	close(stop)
	if !mc.Closed() {
		mc.Close()
	}
	// leftover library goroutines (quiescence: poll until none or the deadline)
	deadline := time.Now().Add(600 * time.Millisecond)
	for {
		n, dump := diamGoroutines()
		l.Goroutines, l.Dump = n-base, dump
		if l.Goroutines <= 0 || time.Now().After(deadline) {
			break
		}
		time.Sleep(time.Millisecond)
	}
	if l.Goroutines < 0 {
		l.Goroutines = 0
	}
	lg.mu.Lock()
	l.Events = append(l.Events, lg.evs...)
	lg.mu.Unlock()
	if l.Goroutines == 0 {
		l.Dump = ""
	}
	mu.Lock()
	for i, h := range delivered {
		if h != uint32(i+1) {
			l.InOrder = false
		}
	}
	mu.Unlock()
	return l
}

// watchdog goroutine exit: a client with the watchdog enabled, terminated in each way
func runCNWatchdog(id int, how string) cnLine {
	l := cnLine{Ev: "cn", ID: id, Via: "client+watchdog", Sched: []string{"cn", how}, Steps: []cnStep{}, InOrder: true}
	base, _ := diamGoroutines()
	set := *cliSettings
	mach := sm.New(&set)
	stop := make(chan struct{})
	go func() {
		for {
			select {
			case <-mach.ErrorReports():
			case <-stop:
				return
			}
		}
	}()
	cli := &sm.Client{Handler: mach, MaxRetransmits: 1, RetransmitInterval: 30 * time.Millisecond, EnableWatchdog: true, WatchdogInterval: 40 * time.Millisecond,
		AuthApplicationID: []*diam.AVP{diam.NewAVP(avp.AuthApplicationID, avp.Mbit, 0, datatype.Unsigned32(4))}}
	mc := memnet.NewConn()
	mc.OnWrite = func(k int, b []byte) memnet.WriteOutcome {
		msgs, _ := splitMsgs(b)
		for _, m := range msgs {
			if m.Cmd == 257 && m.Flags&0x80 != 0 {
				cea := ceaFor("ok", &m)
				go mc.Feed(cea)
			}
			if m.Cmd == 280 && m.Flags&0x80 != 0 {
				dwa := buildDWA(m.HbH, m.E2E, 2001)
				go mc.Feed(dwa)
			}
		}
		return memnet.WriteOutcome{N: -1}
	}
	c, err := cli.NewConn(mc, "10.0.0.2:3868")
	if err != nil {
		l.Note = "handshake: " + err.Error()
		close(stop)
		return l
	}
	// the watchdog goroutine has requested CloseNotify; the harness takes the same channel
	ch := c.(diam.CloseNotifier).CloseNotify()
	time.Sleep(60 * time.Millisecond) // let one watchdog round pass
	l.Steps = append(l.Steps, cnStep{Chans: []bool{isClosed(ch)}, Delivered: 0, Held: []bool{}})
	switch how {
	case "eof":
		mc.FeedErr(io.EOF)
	case "rerr":
		mc.FeedErr(&memnet.NetErr{Msg: "scripted read error"})
	case "lclose":
		c.Close()
	case "x":
		mc.Feed(cnBad())
	}
	mc.WaitClosed(3 * time.Second)
	deadline := time.Now().Add(600 * time.Millisecond)
	for time.Now().Before(deadline) && !isClosed(ch) {
		time.Sleep(time.Millisecond)
	}
	l.Steps = append(l.Steps, cnStep{Chans: []bool{isClosed(ch)}, Delivered: 0, Held: []bool{}})
	close(stop)
	deadline = time.Now().Add(800 * time.Millisecond)
	for {
		n, dump := diamGoroutines()
		l.Goroutines, l.Dump = n-base, dump
		if l.Goroutines <= 0 || time.Now().After(deadline) {
			break
		}
		time.Sleep(time.Millisecond)
	}
	if l.Goroutines <= 0 {
		l.Goroutines, l.Dump = 0, ""
	}
	return l
}

func CloseNotify(a Args) error {
	out, err := NewOut(a.Out)
	if err != nil {
		return err
	}
	defer out.Close()
	installHook()
	id := 0
	// goroutine dumps are process-wide: scenarios run sequentially inside this process
	err = ReadLines(a.Cases, func(line []byte) error {
		var c cnCase
		if err := json.Unmarshal(line, &c); err != nil {
			return err
		}
		id++
		if cnExpired >= 30 {
			return nil // (the lines written so far carry the rejections)
		}
		via := "client"
		if len(c.Sched) > 0 && (c.Sched[0] == "m" || c.Sched[0] == "mh" || c.Sched[0] == "mm") && id%2 == 0 {
			via = "server"
		}
		if c.Via != "" {
			via = c.Via
		}
		if c.Via == "sctp" {
			out.Emit(runCNSCTP(id, c.Sched))
			return nil
		}
		if c.Via == "tls" {
			out.Emit(runCNTLS(id, len(c.Sched) > 0 && c.Sched[0] == "rerr"))
			return nil
		}
		lateGate = true
		out.Emit(runCN(id, &c, via))
		// a schedule with a request after the termination is run twice: overlapping the exit path, and after it
		late := false
		for i, ev := range c.Sched {
			if ev == "cn" && i > 0 {
				for _, p := range c.Sched[:i] {
					if p != "cn" && p != "m" && p != "mh" && p != "mm" && p != "m1" && p != "m2" {
						late = true
					}
				}
			}
		}
		if late {
			id++
			lateGate = false
			out.Emit(runCN(id, &c, via))
			lateGate = true
		}
		return nil
	})
	if err != nil {
		return err
	}
	if a.Extra["watchdog"] != "no" {
		// a server with ReadTimeout: an idle connection is closed, and only then do its channels fire
		for _, sc := range [][]string{{"mh", "idle"}, {"mh", "m", "idle"}, {"m", "cn", "m", "idle"}, {"m", "idle", "cn"}, {"mm", "idle", "cn"}} {
			id++
			out.Emit(runCN(id, &cnCase{Sched: sc}, "server+timeout"))
		}
		for _, how := range []string{"eof", "rerr", "lclose", "x"} {
			id++
			out.Emit(runCNWatchdog(id, how))
		}
		// multi-stream associations; TLS connections whose handshake fails
		for _, sc := range [][]string{{"m", "cn", "eof"}, {"m", "eof", "cn"}, {"cn", "m", "m", "eof", "cn"}, {"eof", "cn", "cn"}} {
			id++
			out.Emit(runCNSCTP(id, sc))
		}
		for _, after := range []bool{false, true} {
			id++
			out.Emit(runCNTLS(id, after))
		}
		// nobody reads the error reports: the second and third undecodable message find the slot occupied
		for _, sc := range [][]string{{"mh", "x"}, {"mh", "m", "xt", "cn"}, {"cn", "m", "rerr"}, {"mh", "x", "cn"}} {
			id++
			out.Emit(runCN(id, &cnCase{Sched: sc}, "client+undrained"))
		}
	}
	return nil
}

// runCNSCTP: a multi-stream association. Schedules are a subset of the byte-stream ones: "m" (a message on stream 1),
// "cn" (CloseNotify requested from another goroutine), "eof" (the peer closes the association).
func runCNSCTP(id int, sched []string) cnLine {
	l := cnLine{Ev: "cn", ID: id, Via: "sctp", Sched: sched, Steps: []cnStep{}, InOrder: true, Events: []cnEvent{}}
	base, _ := diamGoroutines()
	as := sctpmem.New()
	var mu sync.Mutex
	delivered := 0
	mux := diam.NewServeMux()
	mux.HandleFunc("ALL", func(diam.Conn, *diam.Message) {
		mu.Lock()
		delivered++
		mu.Unlock()
	})
	stop := make(chan struct{})
	go func() {
		for {
			select {
			case <-mux.ErrorReports():
			case <-stop:
				return
			}
		}
	}()
	dc, err := diam.NewConn(diam.NewSCTPConnVerif(as), "10.0.0.2:3868", mux, dict.Default)
	if err != nil {
		l.Note = err.Error()
		close(stop)
		return l
	}
	var chans []<-chan struct{}
	next := uint32(0)
	term := false
	for _, ev := range sched {
		hung := false
		switch ev {
		case "m":
			next++
			want := int(next)
			as.Feed(1, cnGood(next, false))
			deadline := time.Now().Add(2 * time.Second)
			for time.Now().Before(deadline) {
				mu.Lock()
				ok := delivered >= want
				mu.Unlock()
				if ok {
					break
				}
				time.Sleep(200 * time.Microsecond)
			}
			as.WaitReaderBlocked(time.Second)
		case "cn":
			done := make(chan (<-chan struct{}), 1)
			go func() { done <- dc.(diam.CloseNotifier).CloseNotify() }()
			select {
			case ch := <-done:
				chans = append(chans, ch)
			case <-time.After(2 * time.Second):
				hung = true
			}
		case "eof":
			as.FeedEOF()
			deadline := time.Now().Add(3 * time.Second)
			for time.Now().Before(deadline) && !as.Closed() {
				time.Sleep(200 * time.Microsecond)
			}
			term = true
		}
		if term {
			deadline := time.Now().Add(600 * time.Millisecond)
			for time.Now().Before(deadline) {
				all := true
				for _, ch := range chans {
					if !isClosed(ch) {
						all = false
					}
				}
				if all {
					break
				}
				time.Sleep(500 * time.Microsecond)
			}
		}
		mu.Lock()
		st := cnStep{Chans: []bool{}, Delivered: delivered, Held: []bool{}, Hung: hung, TClosed: as.Closed()}
		mu.Unlock()
		for _, ch := range chans {
			st.Chans = append(st.Chans, isClosed(ch))
		}
		l.Steps = append(l.Steps, st)
	}
	close(stop)
	if !as.Closed() {
		as.Close()
	}
	deadline := time.Now().Add(600 * time.Millisecond)
	for {
		n, dump := diamGoroutines()
		l.Goroutines, l.Dump = n-base, dump
		if l.Goroutines <= 0 || time.Now().After(deadline) {
			break
		}
		time.Sleep(time.Millisecond)
	}
	if l.Goroutines <= 0 {
		l.Goroutines, l.Dump = 0, ""
	}
	return l
}

// runCNTLS: a client connection over TLS whose handshake fails (the peer swallows the ClientHello and hangs up):
// the connection is over, and a CloseNotify channel requested meanwhile or afterwards is closed like any other
func runCNTLS(id int, after bool) cnLine {
	sched := []string{"cn", "rerr"}
	if after {
		sched = []string{"rerr", "cn"}
	}
	l := cnLine{Ev: "cn", ID: id, Via: "tls", Sched: sched, Steps: []cnStep{}, InOrder: true, Events: []cnEvent{}}
	base, _ := diamGoroutines()
	srvEnd, cliEnd := net.Pipe()
	mux := diam.NewServeMux()
	stop := make(chan struct{})
	go func() {
		for {
			select {
			case <-mux.ErrorReports():
			case <-stop:
				return
			}
		}
	}()
	tc := tls.Client(addrConn{cliEnd}, &tls.Config{InsecureSkipVerify: true})
	dc, err := diam.NewConn(tc, "10.0.0.2:3868", mux, dict.Default)
	if err != nil {
		l.Note = err.Error()
		close(stop)
		return l
	}
	var chans []<-chan struct{}
	hangup := func() {
		buf := make([]byte, 4096)
		srvEnd.SetReadDeadline(time.Now().Add(time.Second))
		srvEnd.Read(buf) // the ClientHello
		srvEnd.Close()
		time.Sleep(20 * time.Millisecond)
	}
	for _, ev := range sched {
		hung := false
		if ev == "cn" {
			done := make(chan (<-chan struct{}), 1)
			go func() { done <- dc.(diam.CloseNotifier).CloseNotify() }()
			select {
			case ch := <-done:
				chans = append(chans, ch)
			case <-time.After(2 * time.Second):
				hung = true
			}
		} else {
			hangup()
		}
		term := ev == "rerr" || (after && ev == "cn")
		if term {
			deadline := time.Now().Add(600 * time.Millisecond)
			for time.Now().Before(deadline) {
				all := true
				for _, ch := range chans {
					if !isClosed(ch) {
						all = false
					}
				}
				if all {
					break
				}
				time.Sleep(500 * time.Microsecond)
			}
		}
		st := cnStep{Chans: []bool{}, Held: []bool{}, Hung: hung, TClosed: term}
		for _, ch := range chans {
			st.Chans = append(st.Chans, isClosed(ch))
		}
		l.Steps = append(l.Steps, st)
	}
	close(stop)
	cliEnd.Close()
	deadline := time.Now().Add(600 * time.Millisecond)
	for {
		n, dump := diamGoroutines()
		l.Goroutines, l.Dump = n-base, dump
		if l.Goroutines <= 0 || time.Now().After(deadline) {
			break
		}
		time.Sleep(time.Millisecond)
	}
	if l.Goroutines <= 0 {
		l.Goroutines, l.Dump = 0, ""
	}
	return l
}
