package drivers

import (
	"bytes"
	"encoding/json"
	"fmt"
	"io"
	"math/rand"

	"verifharness/abs"

	"github.com/fiorix/go-diameter/v4/diam"
	"github.com/fiorix/go-diameter/v4/diam/datatype"
	"github.com/fiorix/go-diameter/v4/diam/dict"
)

// Codec driver (C01, C02): executes abstract messages against the real library and
// records what it did. No comparison is made here; spec/WireTrace.tla decides.

type codecCase struct {
	ID    int     `json:"id"`
	Src   string  `json:"src"`
	Dict  string  `json:"dict"`
	M     abs.Msg `json:"m"`
	Bytes []int   `json:"bytes"` // reference encoding from TLC (wire cases), else empty
	Style string  `json:"style"` // how the message is assembled (abs.ToGoStyle); empty: chosen from id and seed
}

var codecSeed int64
var buildStyles = []string{"newavp", "novbit", "literal", "byname", "late2"}

type codecLine struct {
	Style string  `json:"style"`
	Ev    string  `json:"ev"` // "msg" (built through the API) | "wire" (reference bytes read)
	ID    int     `json:"id"`
	Src   string  `json:"src"`
	Dict  string  `json:"dict"`
	M     abs.Msg `json:"m"`
	// build + serialise
	Built bool   `json:"built"`
	Berr  string `json:"berr"`
	Bytes []int  `json:"bytes"`
	HLen  int    `json:"hlen"` // Header.MessageLength after assembly
	// bytes produced by WriteTo (serialised into the library's pooled buffer, which the
	// harness fills with a non-zero pattern beforehand)
	WBytes []int `json:"wbytes"`
	// read back
	Rok    bool      `json:"rok"`
	Rerr   string    `json:"rerr"`
	DHdr   abs.Hdr   `json:"dhdr"`
	DLen   int       `json:"dlen"` // Header.MessageLength of the message read
	DAVPs  []abs.AVP `json:"davps"`
	Bytes2 []int     `json:"bytes2"`
}

func emptyHdr() abs.Hdr {
	return abs.Hdr{Cmd: []int{0, 0, 0}, App: []int{0, 0, 0, 0}, HbH: []int{0, 0, 0, 0}, E2E: []int{0, 0, 0, 0}}
}

func safely(f func()) (perr string) {
	defer func() {
		if r := recover(); r != nil {
			perr = fmt.Sprintf("panic: %v", r)
		}
	}()
	f()
	return ""
}

// poisonPools leaves a non-zero pattern in the library's pooled 1 KiB write and read
// buffers (a 1024-byte message of 0xA5 bytes is written and read a few times), so
// that bytes a later operation forgets to set are visible.
var poisonWire []byte

func poisonPools(dp *dict.Parser) {
	if poisonWire == nil {
		pay := bytes.Repeat([]byte{0xA5}, 996)
		pm := diam.NewMessage(abs.VCmd, 0x80, abs.VApp, 0xA5A5A5A5, 0xA5A5A5A5, dp)
		pm.NewAVP(uint32(9010), 0xA5&^0x80, 0, datatype.OctetString(pay))
		poisonWire, _ = pm.Serialize()
		poisonMsg = pm
	}
	for i := 0; i < 2; i++ {
		poisonMsg.WriteTo(io.Discard)
		diam.ReadMessage(bytes.NewReader(poisonWire), dp)
	}
}

var poisonMsg *diam.Message

func runCodecCase(c *codecCase, dp *dict.Parser) codecLine {
	l := codecLine{Ev: "msg", ID: c.ID, Src: c.Src, Dict: c.Dict, M: c.M, Bytes: []int{}, WBytes: []int{}, DHdr: emptyHdr(), DAVPs: []abs.AVP{}, Bytes2: []int{}}
	var wire []byte
	if c.Style == "" {
		c.Style = buildStyles[int((int64(c.ID)+codecSeed)%int64(len(buildStyles)))]
	}
	l.Style = c.Style
	if len(c.Bytes) > 0 {
		l.Ev = "wire"
		wire = abs.Bytes(c.Bytes)
		l.Bytes = c.Bytes
		l.Built = true
	} else {
		p := safely(func() {
			gm, err := abs.NewMessageStyle(&c.M, dp, c.Style)
			if err != nil {
				l.Berr = err.Error()
				return
			}
			l.HLen = int(gm.Header.MessageLength)
			b, err := gm.Serialize()
			if err != nil {
				l.Berr = err.Error()
				return
			}
			wire = b
			l.Bytes = abs.Ints(b)
			poisonPools(dp)
			var wb bytes.Buffer
			if _, err := gm.WriteTo(&wb); err != nil {
				l.Berr = "WriteTo: " + err.Error()
				return
			}
			l.WBytes = abs.Ints(wb.Bytes())
			// the public SerializeTo into a caller-owned buffer that is larger than the message
			big := bytes.Repeat([]byte{0x5A}, gm.Len()+64)
			if err := gm.SerializeTo(big); err != nil || !bytes.Equal(big[:gm.Len()], b) || int(gm.Header.MessageLength) != len(b) {
				l.WBytes = abs.Ints(big[:gm.Len()]) // reported through the same comparison as WriteTo
				if int(gm.Header.MessageLength) != len(b) {
					l.WBytes = append(l.WBytes, 0) // the header length was altered by the call
				}
			}
			l.Built = true
		})
		if p != "" {
			l.Berr = p
			l.Built = false
		}
	}
	if !l.Built {
		return l
	}
	p := safely(func() {
		// the same message twice in one plain reader: reading the first must leave the second intact
		rd := bytes.NewReader(append(append([]byte(nil), wire...), wire...))
		rm, err := diam.ReadMessage(rd, dp)
		if err != nil {
			l.Rerr = err.Error()
			return
		}
		if rm2, err := diam.ReadMessage(rd, dp); err != nil {
			l.Rerr = "second message in the same reader: " + err.Error()
			return
		} else if b2, _ := rm2.Serialize(); rd.Len() != 0 || len(b2) == 0 {
			l.Rerr = "second message in the same reader: bytes left or not serialisable"
			return
		}
		// further traffic before the message is looked at: what was read must not live in a buffer the
		// library hands out again
		poisonPools(dp)
		l.DHdr = abs.HdrFromGo(rm.Header)
		l.DLen = int(rm.Header.MessageLength)
		l.DAVPs = abs.FromGoList(rm.AVP)
		b2, err := rm.Serialize()
		if err != nil {
			l.Rerr = "reserialize: " + err.Error()
			return
		}
		l.Bytes2 = abs.Ints(b2)
		l.Rok = true
	})
	if p != "" {
		l.Rerr = p
		l.Rok = false
	}
	return l
}

// defsOfDefault lists every AVP definition of the embedded dictionaries (own XML pass),
// with the application it was declared in.
func defsOfDefault(repo string) ([]abs.Def, map[uint32][]uint32, error) {
	fs, _, err := abs.DefaultFiles(repo)
	if err != nil {
		return nil, nil, err
	}
	var defs []abs.Def
	cmds := map[uint32][]uint32{} // app -> command codes having both rule lists
	for _, f := range fs {
		for _, a := range f.Apps {
			for _, c := range a.Cmds {
				if len(c.Req) > 0 && len(c.Ans) > 0 {
					cmds[a.ID] = append(cmds[a.ID], c.Code)
				}
			}
			for _, v := range a.AVPs {
				defs = append(defs, abs.Def{App: a.ID, Code: v.Code, Vendor: v.Vendor, Name: v.Name, Kind: abs.KindOfTypeName(v.Data.Type), Must: v.Must})
			}
		}
	}
	return defs, cmds, nil
}

func Codec(a Args) error {
	out, err := NewOut(a.Out)
	if err != nil {
		return err
	}
	defer out.Close()
	codecSeed = a.Seed
	vp, err := abs.NewVParser(a.Repo)
	if err != nil {
		return err
	}
	out.Emit(map[string]interface{}{"ev": "vdict", "entries": abs.VDefs()})
	parsers := map[string]*dict.Parser{"v": vp, "default": dict.Default}
	id := 0
	if a.Cases != "" {
		err = ReadLines(a.Cases, func(line []byte) error {
			if bytes.Contains(line, []byte(`"ops"`)) {
				var lc lenbookCase
				if err := json.Unmarshal(line, &lc); err != nil {
					return err
				}
				id++
				out.Emit(runLenbook(id, &lc, vp))
				return nil
			}
			var c codecCase
			if err := json.Unmarshal(line, &c); err != nil {
				return err
			}
			if c.Dict == "" {
				c.Dict = "v"
			}
			if c.Src == "" {
				c.Src = "gen"
			}
			id++
			c.ID = id
			if len(c.Bytes) > 0 {
				// reference bytes from TLC: read them (wire case) and, when the header can be
				// produced by the API, also build the message through the API
				out.Emit(runCodecCase(&c, parsers[c.Dict]))
				if c.M.Hdr.Version != 1 {
					return nil
				}
				c.Bytes = nil
			}
			out.Emit(runCodecCase(&c, parsers[c.Dict]))
			return nil
		})
		if err != nil {
			return err
		}
	}
	r := rand.New(rand.NewSource(a.Seed))
	vdefs := abs.VDefs()
	// random trees over the verification dictionary
	for i := 0; i < a.N; i++ {
		n := r.Intn(6)
		m := abs.Msg{Hdr: abs.RandHdr(r, abs.VCmd, abs.VApp), AVPs: []abs.AVP{}}
		for j := 0; j < n; j++ {
			if r.Intn(8) == 0 {
				m.AVPs = append(m.AVPs, abs.RandUnknownAVP(r))
			} else {
				m.AVPs = append(m.AVPs, abs.RandAVP(r, vdefs[r.Intn(len(vdefs))], vdefs, 3))
			}
		}
		if i%8 == 3 {
			// a body larger than the library's 1 KiB read / write buffers
			big := abs.AVP{Code: abs.B4(9010), Flags: 0x40, Vendor: abs.B4(0), Kind: "octets", Sem: abs.RandBytes(r, 1100+r.Intn(2500)), Kids: []abs.AVP{}}
			m.AVPs = append(m.AVPs, big)
		}
		id++
		c := codecCase{ID: id, Src: "rand", Dict: "v", M: m}
		out.Emit(runCodecCase(&c, vp))
	}
	// one message per AVP definition of every embedded dictionary (quick: seeded sample)
	ddefs, cmds, err := defsOfDefault(a.Repo)
	if err != nil {
		return err
	}
	byApp := map[uint32][]abs.Def{}
	for _, d := range ddefs {
		byApp[d.App] = append(byApp[d.App], d)
	}
	for _, d := range ddefs {
		if a.Tier != "thorough" && r.Intn(8) != 0 {
			continue
		}
		cc := cmds[d.App]
		app := d.App
		if len(cc) == 0 {
			cc = cmds[0]
		}
		cmd := cc[r.Intn(len(cc))]
		m := abs.Msg{Hdr: abs.RandHdr(r, cmd, app), AVPs: []abs.AVP{abs.RandAVP(r, d, byApp[d.App], 2)}}
		// children of grouped AVPs are drawn from the same application, so the message's
		// application resolves every code to the definition used to build it
		id++
		c := codecCase{ID: id, Src: "dict:" + d.Name, Dict: "default", M: m}
		out.Emit(runCodecCase(&c, dict.Default))
	}
	return nil
}

// ---- LenBook (spec/LenBook.tla): MessageLength book-keeping under assembly operations

type lenbookOp struct {
	Op string `json:"op"`
	N  int    `json:"n"`
}
type lenbookCase struct {
	Start string      `json:"start"`
	Ops   []lenbookOp `json:"ops"`
}
type lenbookAfter struct {
	HLen  int   `json:"hlen"`
	SLen  int   `json:"slen"`
	Order []int `json:"order"`
	WSame bool  `json:"wsame"` // WriteTo (pooled, previously used buffer) produced the same bytes as Serialize
}
type lenbookLine struct {
	Ev    string         `json:"ev"`
	ID    int            `json:"id"`
	Start string         `json:"start"`
	Ops   []lenbookOp    `json:"ops"`
	After []lenbookAfter `json:"after"`
	Err   string         `json:"err"`
}

type lbStruct struct {
	A datatype.OctetString `avp:"V-OctetString"`
	B datatype.UTF8String  `avp:"V-UTF8String"`
}

func runLenbook(id int, c *lenbookCase, dp *dict.Parser) lenbookLine {
	l := lenbookLine{Ev: "lenbook", ID: id, Start: c.Start, Ops: c.Ops, After: []lenbookAfter{}}
	p := safely(func() {
		var m *diam.Message
		if c.Start == "answer" {
			req := diam.NewMessage(abs.VCmd, 0x80, abs.VApp, 7, 8, dp)
			m = req.Answer(2001)
		} else {
			m = diam.NewMessage(abs.VCmd, 0x80, abs.VApp, 7, 8, dp)
		}
		for k, op := range c.Ops {
			pay := bytes.Repeat([]byte{byte(k + 1)}, op.N)
			switch op.Op {
			case "NewAVP":
				if _, err := m.NewAVP(uint32(9010), 0x40, 0, datatype.OctetString(pay)); err != nil {
					l.Err = err.Error()
					return
				}
			case "AddAVP":
				m.AddAVP(diam.NewAVP(9010, 0x40, 0, datatype.OctetString(pay)))
			case "InsertAVP":
				m.InsertAVP(diam.NewAVP(9010, 0x40, 0, datatype.OctetString(pay)))
			case "AddLit":
				m.AddAVP(&diam.AVP{Code: 9010, Flags: 0x40, Data: datatype.OctetString(pay)})
			case "InsLit":
				m.InsertAVP(&diam.AVP{Code: 9010, Flags: 0x40, Data: datatype.OctetString(pay)})
			case "NewVend": // vendor AVP, V bit left to the constructor
				if _, err := m.NewAVP(uint32(9110), 0x40, 99999, datatype.OctetString(pay)); err != nil {
					l.Err = err.Error()
					return
				}
			case "AddVend":
				m.AddAVP(diam.NewAVP(9110, 0x40, 99999, datatype.OctetString(pay)))
			case "AddGroupLate":
				g := diam.NewAVP(9018, 0x40, 0, &diam.GroupedAVP{})
				g.Data.(*diam.GroupedAVP).AddAVP(diam.NewAVP(9010, 0x40, 0, datatype.OctetString(pay)))
				m.AddAVP(g)
			case "AddNestedLate":
				inner := &diam.GroupedAVP{}
				outer := diam.NewAVP(9018, 0x40, 0, &diam.GroupedAVP{AVP: []*diam.AVP{diam.NewAVP(9050, 0x40, 0, inner)}})
				inner.AddAVP(diam.NewAVP(9010, 0x40, 0, datatype.OctetString(pay)))
				m.AddAVP(outer)
			case "Marshal":
				if err := m.Marshal(&lbStruct{A: datatype.OctetString(pay), B: datatype.UTF8String([]byte{byte(k + 1), byte(k + 1)})}); err != nil {
					l.Err = err.Error()
					return
				}
			}
			b, err := m.Serialize()
			if err != nil {
				l.Err = err.Error()
				return
			}
			a := lenbookAfter{HLen: int(m.Header.MessageLength), SLen: len(b), Order: []int{}}
			poisonPools(dp)
			var wb bytes.Buffer
			if _, err := m.WriteTo(&wb); err == nil && bytes.Equal(wb.Bytes(), b) {
				a.WSame = true
			}
			for _, av := range m.AVP {
				s := av.Data.Serialize()
				for g, ok := av.Data.(*diam.GroupedAVP); ok && len(g.AVP) == 1; g, ok = g.AVP[0].Data.(*diam.GroupedAVP) {
					s = g.AVP[0].Data.Serialize()
					if _, more := g.AVP[0].Data.(*diam.GroupedAVP); !more {
						break
					}
				}
				switch {
				case av.Code == 268:
					a.Order = append(a.Order, 0)
				case len(s) > 0:
					a.Order = append(a.Order, int(s[0]))
				default:
					a.Order = append(a.Order, -1)
				}
			}
			l.After = append(l.After, a)
		}
	})
	if p != "" {
		l.Err = p
	}
	return l
}
