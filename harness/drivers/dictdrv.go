package drivers

import (
	"bytes"
	"encoding/json"
	"fmt"
	"go/ast"
	"go/parser"
	"go/token"
	"math/rand"
	"path/filepath"
	"strconv"
	"strings"

	"verifharness/abs"

	"github.com/fiorix/go-diameter/v4/diam"
	"github.com/fiorix/go-diameter/v4/diam/datatype"
	"github.com/fiorix/go-diameter/v4/diam/dict"
)

// Dict driver (C17): (1) generated dictionary files loaded in the order the case says,
// every lookup of the key neighbourhood after each Load; (2) lookups in the embedded
// dictionaries for every definition and its neighbours; (3) exported Go constants;
// (4) every type name the loader accepts is encoded and decoded. spec/DictTrace.tla decides.

type dAVP struct {
	App    uint32 `json:"app"`
	Code   uint32 `json:"code"`
	Name   string `json:"name"`
	Vendor int64  `json:"vendor"`
	Kind   string `json:"kind"`
}
type dCmd struct {
	App   uint32 `json:"app"`
	Code  uint32 `json:"code"`
	Short string `json:"short"`
}
type dApp struct {
	ID   uint32 `json:"id"`
	Type string `json:"type"`
}
type dFile struct {
	Apps []dApp `json:"apps"`
	AVPs []dAVP `json:"avps"`
	Cmds []dCmd `json:"cmds"`
}
type dictCase struct {
	Loaded []int   `json:"loaded"`
	Files  []dFile `json:"files"`
}
type dKey struct {
	ByName bool   `json:"byname"`
	Code   uint32 `json:"code"`
	Name   string `json:"name"`
}
type dRes struct {
	Found       bool   `json:"found"`
	Placeholder bool   `json:"placeholder"`
	App         uint32 `json:"app"`
	Code        uint32 `json:"code"`
	Name        string `json:"name"`
	Vendor      int64  `json:"vendor"`
	Kind        string `json:"kind"`
}
type dLookup struct {
	App    uint32 `json:"app"`
	Key    dKey   `json:"key"`
	Vendor int64  `json:"vendor"`
	Res    dRes   `json:"res"`
}
type dCmdLookup struct {
	App   uint32 `json:"app"`
	Code  uint32 `json:"code"`
	Short string `json:"short"`
}
type dAppLookup struct {
	ID  uint32 `json:"id"`
	Typ string `json:"typ"`
	OK  bool   `json:"ok"`
}
type dStep struct {
	AVP  []dLookup    `json:"avp"`
	Cmd  []dCmdLookup `json:"cmd"`
	Apps []dAppLookup `json:"apps"`
}
type dictLine struct {
	Ev       string  `json:"ev"`
	ID       int     `json:"id"`
	Loaded   []int   `json:"loaded"`
	Files    []dFile `json:"files"`
	LoadedOK bool    `json:"loaded_ok"`
	LoadErr  string  `json:"load_err"`
	Steps    []dStep `json:"steps"`
}

func fileXML(f *dFile) string {
	var b bytes.Buffer
	b.WriteString("<?xml version=\"1.0\" encoding=\"UTF-8\"?>\n<diameter>\n")
	for _, a := range f.Apps {
		t := ""
		if a.Type != "" {
			t = fmt.Sprintf(" type=\"%s\"", a.Type)
		}
		fmt.Fprintf(&b, "<application id=\"%d\"%s name=\"App-%d-%s\">\n", a.ID, t, a.ID, a.Type)
		for _, c := range f.Cmds {
			if c.App == a.ID {
				fmt.Fprintf(&b, "<command code=\"%d\" short=\"%s\" name=\"Cmd-%s\"><request><rule avp=\"X-A\" required=\"false\"/></request><answer><rule avp=\"X-A\" required=\"false\"/></answer></command>\n", c.Code, c.Short, c.Short)
			}
		}
		for _, v := range f.AVPs {
			if v.App == a.ID && !seenApp(f, a) {
				vend := ""
				if v.Vendor != 0 {
					vend = fmt.Sprintf(" vendor-id=\"%d\"", v.Vendor)
				}
				fmt.Fprintf(&b, "<avp name=\"%s\" code=\"%d\" must=\"M\"%s><data type=\"%s\"/></avp>\n", v.Name, v.Code, vend, v.Kind)
			}
		}
		b.WriteString("</application>\n")
	}
	b.WriteString("</diameter>\n")
	return b.String()
}

// an application id listed twice in one file (with two types) carries its AVPs only once
func seenApp(f *dFile, a dApp) bool {
	for _, x := range f.Apps {
		if x.ID == a.ID {
			return x != a
		}
	}
	return false
}

func vend(v int64) uint32 {
	if v < 0 {
		return dict.UndefinedVendorID
	}
	return uint32(v)
}

func lookupAVP(p *dict.Parser, app uint32, k dKey, v int64) dRes {
	var key interface{} = k.Code
	if k.ByName {
		key = k.Name
	}
	var r dRes
	perr := safely(func() {
		var a *dict.AVP
		var err error
		if v == -1 {
			a, err = p.FindAVP(app, key) // the any-vendor lookup through its own entry point
		} else {
			a, err = p.FindAVPWithVendor(app, key, vend(v))
		}
		switch {
		case a == nil:
		case err != nil || a.Data.TypeName == "Unknown":
			r = dRes{Placeholder: true, Code: a.Code, Kind: "Unknown"}
		default:
			r = dRes{Found: true, Code: a.Code, Name: a.Name, Vendor: int64(a.VendorID), Kind: a.Data.TypeName}
			if a.App != nil {
				r.App = a.App.ID
			}
		}
	})
	if perr != "" {
		r = dRes{Name: perr}
	}
	return r
}

// runDict: rev = the applications are queried in descending order (the outcome of a lookup must not
// depend on which lookups were made before it, e.g. through something remembered by a failed one).
func runDict(id int, c *dictCase, rev bool) dictLine {
	l := dictLine{Ev: "dict", ID: id, Loaded: c.Loaded, Files: c.Files, LoadedOK: true, Steps: []dStep{}}
	for i := range l.Files {
		if l.Files[i].Cmds == nil {
			l.Files[i].Cmds = []dCmd{}
		}
	}
	p, _ := dict.NewParser()
	apps := []uint32{0, 1, 4, 16777251, 77, 99}
	if rev {
		apps = []uint32{99, 77, 16777251, 4, 1, 0}
	}
	var keys []dKey
	for _, code := range []uint32{5001, 5002, 5003, 5004} {
		keys = append(keys, dKey{Code: code})
	}
	for _, n := range []string{"X-A", "X-B", "X-C", "X-D", "X-E", "X-R", "X-S", "X-V", "X-Z"} {
		keys = append(keys, dKey{ByName: true, Name: n})
	}
	vendors := []int64{0, 10, 20, 30, -1}
	for i := range c.Files {
		if err := p.Load(strings.NewReader(fileXML(&c.Files[i]))); err != nil {
			l.LoadedOK, l.LoadErr = false, err.Error()
			return l
		}
		st := dStep{AVP: []dLookup{}, Cmd: []dCmdLookup{}, Apps: []dAppLookup{}}
		for _, a := range apps {
			for _, k := range keys {
				for _, v := range vendors {
					st.AVP = append(st.AVP, dLookup{App: a, Key: k, Vendor: v, Res: lookupAVP(p, a, k, v)})
				}
			}
			for _, code := range []uint32{600, 601, 602} {
				short := ""
				if cmd, err := p.FindCommand(a, code); err == nil && cmd != nil {
					short = cmd.Short
				}
				st.Cmd = append(st.Cmd, dCmdLookup{App: a, Code: code, Short: short})
			}
			for _, typ := range []string{"", "auth", "acct"} {
				var err error
				if typ == "" {
					_, err = p.App(a)
				} else {
					_, err = p.App(a, typ)
				}
				st.Apps = append(st.Apps, dAppLookup{ID: a, Typ: typ, OK: err == nil})
			}
		}
		l.Steps = append(l.Steps, st)
	}
	return l
}

// ---- embedded dictionaries

type embLine struct {
	Ev     string `json:"ev"`
	ID     int    `json:"id"`
	App    uint32 `json:"app"`
	Key    dKey   `json:"key"`
	Vendor int64  `json:"vendor"`
	Cands  []dAVP `json:"cands"`
	Res    dRes   `json:"res"`
}
type embCmdLine struct {
	Ev    string `json:"ev"`
	ID    int    `json:"id"`
	App   uint32 `json:"app"`
	Code  uint32 `json:"code"`
	Cands []dCmd `json:"cands"`
	Short string `json:"short"`
}

func embedded(a Args, out *Out, id *int) error {
	fs, _, err := abs.DefaultFiles(a.Repo)
	if err != nil {
		return err
	}
	var defs []dAVP
	var cmds []dCmd
	appset := map[uint32]bool{}
	for _, f := range fs {
		for _, ap := range f.Apps {
			appset[ap.ID] = true
			for _, c := range ap.Cmds {
				cmds = append(cmds, dCmd{App: ap.ID, Code: c.Code, Short: c.Short})
			}
			for _, v := range ap.AVPs {
				defs = append(defs, dAVP{App: ap.ID, Code: v.Code, Name: v.Name, Vendor: int64(v.Vendor), Kind: v.Data.Type})
			}
		}
	}
	byCode := map[uint32][]dAVP{}
	byName := map[string][]dAVP{}
	for _, d := range defs {
		byCode[d.Code] = append(byCode[d.Code], d)
		byName[d.Name] = append(byName[d.Name], d)
	}
	r := rand.New(rand.NewSource(a.Seed))
	apps := []uint32{12345}
	for ap := range appset {
		apps = append(apps, ap)
	}
	sample := 0.04
	if a.Tier == "thorough" {
		sample = 1.0
	}
	emit := func(app uint32, k dKey, v int64) {
		cands := byCode[k.Code]
		if k.ByName {
			cands = byName[k.Name]
		}
		if cands == nil {
			cands = []dAVP{}
		}
		*id++
		out.Emit(embLine{Ev: "lookup", ID: *id, App: app, Key: k, Vendor: v, Cands: cands, Res: lookupAVP(dict.Default, app, k, v)})
	}
	for _, d := range defs {
		if d.App != 0 && r.Float64() > sample {
			continue // quick: all of base, a seeded sample of the rest
		}
		for _, app := range apps {
			for _, v := range []int64{d.Vendor, -1, 4242, 0} {
				emit(app, dKey{Code: d.Code}, v)
				emit(app, dKey{ByName: true, Name: d.Name}, v)
			}
		}
		emit(d.App, dKey{Code: d.Code + 100000}, -1) // an absent code: opaque placeholder
		emit(d.App, dKey{ByName: true, Name: d.Name + "-absent"}, -1)
	}
	cmdBy := map[uint32][]dCmd{}
	for _, c := range cmds {
		cmdBy[c.Code] = append(cmdBy[c.Code], c)
	}
	for code, cs := range cmdBy {
		for _, app := range apps {
			short := ""
			if cmd, err := dict.Default.FindCommand(app, code); err == nil && cmd != nil {
				short = cmd.Short
			}
			*id++
			out.Emit(embCmdLine{Ev: "cmdlookup", ID: *id, App: app, Code: code, Cands: cs, Short: short})
		}
	}
	return nil
}

// ---- exported constants (diam/avp/codes.go, diam/commands.go, diam/applications.go)

func norm(s string) string {
	s = strings.ToLower(s)
	s = strings.NewReplacer("-", "", "_", "", " ", "").Replace(s)
	return s
}

type constLine struct {
	Ev    string  `json:"ev"`
	ID    int     `json:"id"`
	Kind  string  `json:"kind"`
	Name  string  `json:"name"`
	Value int64   `json:"value"`
	Dict  []int64 `json:"dict"`
}

func goConsts(path string) (map[string]string, error) {
	fset := token.NewFileSet()
	f, err := parser.ParseFile(fset, path, nil, 0)
	if err != nil {
		return nil, err
	}
	out := map[string]string{}
	for _, d := range f.Decls {
		g, ok := d.(*ast.GenDecl)
		if !ok || g.Tok != token.CONST {
			continue
		}
		for _, s := range g.Specs {
			vs := s.(*ast.ValueSpec)
			for i, n := range vs.Names {
				if i < len(vs.Values) {
					if lit, ok := vs.Values[i].(*ast.BasicLit); ok {
						out[n.Name] = lit.Value
					}
				}
			}
		}
	}
	return out, nil
}

func constants(a Args, out *Out, id *int) error {
	xs, err := abs.DefaultXML(a.Repo)
	if err != nil {
		return err
	}
	avpCodes := map[string][]int64{}
	cmdCodes := map[string][]int64{}
	appIDs := map[string][]int64{}
	shorts := map[string]bool{}
	for _, x := range xs { // every embedded XML, loaded by default or not
		f, err := abs.ParseXML(x)
		if err != nil {
			return err
		}
		for _, ap := range f.Apps {
			appIDs[norm(ap.Name)+"appid"] = append(appIDs[norm(ap.Name)+"appid"], int64(ap.ID))
			for _, c := range ap.Cmds {
				cmdCodes[norm(c.Name)] = append(cmdCodes[norm(c.Name)], int64(c.Code))
				shorts[c.Short+"R"], shorts[c.Short+"A"] = true, true
			}
			for _, v := range ap.AVPs {
				avpCodes[norm(v.Name)] = append(avpCodes[norm(v.Name)], int64(v.Code))
			}
		}
	}
	emit := func(kind, name string, val int64, d []int64) {
		if d == nil {
			d = []int64{}
		}
		*id++
		out.Emit(constLine{Ev: "const", ID: *id, Kind: kind, Name: name, Value: val, Dict: d})
	}
	cs, err := goConsts(filepath.Join(a.Repo, "diam/avp/codes.go"))
	if err != nil {
		return err
	}
	for n, v := range cs {
		if x, err := strconv.ParseInt(v, 0, 64); err == nil {
			emit("avp", n, x, avpCodes[norm(n)])
		}
	}
	cs, err = goConsts(filepath.Join(a.Repo, "diam/commands.go"))
	if err != nil {
		return err
	}
	for n, v := range cs {
		if x, err := strconv.ParseInt(v, 0, 64); err == nil {
			emit("cmd", n, x, cmdCodes[norm(n)])
		} else if s, err := strconv.Unquote(v); err == nil {
			// short command names: the constant's value is its own name and a dictionary command has it
			ok := int64(0)
			if s == n && shorts[s] {
				ok = 1
			}
			emit("short", n, 1, []int64{ok})
		}
	}
	cs, err = goConsts(filepath.Join(a.Repo, "diam/applications.go"))
	if err != nil {
		return err
	}
	for n, v := range cs {
		if x, err := strconv.ParseInt(v, 0, 64); err == nil {
			emit("app", n, x, appIDs[norm(n)])
		}
	}
	return nil
}

// ---- type names

type typeLine struct {
	Ev    string `json:"ev"`
	ID    int    `json:"id"`
	Name  string `json:"name"`
	Loads bool   `json:"loads"`
	Enc   bool   `json:"enc"`
	Dec   bool   `json:"dec"`
	Note  string `json:"note"`
}

// undefined codes: an AVP whose (code, vendor) no loaded dictionary defines is carried as an opaque placeholder,
// whatever its flags, at top level and inside a group of the base dictionary, and is written back unchanged
type undefLine struct {
	Ev     string `json:"ev"`
	ID     int    `json:"id"`
	Flags  int    `json:"flags"`
	Vendor int    `json:"vendor"`
	Nested bool   `json:"nested"`
	OK     bool   `json:"ok"`
	Note   string `json:"note"`
}

func undefinedCodes(out *Out, id *int) {
	for _, fl := range []uint8{0x00, 0x40, 0x20, 0x60, 0x80, 0xC0} {
		for _, nested := range []bool{false, true} {
			*id++
			l := undefLine{Ev: "undef", ID: *id, Flags: int(fl), Nested: nested}
			vendor := uint32(0)
			if fl&0x80 != 0 {
				vendor = 4242
			}
			l.Vendor = int(vendor)
			one := rawAVP(7654, fl, vendor, int(8+4*(fl>>7))+5, []byte{1, 2, 3, 4, 5}, true)
			body := one
			if nested {
				body = rawAVP(279, 0x40, 0, 8+len(one), one, true)
			}
			b := msgBytes(body, 257, 0, 0x80)
			l.Note = safely(func() {
				m, err := diam.ReadMessage(bytes.NewReader(b), dict.Default)
				if err != nil {
					l.Note = err.Error()
					return
				}
				b2, err := m.Serialize()
				l.OK = err == nil && bytes.Equal(b, b2)
			})
			out.Emit(l)
		}
	}
}

func typeNames(out *Out, id *int) {
	// the type names of RFC 6733 4.2-4.3 plus the library's extensions
	names := []string{"OctetString", "Integer32", "Integer64", "Unsigned32", "Unsigned64", "Float32", "Float64", "Grouped", "Address", "Time",
		"UTF8String", "DiameterIdentity", "DiameterURI", "Enumerated", "IPFilterRule", "QoSFilterRule", "IPv4", "IPv6"}
	for _, n := range names {
		*id++
		l := typeLine{Ev: "type", ID: *id, Name: n}
		p, _ := dict.NewParser()
		xs := fmt.Sprintf(`<?xml version="1.0" encoding="UTF-8"?><diameter><application id="0" name="Base"><command code="700" short="TT" name="Type-Test"><request><rule avp="T" required="false"/></request><answer><rule avp="T" required="false"/></answer></command><avp name="T" code="7100" must="M"><data type="%s"/></avp></application></diameter>`, n)
		if err := p.Load(strings.NewReader(xs)); err == nil {
			l.Loads = true
			kind := abs.KindOfTypeName(n)
			r := rand.New(rand.NewSource(int64(len(n))))
			av := abs.AVP{Code: abs.B4(7100), Flags: 0x40, Vendor: abs.B4(0), Kind: kind, Sem: abs.RandSem(r, kind), Kids: []abs.AVP{}}
			l.Note = safely(func() {
				m := diam.NewMessage(700, 0x80, 0, 1, 2, p)
				ga, err := abs.ToGo(&av)
				if err != nil {
					return
				}
				m.AddAVP(ga)
				b, err := m.Serialize()
				if err != nil {
					return
				}
				l.Enc = true
				rm, err := diam.ReadMessage(bytes.NewReader(b), p)
				if err != nil || len(rm.AVP) != 1 {
					l.Note = errStr(err)
					return
				}
				b2, _ := rm.Serialize()
				l.Dec = bytes.Equal(b, b2) && rm.AVP[0].Data != nil && rm.AVP[0].Data.Type() != datatype.UnknownType
			})
		}
		out.Emit(l)
	}
}

func Dict(a Args) error {
	out, err := NewOut(a.Out)
	if err != nil {
		return err
	}
	defer out.Close()
	id := 0
	if a.Cases != "" {
		err = ReadLines(a.Cases, func(line []byte) error {
			var c dictCase
			if err := json.Unmarshal(line, &c); err != nil {
				return err
			}
			id++
			out.Emit(runDict(id, &c, false))
			id++
			out.Emit(runDict(id, &c, true))
			return nil
		})
		if err != nil {
			return err
		}
	}
	if a.Extra["only"] == "gen" {
		return nil
	}
	if err := embedded(a, out, &id); err != nil {
		return err
	}
	if err := constants(a, out, &id); err != nil {
		return err
	}
	typeNames(out, &id)
	undefinedCodes(out, &id)
	return nil
}
