package drivers

import (
	"encoding/json"
	"time"

	"github.com/fiorix/go-diameter/v4/diam"
	"github.com/fiorix/go-diameter/v4/diam/dict"
	"github.com/fiorix/go-diameter/v4/diam/sm"
)

// ErrRep driver (C09, beyond the listed quantifier): histories of operations on the error-report
// channel of a real diam.ServeMux (spec/ErrRep.tla).  "U" dispatches a message no handler matches,
// "M" one with a handler, "E" calls Error() directly (via "sm": through sm.StateMachine.Error, the
// path the CER / DWR handlers use), "D" is one non-blocking receive on ErrorReports().  Nobody else
// reads the channel.  Every operation runs in its own goroutine under a deadline: one that does not
// return is recorded in Stuck (1-based index) and ends the history.  Reports are identified by the
// hop-by-hop id of the message they carry (the ordinal of the offer).

type errRepCase struct {
	Ops []string `json:"ops"`
}
type errRepLine struct {
	Ev    string   `json:"ev"`
	ID    int      `json:"id"`
	Via   string   `json:"via"`
	Ops   []string `json:"ops"`
	Res   []int    `json:"res"`
	Stuck int      `json:"stuck"`
}

type errReporter interface {
	Error(*diam.ErrorReport)
	ErrorReports() <-chan *diam.ErrorReport
}

func runErrRep(id int, c *errRepCase, via string) errRepLine {
	l := errRepLine{Ev: "errrep", ID: id, Via: via, Ops: c.Ops, Res: []int{}}
	mux := diam.NewServeMux()
	var rep errReporter = mux
	if via == "sm" {
		rep = sm.New(&sm.Settings{OriginHost: "srv.verif", OriginRealm: "verif", VendorID: 13, ProductName: "verif-errrep"})
	}
	fired := 0
	mux.HandleIdx(diam.CommandIndex{AppID: 0, Code: 257, Request: true}, diam.HandlerFunc(func(diam.Conn, *diam.Message) { fired++ }))
	offered := 0
	for i, op := range c.Ops {
		done := make(chan int, 1)
		switch op {
		case "U":
			offered++
			// commands without a handler, known and unknown to the dictionary, requests and answers
			code := []uint32{280, 282, 999999, 272}[offered%4]
			var fl uint8
			if offered%2 == 0 {
				fl = diam.RequestFlag
			}
			m := diam.NewMessage(code, fl, 0, uint32(offered), 7, dict.Default)
			go func() { mux.ServeDIAM(nil, m); done <- 0 }()
		case "M":
			m := diam.NewMessage(257, diam.RequestFlag, 0, 0, 7, dict.Default)
			go func() { before := fired; mux.ServeDIAM(nil, m); done <- fired - before }()
		case "E":
			offered++
			m := diam.NewMessage(280, diam.RequestFlag, 0, uint32(offered), 7, dict.Default)
			go func() { rep.Error(&diam.ErrorReport{Message: m}); done <- 0 }()
		case "D":
			go func() {
				select {
				case r := <-rep.ErrorReports():
					if r == nil || r.Message == nil {
						done <- -1
					} else {
						done <- int(r.Message.Header.HopByHopID)
					}
				default:
					done <- 0
				}
			}()
		}
		select {
		case r := <-done:
			l.Res = append(l.Res, r)
		case <-time.After(3 * time.Second):
			l.Stuck = i + 1
			return l
		}
	}
	return l
}

func ErrRep(a Args) error {
	out, err := NewOut(a.Out)
	if err != nil {
		return err
	}
	defer out.Close()
	id, stuck := 0, 0
	return ReadLines(a.Cases, func(line []byte) error {
		var c errRepCase
		if err := json.Unmarshal(line, &c); err != nil {
			return err
		}
		id++
		if stuck >= 3 { // every further history would wait for its deadline too: three witnesses are enough
			return nil
		}
		l := runErrRep(id, &c, "mux")
		if l.Stuck != 0 {
			stuck++
		}
		out.Emit(l)
		onlyED := true
		for _, op := range c.Ops {
			if op != "E" && op != "D" {
				onlyED = false
			}
		}
		if onlyED {
			out.Emit(runErrRep(id, &c, "sm"))
		}
		return nil
	})
}
