package drivers

import (
	"reflect"
	"sync"
	"sync/atomic"
	"time"

	"verifharness/memnet"

	"github.com/fiorix/go-diameter/v4/diam"
	"github.com/fiorix/go-diameter/v4/diam/sm"
)

// Merged event logs for hook-level conformance: what the test does to a connection (logged
// before the action) and the library's internal events (verif hooks, logged at the state
// change), ordered by one process-wide sequence counter.

type cnEvent struct {
	Ev   string `json:"ev"`
	Seq  int64  `json:"seq"`
	K    string `json:"k"`
	How  string `json:"how"`
	Gone bool   `json:"gone"`
}

// evlog is the merged log of what the test does to a connection (logged before the action)
// and of the library's internal events (verif hook, logged at the state change).
type evlog struct {
	mu  sync.Mutex
	evs []cnEvent
	// exitCh, if set, is signalled when the serve loop enters its exit path (hook point serve.exit);
	// the hook then lingers briefly so that a request made at that signal overlaps the exit path
	exitCh chan struct{}
	// failGate, if set, holds the dialling goroutine at hook point hs.fail (it has received the failing
	// CEA's error and is about to close errc) until the serve goroutine has handled the next CEA
	failGate chan struct{}
	gateOnce sync.Once
}

func (e *evlog) add(ev cnEvent) {
	e.mu.Lock()
	ev.Seq = memnet.Seq()
	e.evs = append(e.evs, ev)
	e.mu.Unlock()
}

var curLog atomic.Value // *evlog of the scenario being run (closenotify: scenarios run sequentially)

// logs by transport: an internal event belongs to the scenario whose in-memory transport the
// connection object wraps (a goroutine left over from an earlier scenario must not write into
// the current log)
var logsByConn sync.Map // uintptr (address of the memnet.Conn) -> *evlog

func transportOf(obj interface{}) uintptr {
	v := reflect.ValueOf(obj)
	if v.Kind() == reflect.Ptr {
		v = v.Elem()
	}
	if v.Kind() != reflect.Struct {
		return 0
	}
	f := v.FieldByName("rwc") // *conn
	if !f.IsValid() {
		f = v.FieldByName("r") // *liveSwitchReader, before the switch: still the raw transport
	}
	if f.IsValid() && f.Kind() == reflect.Interface && !f.IsNil() {
		return f.Elem().Pointer()
	}
	return 0
}

func logFor(obj interface{}) *evlog {
	var key uintptr
	if dc, ok := obj.(diam.Conn); ok {
		if nc := dc.Connection(); nc != nil {
			key = reflect.ValueOf(nc).Pointer()
		}
	} else {
		key = transportOf(obj)
	}
	if li, ok := logsByConn.Load(key); ok {
		return li.(*evlog)
	}
	return nil
}

var smHookOnce sync.Once

// installSMHook routes the state machine's internal events to the log of their connection.
func installSMHook() {
	smHookOnce.Do(func() {
		sm.SetVerifHook(func(point string, obj interface{}, args ...interface{}) {
			if l := logFor(obj); l != nil {
				l.add(cnEvent{Ev: point})
				if l.failGate != nil {
					switch point {
					case "hs.fail":
						select {
						case <-l.failGate:
							time.Sleep(time.Millisecond) // handleCEA is past its own close by now
						case <-time.After(300 * time.Millisecond):
						}
					case "cea.ok", "cea.ignore":
						l.gateOnce.Do(func() { close(l.failGate) })
					}
				}
			}
		})
	})
}

func (e *evlog) snapshot() []cnEvent {
	e.mu.Lock()
	defer e.mu.Unlock()
	return append([]cnEvent{}, e.evs...)
}

var _ = atomic.Value{}
var _ = memnet.Seq
