package drivers

import (
	"encoding/json"
	"math/rand"

	"verifharness/abs"

	"github.com/fiorix/go-diameter/v4/diam"
	"github.com/fiorix/go-diameter/v4/diam/datatype"
	"github.com/fiorix/go-diameter/v4/diam/dict"
)

// Find driver (C20): builds the AVP forest as a real message and records which
// nodes (by position, recovered from pointer identity) FindAVP / FindAVPs /
// FindAVPsWithPath return. spec/TreeTrace.tla compares with Tree!Want.

type treeNode struct {
	Code    int        `json:"code"`
	Grouped bool       `json:"grouped"`
	Kids    []treeNode `json:"kids"`
}
type findCase struct {
	Tree []treeNode `json:"tree"`
}
type findQuery struct {
	Mode   string  `json:"mode"`
	Codes  []int   `json:"codes"`
	ByName bool    `json:"byname"`
	Res    [][]int `json:"res"`
	Err    bool    `json:"err"`
	Perr   string  `json:"perr"`
}
type findLine struct {
	Ev   string      `json:"ev"`
	ID   int         `json:"id"`
	Tree []treeNode  `json:"tree"`
	Q    []findQuery `json:"q"`
}

var codeNames = map[int]string{9001: "V-Unsigned32", 9010: "V-OctetString", 9018: "V-Grouped", 9050: "V-Grouped2", 9008: "V-Time"}

func buildForest(ns []treeNode, prefix []int, pos map[*diam.AVP][]int, shift int) []*diam.AVP {
	var out []*diam.AVP
	for i, n := range ns {
		p := append(append([]int(nil), prefix...), i+1)
		var a *diam.AVP
		if n.Grouped {
			g := &diam.GroupedAVP{AVP: buildForest(n.Kids, p, pos, shift)}
			a = diam.NewAVP(uint32(n.Code+shift), 0x40, 0, g)
		} else if n.Code == 9010 {
			a = diam.NewAVP(uint32(n.Code+shift), 0x40, 0, datatype.OctetString("x"))
		} else {
			a = diam.NewAVP(uint32(n.Code+shift), 0x40, 0, datatype.Unsigned32(7))
		}
		pos[a] = p
		out = append(out, a)
	}
	return out
}

func fixTree(ns []treeNode) []treeNode {
	if ns == nil {
		return []treeNode{}
	}
	for i := range ns {
		ns[i].Kids = fixTree(ns[i].Kids)
	}
	return ns
}

func runFind(id int, c *findCase, dp *dict.Parser, shift int) findLine {
	c.Tree = fixTree(c.Tree)
	l := findLine{Ev: "find", ID: id, Tree: c.Tree, Q: []findQuery{}}
	pos := map[*diam.AVP][]int{}
	m := diam.NewMessage(abs.VCmd, 0x80, abs.VApp, 1, 2, dp)
	for _, a := range buildForest(c.Tree, nil, pos, shift) {
		m.AddAVP(a)
	}
	where := func(as []*diam.AVP) [][]int {
		r := [][]int{}
		for _, a := range as {
			if p, ok := pos[a]; ok {
				r = append(r, p)
			} else {
				r = append(r, []int{-1}) // not a node of the message
			}
		}
		return r
	}
	key := func(code int, byname bool) interface{} {
		if byname {
			return codeNames[code]
		}
		return uint32(code + shift)
	}
	codes := []int{9001, 9010, 9018, 9050, 9008}
	for _, code := range codes {
		for _, bn := range []bool{false, true} {
			q := findQuery{Mode: "first", Codes: []int{code}, ByName: bn, Res: [][]int{}}
			q.Perr = safely(func() {
				a, err := m.FindAVP(key(code, bn), dict.UndefinedVendorID)
				q.Err = err != nil
				if a != nil {
					q.Res = where([]*diam.AVP{a})
				}
			})
			l.Q = append(l.Q, q)
			q2 := findQuery{Mode: "all", Codes: []int{code}, ByName: bn, Res: [][]int{}}
			q2.Perr = safely(func() {
				as, err := m.FindAVPs(key(code, bn), dict.UndefinedVendorID)
				q2.Err = err != nil
				q2.Res = where(as)
			})
			l.Q = append(l.Q, q2)
		}
	}
	pc := []int{9001, 9010, 9018, 9050}
	var paths [][]int
	for _, a := range pc {
		paths = append(paths, []int{a})
		for _, b := range pc {
			paths = append(paths, []int{a, b})
			for _, cc := range pc {
				paths = append(paths, []int{a, b, cc})
			}
		}
	}
	paths = append(paths, []int{9008}, []int{9018, 9008}, []int{9008, 9001}, []int{9018, 9050, 9018, 9010})
	for k, p := range paths {
		q := findQuery{Mode: "path", Codes: p, ByName: k%2 == 1, Res: [][]int{}}
		q.Perr = safely(func() {
			var ip []interface{}
			for j, code := range p {
				ip = append(ip, key(code, q.ByName && j%2 == 0))
			}
			as, err := m.FindAVPsWithPath(ip, dict.UndefinedVendorID)
			q.Err = err != nil
			q.Res = where(as)
		})
		l.Q = append(l.Q, q)
	}
	for i := range l.Q {
		if l.Q[i].Perr != "" {
			l.Q[i].Err = true
			l.Q[i].Res = [][]int{{-2}}
		}
	}
	return l
}

func randTree(r *rand.Rand, depth int, budget *int) []treeNode {
	ns := []treeNode{}
	n := r.Intn(5)
	for i := 0; i < n && *budget > 0; i++ {
		*budget--
		switch r.Intn(4) {
		case 0:
			ns = append(ns, treeNode{Code: 9001, Kids: []treeNode{}})
		case 1:
			ns = append(ns, treeNode{Code: 9010, Kids: []treeNode{}})
		default:
			g := treeNode{Code: []int{9018, 9050}[r.Intn(2)], Grouped: true, Kids: []treeNode{}}
			if depth > 0 {
				g.Kids = randTree(r, depth-1, budget)
			}
			ns = append(ns, g)
		}
	}
	return ns
}

func Find(a Args) error {
	out, err := NewOut(a.Out)
	if err != nil {
		return err
	}
	defer out.Close()
	vp, err := abs.NewVParser(a.Repo)
	if err != nil {
		return err
	}
	vp2, err := abs.NewVParserShift(a.Repo, 300)
	if err != nil {
		return err
	}
	id := 0
	if a.Cases != "" {
		err = ReadLines(a.Cases, func(line []byte) error {
			var c findCase
			if err := json.Unmarshal(line, &c); err != nil {
				return err
			}
			id++
			out.Emit(runFind(id, &c, vp, 0))
			if id%4 == 0 {
				// the same names under a dictionary that maps them to other codes
				out.Emit(runFind(id, &c, vp2, 300))
			}
			return nil
		})
		if err != nil {
			return err
		}
	}
	r := rand.New(rand.NewSource(a.Seed))
	for i := 0; i < a.N; i++ {
		budget := 10 + r.Intn(190)
		c := findCase{Tree: randTree(r, 6, &budget)}
		id++
		out.Emit(runFind(id, &c, vp, 0))
		out.Emit(runFind(id, &c, vp2, 300))
	}
	return nil
}
