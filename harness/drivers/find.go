package drivers

import (
	"encoding/json"
	"fmt"
	"math/rand"
	"strings"

	"verifharness/abs"

	"github.com/fiorix/go-diameter/v4/diam"
	"github.com/fiorix/go-diameter/v4/diam/datatype"
	"github.com/fiorix/go-diameter/v4/diam/dict"
)

// Find driver (C20): builds the AVP forest as a real message and records which
// nodes (by position, recovered from pointer identity) FindAVP / FindAVPs /
// FindAVPsWithPath return. spec/TreeTrace.tla compares with Tree!Want.

type treeNode struct {
	Code    int        `json:"code"`
	Grouped bool       `json:"grouped"`
	Kids    []treeNode `json:"kids"`
}
type findCase struct {
	Tree []treeNode `json:"tree"`
}
type findQuery struct {
	Mode   string  `json:"mode"`
	Codes  []int   `json:"codes"`
	ByName bool    `json:"byname"`
	Res    [][]int `json:"res"`
	Err    bool    `json:"err"`
	Perr   string  `json:"perr"`
	QV     int     `json:"qv"` // vendor id given with the query (-1: dict.UndefinedVendorID)
	DV     int     `json:"dv"` // vendor id the dictionary defines the queried name for
}
type findLine struct {
	Ev    string      `json:"ev"`
	ID    int         `json:"id"`
	Tree  []treeNode  `json:"tree"`
	Q     []findQuery `json:"q"`
	Style string      `json:"style"`
}

// 279 = Failed-AVP, a group of the BASE dictionary (its name resolves through the base, its members' names
// through the message's application)
// 9301 = "Class" as the message's application defines it (the base application defines Class as code 25)
var codeNames = map[int]string{9301: "Class", 9101: "VV-Unsigned32", 9001: "V-Unsigned32", 9010: "V-OctetString", 9018: "V-Grouped", 9050: "V-Grouped2", 9008: "V-Time", 279: "Failed-AVP"}

func wireCode(code, shift int) uint32 {
	if code < 9000 { // base dictionary codes are the same under every verification dictionary
		return uint32(code)
	}
	return uint32(code + shift)
}

// style: "complete" = every AVP built in one NewAVP call; "late" = groups are created empty and receive
// their members afterwards (GroupedAVP.AddAVP); "literal" = struct literals (no Length)
func buildForest(ns []treeNode, prefix []int, pos map[*diam.AVP][]int, shift int, style string) []*diam.AVP {
	var out []*diam.AVP
	mk := func(code uint32, d datatype.Type) *diam.AVP {
		if style == "literal" {
			return &diam.AVP{Code: code, Flags: 0x40, Data: d}
		}
		return diam.NewAVP(code, 0x40, 0, d)
	}
	for i, n := range ns {
		p := append(append([]int(nil), prefix...), i+1)
		var a *diam.AVP
		if n.Grouped {
			kids := buildForest(n.Kids, p, pos, shift, style)
			if style == "late" {
				g := &diam.GroupedAVP{}
				a = mk(wireCode(n.Code, shift), g)
				for _, k := range kids {
					g.AddAVP(k)
				}
			} else {
				a = mk(wireCode(n.Code, shift), &diam.GroupedAVP{AVP: kids})
			}
		} else if n.Code == 9101 { // the vendor-specific twin of 9001
			a = diam.NewAVP(wireCode(n.Code, shift), 0xc0, abs.VVendor, datatype.Unsigned32(7))
		} else if n.Code == 9010 || n.Code == 9301 {
			a = mk(wireCode(n.Code, shift), datatype.OctetString("x"))
		} else {
			a = mk(wireCode(n.Code, shift), datatype.Unsigned32(7))
		}
		pos[a] = p
		out = append(out, a)
	}
	return out
}

func substCode(ns []treeNode, from, to int) []treeNode {
	out := make([]treeNode, len(ns))
	for i, n := range ns {
		out[i] = n
		if n.Code == from {
			out[i].Code = to
		}
		out[i].Kids = substCode(n.Kids, from, to)
	}
	return out
}

func substGroupCode(ns []treeNode, from, to int) []treeNode {
	out := make([]treeNode, len(ns))
	for i, n := range ns {
		out[i] = n
		if n.Code == from && n.Grouped {
			out[i].Code = to
		}
		out[i].Kids = substGroupCode(n.Kids, from, to)
	}
	return out
}

func fixTree(ns []treeNode) []treeNode {
	if ns == nil {
		return []treeNode{}
	}
	for i := range ns {
		ns[i].Kids = fixTree(ns[i].Kids)
	}
	return ns
}

// reindex records the position (path of sibling indexes) of every AVP of the forest as it is now
func reindex(as []*diam.AVP, prefix []int, pos map[*diam.AVP][]int) {
	for i, a := range as {
		p := append(append([]int(nil), prefix...), i+1)
		pos[a] = p
		if g, ok := a.Data.(*diam.GroupedAVP); ok {
			reindex(g.AVP, p, pos)
		}
	}
}

func runFind(id int, c *findCase, dp *dict.Parser, shift int) []findLine {
	c.Tree = fixTree(c.Tree)
	g2 := 9050
	if id%3 == 1 {
		// the second group code is the base dictionary's Failed-AVP in every third forest
		g2 = 279
		c = &findCase{Tree: substCode(c.Tree, 9050, 279)}
	}
	u32 := 9001
	if id%5 == 2 {
		// the plain Unsigned32 is its vendor-specific twin in every fifth forest
		u32 = 9101
		c = &findCase{Tree: substCode(c.Tree, 9001, 9101)}
	}
	oct := 9010
	if id%7 == 5 {
		// the OctetString leaf is the application's own "Class" (a name the base application gives to another code)
		oct = 9301
		c = &findCase{Tree: substCode(c.Tree, 9010, 9301)}
	}
	if id%7 == 3 {
		// the second group travels under a code the dictionary gives to a non-grouped AVP (hand-built, or the
		// dictionary types that code differently for another vendor): searches follow the data, not the dictionary
		c = &findCase{Tree: substGroupCode(c.Tree, g2, 9010)}
		g2 = 9010
	}
	style := []string{"complete", "late", "literal"}[(id/3)%3]
	l := findLine{Ev: "find", ID: id, Tree: c.Tree, Q: []findQuery{}, Style: style}
	pos := map[*diam.AVP][]int{}
	m := diam.NewMessage(abs.VCmd, 0x80, abs.VApp, 1, 2, dp)
	for _, a := range buildForest(c.Tree, nil, pos, shift, style) {
		m.AddAVP(a)
	}
	where := func(as []*diam.AVP) [][]int {
		r := [][]int{}
		for _, a := range as {
			if p, ok := pos[a]; ok {
				r = append(r, p)
			} else {
				r = append(r, []int{-1}) // not a node of the message
			}
		}
		return r
	}
	key := func(code int, byname bool) interface{} {
		if byname {
			return codeNames[code]
		}
		return wireCode(code, shift)
	}
	collect := func() {
		codes := []int{u32, oct, 9018, g2, 9008}
		dv := func(code int) int {
			if code == 9101 {
				return abs.VVendor
			}
			return 0
		}
		// by name together with a vendor id: the vendor the dictionary defines the name for, and another one
		for _, code := range codes {
			for _, other := range []bool{false, true} {
				qv := dv(code)
				if other {
					qv = abs.VVendor - qv
				}
				q := findQuery{Mode: "first", Codes: []int{code}, ByName: true, Res: [][]int{}, QV: qv, DV: dv(code)}
				q.Perr = safely(func() {
					a, err := m.FindAVP(codeNames[code], uint32(qv))
					q.Err = err != nil
					if a != nil {
						q.Res = where([]*diam.AVP{a})
					}
				})
				l.Q = append(l.Q, q)
				q2 := findQuery{Mode: "all", Codes: []int{code}, ByName: true, Res: [][]int{}, QV: qv, DV: dv(code)}
				q2.Perr = safely(func() {
					as, err := m.FindAVPs(codeNames[code], uint32(qv))
					q2.Err = err != nil
					q2.Res = where(as)
				})
				l.Q = append(l.Q, q2)
				q3 := findQuery{Mode: "path", Codes: []int{code}, ByName: true, Res: [][]int{}, QV: qv, DV: dv(code)}
				q3.Perr = safely(func() {
					as, err := m.FindAVPsWithPath([]interface{}{codeNames[code]}, uint32(qv))
					q3.Err = err != nil
					q3.Res = where(as)
				})
				l.Q = append(l.Q, q3)
			}
		}
		for _, code := range codes {
			for _, bn := range []bool{false, true} {
				q := findQuery{Mode: "first", Codes: []int{code}, ByName: bn, Res: [][]int{}, QV: -1, DV: dv(code)}
				q.Perr = safely(func() {
					a, err := m.FindAVP(key(code, bn), dict.UndefinedVendorID)
					q.Err = err != nil
					if a != nil {
						q.Res = where([]*diam.AVP{a})
					}
				})
				l.Q = append(l.Q, q)
				q2 := findQuery{Mode: "all", Codes: []int{code}, ByName: bn, Res: [][]int{}, QV: -1, DV: dv(code)}
				q2.Perr = safely(func() {
					as, err := m.FindAVPs(key(code, bn), dict.UndefinedVendorID)
					q2.Err = err != nil
					q2.Res = where(as)
				})
				l.Q = append(l.Q, q2)
			}
		}
		pc := []int{u32, oct, 9018, g2}
		var paths [][]int
		for _, a := range pc {
			paths = append(paths, []int{a})
			for _, b := range pc {
				paths = append(paths, []int{a, b})
				for _, cc := range pc {
					paths = append(paths, []int{a, b, cc})
				}
			}
		}
		paths = append(paths, []int{9008}, []int{9018, 9008}, []int{9008, u32}, []int{9018, g2, 9018, oct})
		for k, p := range paths {
			q := findQuery{Mode: "path", Codes: p, ByName: k%2 == 1, Res: [][]int{}, QV: -1}
			q.Perr = safely(func() {
				var ip []interface{}
				for j, code := range p {
					ip = append(ip, key(code, q.ByName && (j%2 == 0 || k%4 == 3))) // every other named path: all elements by name
				}
				as, err := m.FindAVPsWithPath(ip, dict.UndefinedVendorID)
				q.Err = err != nil
				q.Res = where(as)
			})
			l.Q = append(l.Q, q)
		}
		for i := range l.Q {
			if l.Q[i].Perr != "" {
				l.Q[i].Err = true
				l.Q[i].Res = [][]int{{-2}}
			}
		}
	}
	collect()
	out := []findLine{l}
	if len(c.Tree) >= 2 && id%4 == 0 {
		// the caller edits the message it searched (drops its first AVP) and searches again: every search
		// is about the message as it is now, nothing found earlier is remembered
		m.AVP = m.AVP[1:]
		for k := range pos {
			delete(pos, k)
		}
		reindex(m.AVP, nil, pos)
		l2 := l
		l2.Tree = c.Tree[1:]
		l = l2
		l.Q = []findQuery{}
		collect()
		out = append(out, l)
	}
	return out
}

func randTree(r *rand.Rand, depth int, budget *int) []treeNode {
	ns := []treeNode{}
	n := r.Intn(5)
	for i := 0; i < n && *budget > 0; i++ {
		*budget--
		switch r.Intn(4) {
		case 0:
			ns = append(ns, treeNode{Code: 9001, Kids: []treeNode{}})
		case 1:
			ns = append(ns, treeNode{Code: 9010, Kids: []treeNode{}})
		default:
			g := treeNode{Code: []int{9018, 9050}[r.Intn(2)], Grouped: true, Kids: []treeNode{}}
			if depth > 0 {
				g.Kids = randTree(r, depth-1, budget)
			}
			ns = append(ns, g)
		}
	}
	return ns
}

func Find(a Args) error {
	out, err := NewOut(a.Out)
	if err != nil {
		return err
	}
	defer out.Close()
	vp, err := abs.NewVParser(a.Repo)
	if err != nil {
		return err
	}
	vp2, err := abs.NewVParserShift(a.Repo, 300)
	if err != nil {
		return err
	}
	for k, p := range []*dict.Parser{vp, vp2} {
		x := fmt.Sprintf(`<?xml version="1.0" encoding="UTF-8"?><diameter><application id="%d" type="auth" name="Verif"><avp name="Class" code="%d" must="M" may="P" must-not="V" may-encrypt="-"><data type="OctetString"/></avp></application></diameter>`, abs.VApp, 9301+300*k)
		if err := p.Load(strings.NewReader(x)); err != nil {
			return err
		}
	}
	id := 0
	if a.Cases != "" {
		err = ReadLines(a.Cases, func(line []byte) error {
			var c findCase
			if err := json.Unmarshal(line, &c); err != nil {
				return err
			}
			id++
			for _, fl := range runFind(id, &c, vp, 0) {
				out.Emit(fl)
			}
			if id%4 == 0 {
				// the same names under a dictionary that maps them to other codes
				for _, fl := range runFind(id, &c, vp2, 300) {
					out.Emit(fl)
				}
			}
			return nil
		})
		if err != nil {
			return err
		}
	}
	r := rand.New(rand.NewSource(a.Seed))
	for i := 0; i < a.N; i++ {
		budget := 10 + r.Intn(190)
		c := findCase{Tree: randTree(r, 6, &budget)}
		id++
		for _, fl := range runFind(id, &c, vp, 0) {
			out.Emit(fl)
		}
		for _, fl := range runFind(id, &c, vp2, 300) {
			out.Emit(fl)
		}
	}
	return nil
}
