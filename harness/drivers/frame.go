package drivers

import (
	"bytes"
	"encoding/json"
	"math/rand"

	"verifharness/abs"

	"github.com/fiorix/go-diameter/v4/diam"
	"github.com/fiorix/go-diameter/v4/diam/datatype"
	"github.com/fiorix/go-diameter/v4/diam/dict"
)

// Frame driver (C04): feeds bodies assembled from arbitrary records to the real
// decoder (through ReadMessage and through DecodeGrouped) and records the AVP
// list it reports. spec/FrameTrace.tla compares with Wire!Frame.

type frameCase struct {
	Body []int  `json:"body"`
	Note string `json:"note"`
}

type frameRec struct {
	Code   []int      `json:"code"`
	Flags  int        `json:"flags"`
	Vendor []int      `json:"vendor"`
	Len    int        `json:"len"`
	Kind   string     `json:"kind"`
	Raw    []int      `json:"raw"`
	Kids   []frameRec `json:"kids"`
}

type frameLine struct {
	Ev    string     `json:"ev"`
	ID    int        `json:"id"`
	Entry string     `json:"entry"`
	Note  string     `json:"note"`
	Body  []int      `json:"body"`
	Ok    bool       `json:"ok"`
	Err   string     `json:"err"`
	Recs  []frameRec `json:"recs"`
}

func dumpRecs(as []*diam.AVP) []frameRec {
	out := []frameRec{}
	for _, a := range as {
		r := frameRec{Code: abs.B4(a.Code), Flags: int(a.Flags), Vendor: abs.B4(a.VendorID), Len: a.Length, Kind: abs.KindOf(a.Data), Raw: []int{}, Kids: []frameRec{}}
		switch v := a.Data.(type) {
		case *diam.GroupedAVP:
			r.Kids = dumpRecs(v.AVP)
		case datatype.Address:
			r.Raw = abs.Ints([]byte(v))
		case nil:
		default:
			r.Raw = abs.Ints(a.Data.Serialize())
		}
		out = append(out, r)
	}
	return out
}

func msgBytes(body []byte, cmd, app uint32, flags uint8) []byte {
	h := diam.Header{Version: 1, MessageLength: uint32(diam.HeaderLength + len(body)), CommandFlags: flags, CommandCode: cmd, ApplicationID: app, HopByHopID: 1, EndToEndID: 2}
	return append(h.Serialize(), body...)
}

func runFrame(id int, c *frameCase, dp *dict.Parser, out *Out) {
	body := abs.Bytes(c.Body)
	l := frameLine{Ev: "frame", ID: id, Entry: "msg", Note: c.Note, Body: c.Body, Recs: []frameRec{}}
	p := safely(func() {
		m, err := diam.ReadMessage(bytes.NewReader(msgBytes(body, abs.VCmd, abs.VApp, 0x80)), dp)
		if err != nil {
			l.Err = err.Error()
			return
		}
		l.Ok = true
		l.Recs = dumpRecs(m.AVP)
	})
	if p != "" {
		l.Err, l.Ok, l.Recs = p, false, []frameRec{}
	}
	out.Emit(l)
	g := frameLine{Ev: "frame", ID: id, Entry: "grouped", Note: c.Note, Body: c.Body, Recs: []frameRec{}}
	p = safely(func() {
		cp := append([]byte(nil), body...)
		ga, err := diam.DecodeGrouped(datatype.Grouped(cp), abs.VApp, dp)
		if err != nil {
			g.Err = err.Error()
			return
		}
		g.Ok = true
		g.Recs = dumpRecs(ga.AVP)
	})
	if p != "" {
		g.Err, g.Ok, g.Recs = p, false, []frameRec{}
	}
	out.Emit(g)
}

func rawAVP(code uint32, flags uint8, vendor uint32, declared int, payload []byte, pad bool) []byte {
	b := []byte{byte(code >> 24), byte(code >> 16), byte(code >> 8), byte(code), flags, byte(declared >> 16), byte(declared >> 8), byte(declared)}
	if flags&0x80 != 0 {
		b = append(b, byte(vendor>>24), byte(vendor>>16), byte(vendor>>8), byte(vendor))
	}
	b = append(b, payload...)
	if pad {
		for len(b)%4 != 0 {
			b = append(b, 0)
		}
	}
	return b
}

var widths = map[string]int{"u32": 4, "i32": 4, "enum": 4, "f32": 4, "u64": 8, "i64": 8, "f64": 8, "time": 4, "ipv4": 4, "ipv6": 16}

// randBody assembles a random record sequence; lying lengths and smuggled headers included.
func randBody(r *rand.Rand, defs []abs.Def, depth int, budget *int) []byte {
	var b []byte
	n := 1 + r.Intn(5)
	for i := 0; i < n && *budget > 0; i++ {
		*budget--
		d := defs[r.Intn(len(defs))]
		flags := uint8([]int{0, 64, 32}[r.Intn(3)])
		if d.Vendor != 0 {
			flags |= 0x80
		}
		var payload []byte
		switch {
		case d.Kind == "grouped":
			if depth > 0 {
				payload = randBody(r, defs, depth-1, budget)
			}
		case r.Intn(3) == 0: // a payload that itself looks like AVPs
			payload = rawAVP(9001, 64, 0, 12, []byte{0, 0, 0, byte(r.Intn(256))}, true)
			if r.Intn(2) == 0 {
				payload = append(make([]byte, widths[d.Kind]), payload...)
			}
			payload = payload[:r.Intn(len(payload)+1)]
		default:
			w, fixed := widths[d.Kind]
			ln := r.Intn(25)
			if fixed && r.Intn(2) == 0 {
				ln = w
			}
			payload = make([]byte, ln)
			r.Read(payload)
			if d.Kind == "addr" && ln >= 2 && r.Intn(2) == 0 {
				payload[0] = 0
				payload[1] = byte([]int{1, 2, 8, 0}[r.Intn(4)])
			}
		}
		hl := 8
		if flags&0x80 != 0 {
			hl = 12
		}
		declared := hl + len(payload)
		if r.Intn(40) == 0 {
			declared = []int{0, 1, 7, 8, 11, declared + 1, declared - 1, declared + 4, 1 << 20}[r.Intn(9)]
			if declared < 0 {
				declared = 0
			}
		}
		code := d.Code
		if r.Intn(15) == 0 {
			code = 7000 + uint32(r.Intn(50))
		}
		b = append(b, rawAVP(code, flags, d.Vendor, declared, payload, true)...)
	}
	return b
}

func Frame(a Args) error {
	out, err := NewOut(a.Out)
	if err != nil {
		return err
	}
	defer out.Close()
	vp, err := abs.NewVParser(a.Repo)
	if err != nil {
		return err
	}
	id := 0
	if a.Cases != "" {
		err = ReadLines(a.Cases, func(line []byte) error {
			var c frameCase
			if err := json.Unmarshal(line, &c); err != nil {
				return err
			}
			id++
			runFrame(id, &c, vp, out)
			return nil
		})
		if err != nil {
			return err
		}
	}
	r := rand.New(rand.NewSource(a.Seed))
	defs := abs.VDefs()
	for i := 0; i < a.N; i++ {
		budget := 40
		body := randBody(r, defs, 4, &budget)
		id++
		runFrame(id, &frameCase{Body: abs.Ints(body), Note: "rand"}, vp, out)
	}
	return nil
}
