package drivers

import (
	"encoding/json"
	"time"

	"verifharness/memnet"

	"github.com/fiorix/go-diameter/v4/diam"
	"github.com/fiorix/go-diameter/v4/diam/avp"
	"github.com/fiorix/go-diameter/v4/diam/datatype"
	"github.com/fiorix/go-diameter/v4/diam/dict"
	"github.com/fiorix/go-diameter/v4/diam/sm"
)

// Gate driver (C10): replays histories of peer messages against a real state machine
// (server side: Server.Serve on memnet; client side: sm.Client.NewConn) and records,
// for every message, which instrumented application handlers fired, which answers were
// written and whether the transport was closed. spec/GateTrace.tla decides.

type gateCase struct {
	Side string   `json:"side"`
	Cfg  string   `json:"cfg"`
	Hist []string `json:"hist"`
}
type gateWrote struct {
	Cmd int `json:"cmd"`
	RC  int `json:"rc"`
}
type gateStep struct {
	Fired  []int       `json:"fired"`
	Wrote  []gateWrote `json:"wrote"`
	Closed bool        `json:"closed"`
}
type gateLine struct {
	Ev   string     `json:"ev"`
	ID   int        `json:"id"`
	Side string     `json:"side"`
	Cfg  string     `json:"cfg"`
	Hist []string   `json:"hist"`
	Obs  []gateStep `json:"obs"`
	Note string     `json:"note"`
}

var hidOf = map[string]int{"CCR": 1, "CCA": 2, "ULR": 3, "ALL": 4, "DWA": 5, "oCER": 91, "oCEA": 92, "oDWR": 93, "oiCER": 94, "oiCEA": 95, "oiDWR": 96}

func registerApp(s *smServer, cfg string) {
	m := s.SM
	switch cfg {
	case "onlyall":
	case "idx":
		m.HandleIdx(diam.CommandIndex{AppID: 4, Code: 272, Request: true}, s.record("CCR"))
		m.HandleIdx(diam.CommandIndex{AppID: 4, Code: 272, Request: false}, s.record("CCA"))
		m.HandleIdx(diam.CommandIndex{AppID: 16777251, Code: 316, Request: true}, s.record("ULR"))
	default:
		m.HandleFunc("CCR", s.record("CCR"))
		m.Handle("CCA", s.record("CCA"))
		m.HandleIdx(diam.CommandIndex{AppID: 16777251, Code: 316, Request: true}, s.record("ULR"))
		m.HandleFunc("DWA", s.record("DWA"))
	}
	if cfg == "idx" {
		m.HandleIdx(diam.ALL_CMD_INDEX, s.record("ALL"))
	} else if cfg != "noall" {
		m.HandleFunc("ALL", s.record("ALL"))
	}
	// attempted overrides of the built-in processing: must be refused
	m.HandleFunc("CER", s.record("oCER"))
	m.HandleFunc("CEA", s.record("oCEA"))
	m.HandleFunc("DWR", s.record("oDWR"))
	m.HandleIdx(diam.CommandIndex{AppID: 0, Code: 257, Request: true}, s.record("oiCER"))
	m.HandleIdx(diam.CommandIndex{AppID: 0, Code: 257, Request: false}, s.record("oiCEA"))
	m.HandleIdx(diam.CommandIndex{AppID: 0, Code: 280, Request: true}, s.record("oiDWR"))
}

func buildCEA(hbh, e2e uint32, rc uint32) []byte {
	m := diam.NewMessage(diam.CapabilitiesExchange, 0, 0, hbh, e2e, dict.Default)
	m.Header.HopByHopID, m.Header.EndToEndID = hbh, e2e
	m.NewAVP(avp.ResultCode, avp.Mbit, 0, datatype.Unsigned32(rc))
	m.NewAVP(avp.OriginHost, avp.Mbit, 0, datatype.DiameterIdentity(peerHost))
	m.NewAVP(avp.OriginRealm, avp.Mbit, 0, datatype.DiameterIdentity(peerRealm))
	m.NewAVP(avp.HostIPAddress, avp.Mbit, 0, datatype.Address([]byte{10, 0, 0, 2}))
	m.NewAVP(avp.VendorID, avp.Mbit, 0, datatype.Unsigned32(99))
	m.NewAVP(avp.ProductName, 0, 0, datatype.UTF8String("peer"))
	if rc == 2001 {
		m.NewAVP(avp.AuthApplicationID, avp.Mbit, 0, datatype.Unsigned32(4))
	}
	b, _ := m.Serialize()
	return b
}

func gateMsg(name string, hbh uint32) []byte {
	switch name {
	case "cer_ok", "cer_ok_wfail":
		return buildCER(goodCER(hbh, hbh), dict.Default)
	case "cer_bad":
		c := goodCER(hbh, hbh)
		c.Items = []appItem{{T: "auth", ID: []int{0, 0, 48, 57}}}
		return buildCER(c, dict.Default)
	case "cer_noid":
		c := goodCER(hbh, hbh)
		c.OH = "absent"
		return buildCER(c, dict.Default)
	case "cer_sec":
		c := goodCER(hbh, hbh)
		c.Inband = "nonzero"
		return buildCER(c, dict.Default)
	case "cer_sec_ccr":
		return append(gateMsg("cer_sec", hbh), appMsg(272, 4, true, hbh+1)...)
	case "dwr":
		return buildDWR(hbh, hbh, false, peerHost, peerRealm)
	case "ccr":
		return appMsg(272, 4, true, hbh)
	case "cca":
		return appMsg(272, 4, false, hbh)
	case "ulr":
		return appMsg(316, 16777251, true, hbh)
	case "rar":
		return appMsg(258, 0, true, hbh)
	case "dwa":
		return appMsg(280, 0, false, hbh)
	case "ccr_e":
		b := appMsg(272, 4, true, hbh)
		b[4] |= 0x20
		return b
	case "raa_e":
		b := appMsg(258, 0, false, hbh)
		b[4] |= 0x20
		return b
	case "cea_ok":
		return buildCEA(hbh, hbh, 2001)
	case "cea_fail":
		return buildCEA(hbh, hbh, 5010)
	}
	return nil
}

func runGate(id int, c *gateCase) gateLine {
	l := gateLine{Ev: "gate", ID: id, Side: c.Side, Cfg: c.Cfg, Hist: c.Hist, Obs: []gateStep{}}
	var s *smServer
	outOff := 0
	var cerHbH uint32 = 1
	if c.Side == "server" {
		local := ""
		if c.Cfg == "noaddr" {
			local = "pipe" // no numeric port: the state machine cannot derive a Host-IP-Address
		}
		s = newSMServer(srvSettings, local, func(s *smServer) { registerApp(s, c.Cfg) })
		defer s.shutdown()
	} else {
		s = &smServer{SM: sm.New(srvSettings), Conn: memnet.NewConn(), ch: make(chan struct{}, 64), stop: make(chan struct{})}
		registerApp(s, c.Cfg)
		go func() {
			for {
				select {
				case <-s.SM.ErrorReports():
				case <-s.stop:
					return
				}
			}
		}()
		defer s.shutdown()
		cli := &sm.Client{Handler: s.SM, MaxRetransmits: 0, RetransmitInterval: 400 * time.Millisecond,
			AuthApplicationID: []*diam.AVP{diam.NewAVP(avp.AuthApplicationID, avp.Mbit, 0, datatype.Unsigned32(4))}}
		go cli.NewConn(s.Conn, "10.0.0.2:3868")
		if !s.Conn.WaitOut(20, 3*time.Second) {
			l.Note = "no CER written"
			return l
		}
		s.Conn.WaitWrites(1, time.Second)
		msgs, _ := splitMsgs(s.Conn.Out())
		if len(msgs) != 1 || msgs[0].Cmd != 257 {
			l.Note = "unexpected first output"
			return l
		}
		cerHbH = msgs[0].HbH
		outOff = len(s.Conn.Out())
		s.Conn.WaitReaderBlocked(2 * time.Second)
	}
	nf := 0
	for k, name := range c.Hist {
		hbh := uint32(100 + k)
		if name == "cea_ok" || name == "cea_fail" {
			hbh = cerHbH
		}
		if !s.Conn.Closed() {
			if name == "cer_ok_wfail" {
				// the transport refuses the next write (permanent error, nothing accepted)
				s.Conn.OnWrite = func(int, []byte) memnet.WriteOutcome {
					return memnet.WriteOutcome{N: 0, Err: &memnet.NetErr{Msg: "scripted write failure"}}
				}
			} else {
				s.Conn.OnWrite = nil
			}
			s.Conn.Feed(gateMsg(name, hbh))
			s.Conn.WaitReaderBlocked(5 * time.Second)
			if name == "cea_fail" {
				// the dialling goroutine, not the reader, closes the transport after a failed CEA
				s.Conn.WaitClosed(3 * time.Second)
			}
		}
		st := gateStep{Fired: []int{}, Wrote: []gateWrote{}}
		f := s.fired()
		for _, r := range f[nf:] {
			st.Fired = append(st.Fired, hidOf[r.Key])
		}
		nf = len(f)
		out := s.Conn.Out()
		msgs, rest := splitMsgs(out[outOff:])
		for _, m := range msgs {
			rc, _ := m.u32(268)
			st.Wrote = append(st.Wrote, gateWrote{Cmd: int(m.Cmd), RC: int(rc)})
		}
		outOff = len(out) - len(rest)
		st.Closed = s.Conn.Closed()
		l.Obs = append(l.Obs, st)
	}
	return l
}

func Gate(a Args) error {
	out, err := NewOut(a.Out)
	if err != nil {
		return err
	}
	defer out.Close()
	id := 0
	return ReadLines(a.Cases, func(line []byte) error {
		var c gateCase
		if err := json.Unmarshal(line, &c); err != nil {
			return err
		}
		id++
		out.Emit(runGate(id, &c))
		return nil
	})
}
