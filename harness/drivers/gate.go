package drivers

import (
	"bytes"
	"context"
	"crypto/tls"
	"encoding/json"
	"net"
	"sync"
	"time"

	"verifharness/memnet"

	"github.com/fiorix/go-diameter/v4/diam"
	"github.com/fiorix/go-diameter/v4/diam/avp"
	"github.com/fiorix/go-diameter/v4/diam/datatype"
	"github.com/fiorix/go-diameter/v4/diam/dict"
	"github.com/fiorix/go-diameter/v4/diam/sm"
)

// Gate driver (C10): replays histories of peer messages against a real state machine
// (server side: Server.Serve on memnet; client side: sm.Client.NewConn) and records,
// for every message, which instrumented application handlers fired, which answers were
// written and whether the transport was closed. spec/GateTrace.tla decides.

type gateCase struct {
	Side string   `json:"side"`
	Cfg  string   `json:"cfg"`
	Hist []string `json:"hist"`
	Note string   `json:"note"` // "notify": the HandshakeNotify scenario (set when a recorded scenario is re-run)
}
type gateWrote struct {
	Cmd int `json:"cmd"`
	RC  int `json:"rc"`
}
type gateStep struct {
	Fired  []int       `json:"fired"`
	Wrote  []gateWrote `json:"wrote"`
	Closed bool        `json:"closed"`
}
type gateLine struct {
	Ev   string     `json:"ev"`
	ID   int        `json:"id"`
	Side string     `json:"side"`
	Cfg  string     `json:"cfg"`
	Hist []string   `json:"hist"`
	Obs  []gateStep `json:"obs"`
	Note string     `json:"note"`
}

var hidOf = map[string]int{"CCR": 1, "CCA": 2, "ULR": 3, "ALL": 4, "DWA": 5, "oCER": 91, "oCEA": 92, "oDWR": 93, "oiCER": 94, "oiCEA": 95, "oiDWR": 96}

func registerApp(s *smServer, cfg string) {
	m := s.SM
	switch cfg {
	case "onlyall":
	case "idx":
		m.HandleIdx(diam.CommandIndex{AppID: 4, Code: 272, Request: true}, s.record("CCR"))
		m.HandleIdx(diam.CommandIndex{AppID: 4, Code: 272, Request: false}, s.record("CCA"))
		m.HandleIdx(diam.CommandIndex{AppID: 16777251, Code: 316, Request: true}, s.record("ULR"))
		m.HandleIdx(diam.CommandIndex{AppID: 0, Code: 280, Request: false}, s.record("DWA"))
	default:
		m.HandleFunc("CCR", s.record("CCR"))
		m.Handle("CCA", s.record("CCA"))
		m.HandleIdx(diam.CommandIndex{AppID: 16777251, Code: 316, Request: true}, s.record("ULR"))
		m.HandleFunc("DWA", s.record("DWA"))
	}
	if cfg == "idx" {
		m.HandleIdx(diam.ALL_CMD_INDEX, s.record("ALL"))
	} else if cfg != "noall" {
		m.HandleFunc("ALL", s.record("ALL"))
	}
	// attempted overrides of the built-in processing: must be refused
	m.HandleFunc("CER", s.record("oCER"))
	m.HandleFunc("CEA", s.record("oCEA"))
	m.HandleFunc("DWR", s.record("oDWR"))
	m.HandleIdx(diam.CommandIndex{AppID: 0, Code: 257, Request: true}, s.record("oiCER"))
	m.HandleIdx(diam.CommandIndex{AppID: 0, Code: 257, Request: false}, s.record("oiCEA"))
	m.HandleIdx(diam.CommandIndex{AppID: 0, Code: 280, Request: true}, s.record("oiDWR"))
}

func buildCEA(hbh, e2e uint32, rc uint32) []byte {
	m := diam.NewMessage(diam.CapabilitiesExchange, 0, 0, hbh, e2e, dict.Default)
	m.Header.HopByHopID, m.Header.EndToEndID = hbh, e2e
	m.NewAVP(avp.ResultCode, avp.Mbit, 0, datatype.Unsigned32(rc))
	m.NewAVP(avp.OriginHost, avp.Mbit, 0, datatype.DiameterIdentity(peerHost))
	m.NewAVP(avp.OriginRealm, avp.Mbit, 0, datatype.DiameterIdentity(peerRealm))
	m.NewAVP(avp.HostIPAddress, avp.Mbit, 0, datatype.Address([]byte{10, 0, 0, 2}))
	m.NewAVP(avp.VendorID, avp.Mbit, 0, datatype.Unsigned32(99))
	m.NewAVP(avp.ProductName, 0, 0, datatype.UTF8String("peer"))
	if rc/1000 == 2 { // (2002 too: the only thing wrong with that CEA is its result code)
		m.NewAVP(avp.AuthApplicationID, avp.Mbit, 0, datatype.Unsigned32(4))
	}
	b, _ := m.Serialize()
	return b
}

func gateMsg(name string, hbh uint32) []byte {
	switch name {
	case "cer_ok", "cer_ok_wfail":
		return buildCER(goodCER(hbh, hbh), dict.Default)
	case "cer_bad":
		c := goodCER(hbh, hbh)
		c.Items = []appItem{{T: "auth", ID: []int{0, 0, 48, 57}}}
		return buildCER(c, dict.Default)
	case "cer_bad_nom": // no common application, and the application AVP is not marked mandatory
		c := goodCER(hbh, hbh)
		c.Items = []appItem{{T: "auth", ID: []int{0, 0, 48, 57}}}
		c.NoM = true
		return buildCER(c, dict.Default)
	case "cea_2002": // a CEA with a success-class result code that is not DIAMETER_SUCCESS
		return buildCEA(hbh, hbh, 2002)
	case "cer_noid":
		c := goodCER(hbh, hbh)
		c.OH = "absent"
		return buildCER(c, dict.Default)
	case "cer_sec":
		c := goodCER(hbh, hbh)
		c.Inband = "nonzero"
		return buildCER(c, dict.Default)
	case "cer_sec_ccr":
		return append(gateMsg("cer_sec", hbh), appMsg(272, 4, true, hbh+1)...)
	case "dwr":
		return buildDWR(hbh, hbh, false, peerHost, peerRealm)
	case "ccr":
		return appMsg(272, 4, true, hbh)
	case "cca":
		return appMsg(272, 4, false, hbh)
	case "ulr":
		return appMsg(316, 16777251, true, hbh)
	case "rar":
		return appMsg(258, 0, true, hbh)
	case "dwa":
		return appMsg(280, 0, false, hbh)
	case "ccr_e":
		b := appMsg(272, 4, true, hbh)
		b[4] |= 0x20
		return b
	case "raa_e":
		b := appMsg(258, 0, false, hbh)
		b[4] |= 0x20
		return b
	case "cea_ok":
		return buildCEA(hbh, hbh, 2001)
	case "cea_fail":
		return buildCEA(hbh, hbh, 5010)
	}
	return nil
}

// gateExpired counts bounded waits for a close that ran out (per process)
var gateExpired int

func runGate(id int, c *gateCase) gateLine {
	l := gateLine{Ev: "gate", ID: id, Side: c.Side, Cfg: c.Cfg, Hist: c.Hist, Obs: []gateStep{}}
	var s *smServer
	outOff := 0
	var cerHbH uint32 = 1
	var pcA *memnet.Conn
	var cerA uint32
	if c.Side == "server" {
		local := ""
		if c.Cfg == "noaddr" {
			local = "pipe" // no numeric port: the state machine cannot derive a Host-IP-Address
		}
		s = newSMServer(srvSettings, local, func(s *smServer) { registerApp(s, c.Cfg) })
		defer s.shutdown()
	} else {
		s = &smServer{SM: sm.New(srvSettings), Conn: memnet.NewConn(), ch: make(chan struct{}, 64), stop: make(chan struct{})}
		registerApp(s, c.Cfg)
		go func() {
			for {
				select {
				case <-s.SM.ErrorReports():
				case <-s.stop:
					return
				}
			}
		}()
		defer s.shutdown()
		cli := &sm.Client{Handler: s.SM, MaxRetransmits: 0, RetransmitInterval: 400 * time.Millisecond,
			AuthApplicationID: []*diam.AVP{diam.NewAVP(avp.AuthApplicationID, avp.Mbit, 0, datatype.Unsigned32(4))}}
		for _, h := range c.Hist {
			if h == "dup_other" && pcA == nil {
				// another connection of the same Client, established before the one under observation is dialled
				pcA = memnet.NewConn()
				pcA.SetLocal("10.0.0.9:3868")
				pcA.OnWrite = func(k int, b []byte) memnet.WriteOutcome {
					if ms, _ := splitMsgs(b); len(ms) == 1 && ms[0].Cmd == 257 {
						cerA = ms[0].HbH
						go pcA.Feed(buildCEA(ms[0].HbH, ms[0].E2E, 2001))
					}
					return memnet.WriteOutcome{N: -1}
				}
				if cA, err := cli.NewConn(pcA, "10.0.0.2:3868"); err != nil || cA == nil {
					// (only a broken library gets here; the history is run without the other connection and
					// judged on what the connection under observation does)
					pcA.Close()
					pcA = nil
					break
				}
				pcA.WaitReaderBlocked(time.Second)
				defer pcA.Close()
			}
		}
		go cli.NewConn(s.Conn, "10.0.0.2:3868")
		if !s.Conn.WaitOut(20, 3*time.Second) {
			l.Note = "no CER written"
			return l
		}
		s.Conn.WaitWrites(1, time.Second)
		msgs, _ := splitMsgs(s.Conn.Out())
		if len(msgs) != 1 || msgs[0].Cmd != 257 {
			l.Note = "unexpected first output"
			return l
		}
		cerHbH = msgs[0].HbH
		outOff = len(s.Conn.Out())
		s.Conn.WaitReaderBlocked(2 * time.Second)
	}
	nf := 0
	for k, name := range c.Hist {
		hbh := uint32(100 + k)
		if name == "cea_ok" || name == "cea_fail" || name == "cea_2002" {
			hbh = cerHbH
		}
		if name == "dup_other" && pcA != nil {
			pcA.Feed(buildCEA(cerA, cerA, 2001))
			pcA.WaitReaderBlocked(time.Second)
			time.Sleep(2 * time.Millisecond) // (a dial wrongly released by it needs a moment to return)
		} else if !s.Conn.Closed() {
			if name == "cer_ok_wfail" {
				// the transport refuses the next write (permanent error, nothing accepted)
				s.Conn.OnWrite = func(int, []byte) memnet.WriteOutcome {
					return memnet.WriteOutcome{N: 0, Err: &memnet.NetErr{Msg: "scripted write failure"}}
				}
			} else {
				s.Conn.OnWrite = nil
			}
			s.Conn.Feed(gateMsg(name, hbh))
			s.Conn.WaitReaderBlocked(5 * time.Second)
			if name == "cea_fail" || name == "cea_2002" {
				// the dialling goroutine, not the reader, closes the transport after a failed CEA
				d := 3 * time.Second
				if gateExpired >= 10 { // a library that keeps such connections open has been found out: do not wait on
					d = 20 * time.Millisecond
				}
				if !s.Conn.WaitClosed(d) {
					gateExpired++
				}
			}
		}
		st := gateStep{Fired: []int{}, Wrote: []gateWrote{}}
		f := s.fired()
		for _, r := range f[nf:] {
			st.Fired = append(st.Fired, hidOf[r.Key])
		}
		nf = len(f)
		out := s.Conn.Out()
		msgs, rest := splitMsgs(out[outOff:])
		for _, m := range msgs {
			rc, _ := m.u32(268)
			st.Wrote = append(st.Wrote, gateWrote{Cmd: int(m.Cmd), RC: int(rc)})
		}
		outOff = len(out) - len(rest)
		st.Closed = s.Conn.Closed()
		l.Obs = append(l.Obs, st)
	}
	return l
}

func Gate(a Args) error {
	out, err := NewOut(a.Out)
	if err != nil {
		return err
	}
	defer out.Close()
	id := 0
	return ReadLines(a.Cases, func(line []byte) error {
		var c gateCase
		if err := json.Unmarshal(line, &c); err != nil {
			return err
		}
		id++
		if c.Note == "notify" {
			out.Emit(runGateNotify(id))
			return nil
		}
		out.Emit(runGate(id, &c))
		if id == 1 {
			for k := 0; k < 3; k++ {
				id++
				out.Emit(runGateNotify(id))
			}
		}
		return nil
	})
}

// ---- an application that derives its own context when the handshake is announced

// schedConn is a diam.Conn of the test's own whose SetContext calls are observable: the application goroutine
// holds its own SetContext back until the library has stored what it stores when a CER is accepted.
type schedConn struct {
	mu      sync.Mutex
	ctx     context.Context
	out     []byte
	closed  bool
	libSet  chan struct{} // a SetContext call that is not the application's
	appRead chan struct{} // closed when the application has read the context it derives its own from
	byApp   bool
}

func (c *schedConn) Write(b []byte) (int, error) {
	c.mu.Lock()
	c.out = append(c.out, b...)
	c.mu.Unlock()
	return len(b), nil
}
func (c *schedConn) WriteStream(b []byte, _ uint) (int, error) { return c.Write(b) }
func (c *schedConn) Close()                                    { c.mu.Lock(); c.closed = true; c.mu.Unlock() }
func (c *schedConn) LocalAddr() net.Addr                       { return pipeAddr{} }
func (c *schedConn) RemoteAddr() net.Addr                      { return pipeAddr{} }
func (c *schedConn) TLS() *tls.ConnectionState                 { return nil }
func (c *schedConn) Dictionary() *dict.Parser                  { return dict.Default }
func (c *schedConn) Connection() net.Conn                      { return nil }
func (c *schedConn) Context() context.Context {
	c.mu.Lock()
	defer c.mu.Unlock()
	if c.ctx == nil {
		return context.Background()
	}
	return c.ctx
}
func (c *schedConn) SetContext(ctx context.Context) {
	c.mu.Lock()
	app := c.byApp
	c.mu.Unlock()
	if !app {
		// scheduling gate: a store by the library is held until the application (if it has been notified already)
		// has read the context; a library that stores before it notifies just waits out the bound
		select {
		case <-c.appRead:
		case <-time.After(40 * time.Millisecond):
		}
	}
	c.mu.Lock()
	c.ctx = ctx
	c.mu.Unlock()
	if !app {
		select {
		case c.libSet <- struct{}{}:
		default:
		}
	}
}

type appKey struct{}

// runGateNotify: the application takes the connection from HandshakeNotify(), reads its context and stores a
// context derived from it (its own per-peer value). Whatever the order in which the library announces the
// handshake and stores the peer's metadata, the application's handlers are served afterwards.
func runGateNotify(id int) gateLine {
	l := gateLine{Ev: "gate", ID: id, Side: "server", Cfg: "all", Hist: []string{"cer_ok", "ccr"}, Obs: []gateStep{}, Note: "notify"}
	s := &smServer{SM: sm.New(srvSettings), ch: make(chan struct{}, 64), stop: make(chan struct{})}
	registerApp(s, "all")
	go func() {
		for {
			select {
			case <-s.SM.ErrorReports():
			case <-s.stop:
				return
			}
		}
	}()
	defer close(s.stop)
	sc := &schedConn{libSet: make(chan struct{}, 4), appRead: make(chan struct{})}
	appDone := make(chan struct{})
	go func() {
		defer close(appDone)
		select {
		case c := <-s.SM.HandshakeNotify():
			ctx := c.Context()
			close(sc.appRead)
			// give a library that stores its metadata only now the time to do so (a correct one did it before)
			select {
			case <-sc.libSet:
			case <-time.After(30 * time.Millisecond):
			}
			sc.mu.Lock()
			sc.byApp = true
			sc.mu.Unlock()
			c.SetContext(context.WithValue(ctx, appKey{}, "peer state of the application"))
		case <-time.After(2 * time.Second):
		}
	}()
	time.Sleep(10 * time.Millisecond) // the application is waiting for the notification (which is offered, not queued)
	read := func(b []byte) *diam.Message {
		m, err := diam.ReadMessage(bytes.NewReader(b), dict.Default)
		if err != nil {
			return nil
		}
		return m
	}
	nf, off := 0, 0
	for k, name := range l.Hist {
		if m := read(gateMsg(name, uint32(100+k))); m != nil {
			s.SM.ServeDIAM(sc, m)
		}
		if name == "cer_ok" {
			<-appDone
			// drain the library's own SetContext signal, if it came before the notification
			select {
			case <-sc.libSet:
			default:
			}
		}
		st := gateStep{Fired: []int{}, Wrote: []gateWrote{}}
		f := s.fired()
		for _, r := range f[nf:] {
			st.Fired = append(st.Fired, hidOf[r.Key])
		}
		nf = len(f)
		sc.mu.Lock()
		out := append([]byte(nil), sc.out...)
		st.Closed = sc.closed
		sc.mu.Unlock()
		msgs, rest := splitMsgs(out[off:])
		for _, m := range msgs {
			rc, _ := m.u32(268)
			st.Wrote = append(st.Wrote, gateWrote{Cmd: int(m.Cmd), RC: int(rc)})
		}
		off = len(out) - len(rest)
		l.Obs = append(l.Obs, st)
	}
	return l
}
