package drivers

import (
	"encoding/json"
	"fmt"
	"io"
	"net"
	"reflect"
	"strings"
	"sync"
	"sync/atomic"
	"time"

	"verifharness/abs"
	"verifharness/memnet"

	"github.com/fiorix/go-diameter/v4/diam"
	"github.com/fiorix/go-diameter/v4/diam/avp"
	"github.com/fiorix/go-diameter/v4/diam/datatype"
	"github.com/fiorix/go-diameter/v4/diam/dict"
	"github.com/fiorix/go-diameter/v4/diam/sm"
	"github.com/fiorix/go-diameter/v4/diam/sm/smparser"
)

// Handshake driver (C12): a real sm.Client dials over memnet; the scripted peer acts on
// the k-th CER it receives (count-driven, never time-driven). Records CER transmissions
// with monotonic stamps, the Dial result, Close and handler invocations afterwards.

type hsScript struct {
	Budget   int      `json:"budget"`
	Interval int      `json:"interval"`
	Kind     string   `json:"kind"`
	At       int      `json:"at"`
	Extras   []string `json:"extras"`
	Stall    int      `json:"stall"`
	Redial   bool     `json:"redial"`
	Local    string   `json:"local"`  // "ll4" | "ll6": the transport's only local address is link-local
	During   bool     `json:"during"` // the answer to the at-th CER arrives while the next transmission is still being written
	Cfg      string   `json:"cfg"`    // "acct" | "auth" | "vsa": the client also advertises an application of that type its dictionary lacks
	Shared   bool     `json:"shared"` // another connection of the same client is up and its peer repeats its CEA during this dial
}
type cerContent struct {
	OH      string  `json:"oh"`
	OR      string  `json:"or"`
	HostIPs [][]int `json:"hostips"`
	Auth    [][]int `json:"auth"`
	Acct    [][]int `json:"acct"`
	VSA     [][]int `json:"vsa"`  // vendor(4 bytes) ++ type(0 acct,1 auth) ++ id(4 bytes)
	SVID    [][]int `json:"svid"` // Supported-Vendor-Id values
	OSID    [][]int `json:"osid"` // Origin-State-Id values (none unless configured)
	FW      [][]int `json:"fw"`   // Firmware-Revision values (none unless configured)
	Vendor  [][]int `json:"vendor"`
	Product string  `json:"product"`
}
type hsObs struct {
	NCer           int        `json:"ncer"`
	Identical      bool       `json:"identical"`
	MinGap         int        `json:"mingap"`
	DialOK         bool       `json:"dial_ok"`
	ErrClass       string     `json:"errclass"`
	Err            string     `json:"err"`
	ClosedAtReturn bool       `json:"closed_at_return"`
	ClosedEnd      bool       `json:"closed_end"`
	AppDispatched  bool       `json:"app_dispatched"`
	OtherOpen      bool       `json:"other_open"` // shared: the other connection of the client is still open at the end
	Cer            cerContent `json:"cer"`
}
type hsLine struct {
	Events  []cnEvent  `json:"events"`
	Conform bool       `json:"conform"`
	Ev      string     `json:"ev"`
	ID      int        `json:"id"`
	Script  hsScript   `json:"script"`
	Want    cerContent `json:"want"`
	Obs     hsObs      `json:"obs"`
	Note    string     `json:"note"`
}

var failSeq uint32

func errClass(err error) string {
	switch {
	case err == nil:
		return "none"
	case err == sm.ErrHandshakeTimeout:
		return "timeout"
	case strings.HasPrefix(err.Error(), "Client attempts to advertise unsupported application"):
		return "config"
	case strings.HasPrefix(err.Error(), "panic in Dial"):
		return "panic"
	case err == smparser.ErrMissingResultCode, err == smparser.ErrMissingOriginHost, err == smparser.ErrMissingOriginRealm:
		return "malformed"
	case err == smparser.ErrMissingApplication, err == smparser.ErrNoCommonApplication:
		return "noapp"
	}
	if _, ok := err.(*smparser.ErrFailedResultCode); ok {
		return "failed"
	}
	return "transport"
}

func parseCERContent(m *wireMsg) cerContent {
	c := cerContent{HostIPs: [][]int{}, Auth: [][]int{}, Acct: [][]int{}, VSA: [][]int{}, SVID: [][]int{}, OSID: [][]int{}, FW: [][]int{}, Vendor: [][]int{}}
	for _, a := range m.AVPs {
		switch a.Code {
		case 264:
			c.OH = string(a.Payload)
		case 296:
			c.OR = string(a.Payload)
		case 257:
			if len(a.Payload) >= 2 {
				c.HostIPs = append(c.HostIPs, append([]int{int(a.Payload[0])<<8 | int(a.Payload[1])}, abs.Ints(a.Payload[2:])...))
			}
		case 258:
			c.Auth = append(c.Auth, abs.Ints(a.Payload))
		case 259:
			c.Acct = append(c.Acct, abs.Ints(a.Payload))
		case 265:
			c.SVID = append(c.SVID, abs.Ints(a.Payload))
		case 278:
			c.OSID = append(c.OSID, abs.Ints(a.Payload))
		case 267:
			c.FW = append(c.FW, abs.Ints(a.Payload))
		case 266:
			c.Vendor = append(c.Vendor, abs.Ints(a.Payload))
		case 269:
			c.Product = string(a.Payload)
		case 260:
			inner, _ := splitAVPs(a.Payload)
			var vendor []int
			for _, in := range inner {
				if in.Code == 266 {
					vendor = abs.Ints(in.Payload)
				}
			}
			for _, in := range inner {
				if in.Code == 258 {
					c.VSA = append(c.VSA, append(append(append([]int{}, vendor...), 1), abs.Ints(in.Payload)...))
				}
				if in.Code == 259 {
					c.VSA = append(c.VSA, append(append(append([]int{}, vendor...), 0), abs.Ints(in.Payload)...))
				}
			}
		}
	}
	return c
}

// ceaFor builds the peer's answer of the given kind to a received CER.
func ceaFor(kind string, cer *wireMsg) []byte {
	m := diam.NewMessage(diam.CapabilitiesExchange, 0, 0, cer.HbH, cer.E2E, dict.Default)
	m.Header.HopByHopID, m.Header.EndToEndID = cer.HbH, cer.E2E
	rc := uint32(2001)
	if kind == "fail" || kind == "latefail" {
		// the class "failing Result-Code": protocol errors, transient and permanent failures, informational
		rc = []uint32{5010, 3004, 5012, 4001, 1001, 5017, 3999}[atomic.AddUint32(&failSeq, 1)%7]
	}
	if kind != "noresult" && kind != "latemalformed" {
		m.NewAVP(avp.ResultCode, avp.Mbit, 0, datatype.Unsigned32(rc))
	}
	if kind != "nooh" {
		m.NewAVP(avp.OriginHost, avp.Mbit, 0, datatype.DiameterIdentity(peerHost))
	}
	m.NewAVP(avp.OriginRealm, avp.Mbit, 0, datatype.DiameterIdentity(peerRealm))
	m.NewAVP(avp.HostIPAddress, avp.Mbit, 0, datatype.Address([]byte{10, 0, 0, 2}))
	m.NewAVP(avp.VendorID, avp.Mbit, 0, datatype.Unsigned32(99))
	m.NewAVP(avp.ProductName, 0, 0, datatype.UTF8String("peer"))
	switch kind {
	case "noapps":
	case "privok": // the only application is one that only the client's own dictionary defines
		m.NewAVP(avp.VendorSpecificApplicationID, avp.Mbit, 0, &diam.GroupedAVP{AVP: []*diam.AVP{
			diam.NewAVP(avp.VendorID, avp.Mbit, 0, datatype.Unsigned32(10415)),
			diam.NewAVP(avp.AuthApplicationID, avp.Mbit, 0, datatype.Unsigned32(4243)),
		}})
	case "unsupapps":
		m.NewAVP(avp.AuthApplicationID, avp.Mbit, 0, datatype.Unsigned32(12345))
	case "relayok": // a relay agent: the only application it announces is the relay id
		m.NewAVP(avp.AuthApplicationID, avp.Mbit, 0, datatype.Unsigned32(0xffffffff))
	case "vsaunsup", "vsaok", "defonly": // the only application information is a vendor-specific group, Vendor-Id first
		app := uint32(16777999)                   // no dictionary defines it
		if kind == "vsaok" || kind == "defonly" { // defonly: S6a, which dict.Default defines and the client's own dictionary does not
			app = 16777251
		}
		m.NewAVP(avp.VendorSpecificApplicationID, avp.Mbit, 0, &diam.GroupedAVP{AVP: []*diam.AVP{
			diam.NewAVP(avp.VendorID, avp.Mbit, 0, datatype.Unsigned32(10415)),
			diam.NewAVP(avp.AuthApplicationID, avp.Mbit, 0, datatype.Unsigned32(app)),
		}})
	default:
		m.NewAVP(avp.AuthApplicationID, avp.Mbit, 0, datatype.Unsigned32(4))
	}
	b, _ := m.Serialize()
	return b
}

var cliSettings = &sm.Settings{
	OriginHost:  datatype.DiameterIdentity("cli.local.test"),
	OriginRealm: datatype.DiameterIdentity("local.test"),
	VendorID:    13,
	ProductName: "verif-cli",
}

func runHandshake(id int, sc *hsScript, configured bool) hsLine {
	if sc.Extras == nil {
		sc.Extras = []string{}
	}
	l := hsLine{Ev: "hs", ID: id, Script: *sc}
	set := *cliSettings
	want := cerContent{OH: string(set.OriginHost), OR: string(set.OriginRealm), HostIPs: [][]int{{1, 10, 0, 0, 1}},
		Auth: [][]int{abs.B4(4)}, Acct: [][]int{abs.B4(3)}, VSA: [][]int{append(append(abs.B4(10415), 1), abs.B4(16777251)...)}, SVID: [][]int{abs.B4(10415)},
		OSID: [][]int{}, FW: [][]int{}, Vendor: [][]int{abs.B4(13)}, Product: "verif-cli"}
	if configured {
		set.HostIPAddresses = []datatype.Address{datatype.Address(net.ParseIP("192.0.2.9").To4()), datatype.Address(net.ParseIP("2001:db8::9")), datatype.Address(net.ParseIP("2001:db8::a")), datatype.Address(net.ParseIP("192.0.2.10").To4())}
		want.HostIPs = [][]int{addrInts(net.ParseIP("192.0.2.9")), addrInts(net.ParseIP("2001:db8::9")), addrInts(net.ParseIP("2001:db8::a")), addrInts(net.ParseIP("192.0.2.10"))}
		set.OriginStateID, set.FirmwareRevision = 77, 5
		want.OSID, want.FW = [][]int{abs.B4(77)}, [][]int{abs.B4(5)}
		l.Note = "configured"
	}
	l.Want = want
	mach := sm.New(&set)
	var mu sync.Mutex
	fired := make(chan struct{}, 8)
	mach.HandleFunc("CCA", func(diam.Conn, *diam.Message) {
		mu.Lock()
		l.Obs.AppDispatched = true
		mu.Unlock()
		select {
		case fired <- struct{}{}:
		default:
		}
	})
	stop := make(chan struct{})
	defer close(stop)
	go func() {
		for {
			select {
			case <-mach.ErrorReports():
			case <-stop:
				return
			}
		}
	}()
	cli := &sm.Client{Handler: mach, MaxRetransmits: uint(sc.Budget), RetransmitInterval: time.Duration(sc.Interval) * time.Millisecond,
		SupportedVendorID: []*diam.AVP{diam.NewAVP(avp.SupportedVendorID, avp.Mbit, 0, datatype.Unsigned32(10415))},
		AuthApplicationID: []*diam.AVP{diam.NewAVP(avp.AuthApplicationID, avp.Mbit, 0, datatype.Unsigned32(4))},
		AcctApplicationID: []*diam.AVP{diam.NewAVP(avp.AcctApplicationID, avp.Mbit, 0, datatype.Unsigned32(3))},
		VendorSpecificApplicationID: []*diam.AVP{diam.NewAVP(avp.VendorSpecificApplicationID, avp.Mbit, 0, &diam.GroupedAVP{AVP: []*diam.AVP{
			diam.NewAVP(avp.VendorID, avp.Mbit, 0, datatype.Unsigned32(10415)),
			diam.NewAVP(avp.AuthApplicationID, avp.Mbit, 0, datatype.Unsigned32(16777251))}})},
	}
	switch sc.Cfg {
	case "owndict":
		// the client works with its own dictionary (base + credit control + a private application 4243), not with
		// dict.Default; it advertises credit control and, in a vendor-specific group, the private application
		cli.Dict = ownDict
		cli.AcctApplicationID, cli.VendorSpecificApplicationID = nil, nil
		l.Want.Acct = [][]int{}
		l.Want.VSA = [][]int{append(append(abs.B4(10415), 1), abs.B4(4243)...)}
		cli.VendorSpecificApplicationID = []*diam.AVP{diam.NewAVP(avp.VendorSpecificApplicationID, avp.Mbit, 0, &diam.GroupedAVP{AVP: []*diam.AVP{
			diam.NewAVP(avp.VendorID, avp.Mbit, 0, datatype.Unsigned32(10415)),
			diam.NewAVP(avp.AuthApplicationID, avp.Mbit, 0, datatype.Unsigned32(4243))}})}
	case "both":
		// the S6a application also as a plain Auth-Application-Id (as examples/s6a_client does): every AVP the client
		// was told to advertise is in the CER, the vendor-specific group included
		l.Want.Auth = append(l.Want.Auth, abs.B4(16777251))
		cli.AuthApplicationID = append(cli.AuthApplicationID, diam.NewAVP(avp.AuthApplicationID, avp.Mbit, 0, datatype.Unsigned32(16777251)))
	case "acct":
		l.Want.Acct = append(l.Want.Acct, abs.B4(12345))
		cli.AcctApplicationID = append(cli.AcctApplicationID, diam.NewAVP(avp.AcctApplicationID, avp.Mbit, 0, datatype.Unsigned32(12345)))
	case "auth":
		l.Want.Auth = append(l.Want.Auth, abs.B4(12345))
		cli.AuthApplicationID = append(cli.AuthApplicationID, diam.NewAVP(avp.AuthApplicationID, avp.Mbit, 0, datatype.Unsigned32(12345)))
	case "vsa":
		l.Want.VSA = append(l.Want.VSA, append(append(abs.B4(10415), 1), abs.B4(12345)...))
		cli.VendorSpecificApplicationID = append(cli.VendorSpecificApplicationID, diam.NewAVP(avp.VendorSpecificApplicationID, avp.Mbit, 0, &diam.GroupedAVP{AVP: []*diam.AVP{
			diam.NewAVP(avp.VendorID, avp.Mbit, 0, datatype.Unsigned32(10415)),
			diam.NewAVP(avp.AuthApplicationID, avp.Mbit, 0, datatype.Unsigned32(12345))}}))
	}
	if sc.Redial {
		// an earlier, successful dial of the same client from another local address
		pc := memnet.NewConn()
		pc.SetLocal("10.0.0.9:3868")
		pc.OnWrite = func(k int, b []byte) memnet.WriteOutcome {
			if msgs, _ := splitMsgs(b); len(msgs) == 1 && msgs[0].Cmd == 257 {
				cea := ceaFor("ok", &msgs[0])
				go pc.Feed(cea)
			}
			return memnet.WriteOutcome{N: -1}
		}
		if c0, err := cli.NewConn(pc, "10.0.0.2:3868"); err == nil && c0 != nil {
			c0.Close()
		} else {
			l.Note += " first dial failed: " + errStr(err)
		}
		pc.Close()
	}
	var pcA *memnet.Conn
	var cerA wireMsg
	l.Obs.OtherOpen = true
	if sc.Shared {
		// connection A of the same client, established and kept
		pcA = memnet.NewConn()
		pcA.SetLocal("10.0.0.9:3868")
		pcA.OnWrite = func(k int, b []byte) memnet.WriteOutcome {
			if msgs, _ := splitMsgs(b); len(msgs) == 1 && msgs[0].Cmd == 257 {
				cerA = msgs[0]
				cea := ceaFor("ok", &msgs[0])
				go pcA.Feed(cea)
			}
			return memnet.WriteOutcome{N: -1}
		}
		if c0, err := cli.NewConn(pcA, "10.0.0.2:3868"); err != nil || c0 == nil {
			l.Note += " dial of the other connection failed: " + errStr(err)
		}
		pcA.WaitReaderBlocked(time.Second)
		defer pcA.Close()
	}
	mc := memnet.NewConn()
	lg := &evlog{}
	if sc.Kind == "failok" {
		lg.failGate = make(chan struct{})
	}
	logsByConn.Store(reflect.ValueOf(mc).Pointer(), lg)
	defer logsByConn.Delete(reflect.ValueOf(mc).Pointer())
	l.Conform = true
	peerKind := func(kind string) string {
		if kind == "ok" || kind == "vsaok" || kind == "relayok" || kind == "privok" {
			return "ok"
		}
		return "fail"
	}
	switch sc.Local {
	case "ll4":
		mc.SetLocal("169.254.10.1:3868")
		if !configured {
			l.Want.HostIPs = [][]int{addrInts(net.ParseIP("169.254.10.1"))}
		}
	case "ll6":
		mc.SetLocal("[fe80::1234%eth0]:3868")
		if !configured {
			l.Want.HostIPs = [][]int{addrInts(net.ParseIP("fe80::1234"))}
		}
	}
	if sc.Stall > 0 {
		mc.OnWrite = func(k int, b []byte) memnet.WriteOutcome {
			time.Sleep(time.Duration(sc.Stall) * time.Millisecond) // the transport is slow to accept the bytes
			return memnet.WriteOutcome{N: -1}
		}
	}
	if sc.Kind == "wfail" {
		// the transport refuses the at-th transmission (nothing accepted); reads keep working, the peer stays
		mc.OnWrite = func(k int, b []byte) memnet.WriteOutcome {
			if k == sc.At {
				return memnet.WriteOutcome{N: 0, Err: &memnet.NetErr{Msg: "scripted write failure"}}
			}
			return memnet.WriteOutcome{N: -1}
		}
	}
	if sc.During {
		// the peer's answer to the at-th CER is read and handled while the transport is still busy with
		// transmission at+1 (80 ms, longer than anything the handler may wait for)
		mc.OnWrite = func(k int, b []byte) memnet.WriteOutcome {
			if k == sc.At+1 {
				if msgs, _ := splitMsgs(mc.Out()); len(msgs) >= sc.At {
					lg.add(cnEvent{Ev: "peer", K: peerKind(sc.Kind)})
					mc.Feed(ceaFor(sc.Kind, &msgs[sc.At-1]))
				}
				time.Sleep(80 * time.Millisecond)
			}
			return memnet.WriteOutcome{N: -1}
		}
	}
	type dialRes struct {
		c      diam.Conn
		err    error
		closed bool
	}
	resc := make(chan dialRes, 1)
	go func() {
		defer func() {
			if r := recover(); r != nil { // a panic in the caller's own goroutine: nothing in the library recovers it
				resc <- dialRes{nil, fmt.Errorf("panic in Dial: %v", r), mc.Closed()}
			}
		}()
		c, err := cli.NewConn(mc, "10.0.0.2:3868")
		resc <- dialRes{c, err, mc.Closed()}
	}()
	if sc.Shared {
		// while this dial waits for its answer, the peer of connection A repeats its CEA on A
		mc.WaitWrites(1, 2*time.Second)
		pcA.Feed(ceaFor("ok", &cerA))
		pcA.WaitReaderBlocked(time.Second)
	}
	// scripted peer: acts on the at-th CER
	acted := false
	var res dialRes
	got := false
	deadline := time.Now().Add(time.Duration((sc.Budget+3)*sc.Interval)*time.Millisecond + 5*time.Second)
	for !got && time.Now().Before(deadline) {
		if !acted && sc.Kind != "silence" && sc.Kind != "wfail" && !sc.During {
			if mc.WaitWrites(sc.At, 2*time.Millisecond) {
				msgs, _ := splitMsgs(mc.Out())
				if len(msgs) >= sc.At {
					acted = true
					if sc.Kind == "eof" {
						lg.add(cnEvent{Ev: "peer.eof"})
						mc.FeedErr(io.EOF)
					} else if sc.Kind == "failok" {
						// a failing CEA with a success CEA right behind it, in one fragment
						lg.add(cnEvent{Ev: "peer", K: "fail"})
						lg.add(cnEvent{Ev: "peer", K: "ok"})
						mc.Feed(append(ceaFor("fail", &msgs[sc.At-1]), ceaFor("ok", &msgs[sc.At-1])...))
					} else {
						lg.add(cnEvent{Ev: "peer", K: peerKind(sc.Kind)})
						mc.Feed(ceaFor(sc.Kind, &msgs[sc.At-1]))
					}
				}
			}
		}
		select {
		case res = <-resc:
			got = true
		case <-time.After(2 * time.Millisecond):
		}
	}
	if !got {
		l.Note += " dial did not return"
		mc.Close()
		res = <-resc
	}
	l.Obs.DialOK = res.err == nil && res.c != nil
	l.Obs.ErrClass = errClass(res.err)
	l.Obs.Err = errStr(res.err)
	l.Obs.ClosedAtReturn = res.closed
	msgs, _ := splitMsgs(mc.Out())
	if l.Obs.DialOK {
		// extras after completion, then an application answer
		for _, x := range sc.Extras {
			kind := map[string]string{"dupok": "ok", "latefail": "latefail", "latemalformed": "latemalformed"}[x]
			if !mc.Closed() {
				lg.add(cnEvent{Ev: "peer", K: peerKind(kind)})
				mc.Feed(ceaFor(kind, &msgs[0]))
				mc.WaitReaderBlocked(300 * time.Millisecond)
			}
		}
		if !mc.Closed() {
			lg.add(cnEvent{Ev: "app"})
			mc.Feed(appMsg(272, 4, false, 4242))
		}
		select {
		case <-fired:
		case <-time.After(1500 * time.Millisecond):
		}
		l.Obs.ClosedEnd = mc.Closed()
	} else {
		l.Obs.ClosedEnd = mc.Closed()
	}
	if pcA != nil {
		l.Obs.OtherOpen = !pcA.Closed()
	}
	// CER transmissions
	msgs, _ = splitMsgs(mc.Out())
	l.Obs.Identical = true
	// spacing: from the completion of one transmission to the start of the next
	var begins, ends []time.Time
	for _, e := range mc.Events() {
		if e.Kind == "write.begin" {
			begins = append(begins, e.T)
		}
		if e.Kind == "write.end" {
			ends = append(ends, e.T)
		}
	}
	for i, m := range msgs {
		if m.Cmd != 257 || m.Flags&0x80 == 0 {
			continue
		}
		l.Obs.NCer++
		if i > 0 && string(m.Raw) != string(msgs[0].Raw) {
			l.Obs.Identical = false
		}
	}
	l.Obs.MinGap = 1 << 30
	for i := 1; i < len(begins) && i < l.Obs.NCer && i-1 < len(ends); i++ {
		if g := int(begins[i].Sub(ends[i-1]) / time.Millisecond); g < l.Obs.MinGap {
			l.Obs.MinGap = g
		}
	}
	if l.Obs.NCer > 0 {
		l.Obs.Cer = parseCERContent(&msgs[0])
	} else {
		l.Obs.Cer = cerContent{HostIPs: [][]int{}, Auth: [][]int{}, Acct: [][]int{}, VSA: [][]int{}, SVID: [][]int{}, OSID: [][]int{}, FW: [][]int{}, Vendor: [][]int{}}
	}
	mu.Lock()
	defer mu.Unlock()
	if !mc.Closed() {
		mc.Close()
	}
	l.Events = lg.snapshot()
	return l
}

var ownDict *dict.Parser

const privateXML = `<?xml version="1.0" encoding="UTF-8"?><diameter><application id="4243" type="auth" name="Private"><vendor id="10415" name="TGPP"/></application></diameter>`

func loadOwnDict(repo string) error {
	xs, err := abs.DefaultXML(repo)
	if err != nil {
		return err
	}
	ownDict, _ = dict.NewParser()
	for _, x := range []string{xs["baseXML"], xs["creditcontrolXML"], privateXML} {
		if err := ownDict.Load(strings.NewReader(x)); err != nil {
			return err
		}
	}
	return nil
}

func Handshake(a Args) error {
	installSMHook()
	if err := loadOwnDict(a.Repo); err != nil {
		return err
	}
	out, err := NewOut(a.Out)
	if err != nil {
		return err
	}
	defer out.Close()
	var cases []hsScript
	err = ReadLines(a.Cases, func(line []byte) error {
		var c hsScript
		if err := json.Unmarshal(line, &c); err != nil {
			return err
		}
		cases = append(cases, c)
		return nil
	})
	if err != nil {
		return err
	}
	// scenarios are independent (own state machine, client and transport): run 12 at a time
	sem := make(chan struct{}, 12)
	var wg sync.WaitGroup
	for i := range cases {
		wg.Add(1)
		sem <- struct{}{}
		go func(i int) {
			defer wg.Done()
			defer func() { <-sem }()
			// -n 1 / -n 2: the isolated re-run of one scenario keeps the settings variant it had in the full run
			cfgd := (int64(i)+a.Seed)%3 == 0
			if a.N == 1 {
				cfgd = true
			} else if a.N == 2 {
				cfgd = false
			}
			out.Emit(runHandshake(i+1, &cases[i], cfgd))
		}(i)
	}
	wg.Wait()
	return nil
}
