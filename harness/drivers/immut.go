package drivers

import (
	"bytes"
	"crypto/sha1"
	"encoding/hex"
	"encoding/json"
	"fmt"
	"runtime"
	"runtime/debug"
	"time"
	"verifharness/sctpmem"

	"verifharness/abs"
	"verifharness/memnet"

	"github.com/fiorix/go-diameter/v4/diam"
	"github.com/fiorix/go-diameter/v4/diam/datatype"
	"github.com/fiorix/go-diameter/v4/diam/dict"
)

// Immut driver (C06): a message is read and retained; further messages of the same
// layout but different bytes are then read (same goroutine, another goroutine, a real
// connection's serve loop). With one P and the collector off, sync.Pool hands the buffer
// just released to the next reader, so a value that aliases the pooled read buffer is
// overwritten. A snapshot of the retained message (bytes, rendering, deep value dump) is
// taken at return time and after every later read. spec/PoolTrace.tla compares them.

type laterRead struct {
	How  string `json:"how"`
	Size string `json:"size"`
}
type immutCase struct {
	Kind    string      `json:"kind"`
	Depth   int         `json:"depth"`
	Size    string      `json:"size"`
	Plen    int         `json:"plen"`
	History []laterRead `json:"history"`
}
type immutLine struct {
	Ev        string      `json:"ev"`
	ID        int         `json:"id"`
	Kind      string      `json:"kind"`
	Depth     int         `json:"depth"`
	Size      string      `json:"size"`
	History   []laterRead `json:"history"`
	Via       string      `json:"via"`
	ReadOK    bool        `json:"readok"`
	MayReject bool        `json:"mayreject"` // the wire image is one the reader may refuse; if it does there is nothing to retain
	Before    string      `json:"before"`
	After     []string    `json:"after"`
	Detail    string      `json:"detail"`
}

func immutAVPs(kind string, alt bool, plen int) []*diam.AVP {
	x := byte(0)
	if alt {
		x = 0xFF
	}
	b := func(bs ...byte) []byte {
		r := make([]byte, len(bs))
		for i, v := range bs {
			r[i] = v ^ x
		}
		return r
	}
	one := func(k string) *diam.AVP {
		switch k {
		case "addr4":
			return diam.NewAVP(9009, 0x40, 0, datatype.Address(b(10, 1, 2, 3)))
		case "addr6":
			return diam.NewAVP(9009, 0x40, 0, datatype.Address(b(0x20, 1, 0xd, 0xb8, 1, 2, 3, 4, 5, 6, 7, 8, 9, 10, 11, 12)))
		case "addrother":
			return diam.NewAVP(9009, 0x40, 0, datatype.Address(append([]byte{0, 8}, b(1, 2, 3, 4, 5)...)))
		case "unknown":
			return diam.NewAVP(7777, 0, 0, datatype.Unknown(b(1, 2, 3, 4, 5, 6, 7, 8, 9)))
		case "ipv4":
			return diam.NewAVP(9016, 0x40, 0, datatype.IPv4(b(10, 9, 8, 7)))
		case "ipv6":
			return diam.NewAVP(9017, 0x40, 0, datatype.IPv6(b(0x20, 1, 0xd, 0xb8, 1, 2, 3, 4, 5, 6, 7, 8, 9, 10, 11, 12)))
		case "octets":
			return diam.NewAVP(9010, 0x40, 0, datatype.OctetString(b(1, 2, 3, 4, 5, 6, 7)))
		case "octets300": // long enough for any size-dependent decoding path, still inside the 1 KiB pooled buffer
			return diam.NewAVP(9010, 0x40, 0, datatype.OctetString(bytes.Repeat(b(0x41), 300)))
		case "octetsN":
			return diam.NewAVP(9010, 0x40, 0, datatype.OctetString(bytes.Repeat(b(0x42), plen)))
		case "utf8N":
			return diam.NewAVP(9011, 0x40, 0, datatype.UTF8String(bytes.Repeat(b('r'), plen)))
		case "unknownN":
			return diam.NewAVP(7777, 0, 0, datatype.Unknown(bytes.Repeat(b(0x43), plen)))
		case "pflag": // the P (protected) flag set: legal, rare
			return diam.NewAVP(9010, 0x60, 0, datatype.OctetString(b(21, 22, 23, 24, 25, 26)))
		case "utf8300":
			return diam.NewAVP(9011, 0x40, 0, datatype.UTF8String(bytes.Repeat(b('q'), 300)))
		case "utf8":
			return diam.NewAVP(9011, 0x40, 0, datatype.UTF8String(b('a', 'b', 'c', 'd', 'e')))
		case "u32":
			return diam.NewAVP(9001, 0x40, 0, datatype.Unsigned32(uint32(0x01020304)^uint32(x)*0x01010101))
		case "time":
			return diam.NewAVP(9008, 0x40, 0, datatype.Time(time.Unix(1700000000+int64(x), 0)))
		}
		return nil
	}
	if kind == "mixed" {
		var as []*diam.AVP
		for _, k := range []string{"addr4", "unknown", "ipv4", "addr6", "octets", "ipv6", "addrother", "utf8", "u32", "time"} {
			as = append(as, one(k))
		}
		return as
	}
	return []*diam.AVP{one(kind)}
}

// kinds whose wire image the library would not produce itself; the reader may refuse them (MayReject)
func immutRaw(kind string, alt bool) []byte {
	x := byte(0)
	if alt {
		x = 0xFF
	}
	switch kind {
	case "ipv4mapped": // an IPv4-typed AVP carrying the 16-byte IPv4-mapped form
		pay := append([]byte{0, 0, 0, 0, 0, 0, 0, 0, 0, 0, 0xff, 0xff}, 10^x, 9^x, 8^x, 7^x)
		return rawAVP(9016, 0x40, 0, 8+len(pay), pay, true)
	case "badgroup": // an optional (no M bit) group whose last member declares more than is there
		inner := rawAVP(9001, 0x40, 0, 12, []byte{1 ^ x, 2 ^ x, 3 ^ x, 4 ^ x}, true)
		bad := rawAVP(9010, 0x40, 0, 8+40, []byte{5 ^ x, 6 ^ x, 7 ^ x, 8 ^ x, 9 ^ x, 10 ^ x, 11 ^ x, 12 ^ x}, false)
		pay := append(inner, bad...)
		return rawAVP(9018, 0, 0, 8+len(pay), pay, true)
	case "ebitbad": // (in an error answer) a mandatory Failed-AVP whose member declares more than is there, then a good AVP
		bad := rawAVP(9010, 0x40, 0, 8+40, []byte{5 ^ x, 6 ^ x, 7 ^ x, 8 ^ x, 9 ^ x, 10 ^ x, 11 ^ x, 12 ^ x}, false)
		return append(rawAVP(279, 0x40, 0, 8+len(bad), bad, true), rawAVP(9001, 0x40, 0, 12, []byte{1 ^ x, 2 ^ x, 3 ^ x, 4 ^ x}, true)...)
	case "emptygroup": // groups without members (what the owner of ANOTHER message does to its own empty group stays there)
		return append(rawAVP(9018, 0x40, 0, 8, nil, true), rawAVP(9001, 0x40, 0, 12, []byte{1 ^ x, 2 ^ x, 3 ^ x, 4 ^ x}, true)...)
	case "u32len8": // an Unsigned32-typed AVP and a Time-typed AVP carrying 8 octets each
		pay := []byte{1 ^ x, 2 ^ x, 3 ^ x, 4 ^ x, 5 ^ x, 6 ^ x, 7 ^ x, 8 ^ x}
		return append(rawAVP(9001, 0x40, 0, 8+len(pay), pay, true), rawAVP(9008, 0x40, 0, 8+len(pay), pay, true)...)
	case "addrmapped": // an Address of family 2 holding an IPv4-mapped address (re-encodes shorter: a known finding elsewhere)
		pay := append([]byte{0, 2, 0, 0, 0, 0, 0, 0, 0, 0, 0, 0, 0xff, 0xff}, 10^x, 1^x, 2^x, 3^x)
		return rawAVP(9009, 0x40, 0, 8+len(pay), pay, true)
	}
	return nil
}

func immutWire(c *immutCase, size string, alt bool, dp *dict.Parser) []byte {
	if raw := immutRaw(c.Kind, alt); raw != nil {
		body := raw
		for d := 0; d < c.Depth; d++ {
			code := uint32(9018)
			if d%2 == 1 {
				code = 9050
			}
			body = rawAVP(code, 0x40, 0, 8+len(body), body, true)
		}
		if size == "large" {
			fill := byte(0x11)
			if alt {
				fill = 0xEE
			}
			body = append(body, rawAVP(9010, 0x40, 0, 8+1500, bytes.Repeat([]byte{fill}, 1500), true)...)
		}
		if c.Kind == "ebitbad" {
			return msgBytes(body, abs.VCmd, abs.VApp, 0x20) // an answer with the E bit
		}
		return msgBytes(body, abs.VCmd, abs.VApp, 0x80)
	}
	m := diam.NewMessage(abs.VCmd, 0x80, abs.VApp, 0x10203040, 0x50607080, dp)
	plen := c.Plen
	if plen == 0 {
		plen = 1016 - 8*c.Depth // the body fills the 1 KiB pooled read buffer exactly
	}
	avps := immutAVPs(c.Kind, alt, plen)
	for d := 0; d < c.Depth; d++ {
		code := uint32(9018)
		if d%2 == 1 {
			code = 9050
		}
		avps = []*diam.AVP{diam.NewAVP(code, 0x40, 0, &diam.GroupedAVP{AVP: avps})}
	}
	for _, a := range avps {
		m.AddAVP(a)
	}
	if size == "large" {
		fill := byte(0x11)
		if alt {
			fill = 0xEE
		}
		m.NewAVP(uint32(9010), 0x40, 0, datatype.OctetString(bytes.Repeat([]byte{fill}, 1500)))
	}
	w, _ := m.Serialize()
	return w
}

func snapshot(m *diam.Message) string {
	h := sha1.New()
	p := safely(func() {
		// the header as it stands, before anything is called on the message (a write must not alter it either)
		hd := m.Header
		fmt.Fprintf(h, "%d %d %d %d %d %d %d|", hd.Version, hd.MessageLength, hd.CommandFlags, hd.CommandCode, hd.ApplicationID, hd.HopByHopID, hd.EndToEndID)
		b, _ := m.Serialize()
		h.Write(b)
		var wb bytes.Buffer
		m.WriteTo(&wb)
		h.Write(wb.Bytes())
		h.Write([]byte(m.String()))
		j, _ := json.Marshal(abs.FromGoList(m.AVP))
		h.Write(j)
	})
	if p != "" {
		return "panic:" + p
	}
	return hex.EncodeToString(h.Sum(nil))[:16]
}

// fillEmptyGroups: the owner of a message adds a member to every empty group of ITS message
func fillEmptyGroups(as []*diam.AVP) {
	for _, a := range as {
		if g, ok := a.Data.(*diam.GroupedAVP); ok {
			if len(g.AVP) == 0 {
				g.AddAVP(diam.NewAVP(9001, 0x40, 0, datatype.Unsigned32(99)))
			} else {
				fillEmptyGroups(g.AVP)
			}
		}
	}
}

func runImmut(id int, c *immutCase, dp *dict.Parser) immutLine {
	l := immutLine{Ev: "immut", ID: id, Kind: c.Kind, Depth: c.Depth, Size: c.Size, History: c.History, After: []string{}}
	l.MayReject = immutRaw(c.Kind, false) != nil
	var m0 *diam.Message
	var err error
	if id%4 == 1 {
		// the retained message arrives on a multi-stream association (its own branch of the reader)
		l.Via = "sctp"
		as := sctpmem.New()
		as.Feed(3, immutWire(c, c.Size, false, dp))
		m0, err = diam.ReadMessage(diam.NewSCTPConnVerif(as), dp)
		defer as.Close()
	} else if id%4 == 2 {
		// the retained message is a request that a handler of a served connection kept beyond its return
		// (a queue, a worker goroutine): the serve loop has gone on to its next read
		l.Via = "handler"
		mc0 := memnet.NewConn()
		defer mc0.Close()
		kept := make(chan *diam.Message, 1)
		mux0 := diam.NewServeMux()
		mux0.HandleFunc("ALL", func(_ diam.Conn, m *diam.Message) {
			select {
			case kept <- m:
			default:
			}
		})
		rep := make(chan error, 1)
		go func() {
			select {
			case r := <-mux0.ErrorReports():
				rep <- r.Error
			case <-time.After(3 * time.Second):
			}
		}()
		diam.NewConn(mc0, "10.0.0.2:3868", mux0, dp)
		mc0.Feed(immutWire(c, c.Size, false, dp))
		select {
		case m0 = <-kept:
			mc0.WaitReaderBlocked(time.Second)
		case err = <-rep:
		case <-time.After(2 * time.Second):
			err = fmt.Errorf("message not delivered to the handler")
		}
	} else {
		m0, err = diam.ReadMessage(bytes.NewReader(immutWire(c, c.Size, false, dp)), dp)
	}
	if err != nil {
		l.Detail = err.Error()
		return l
	}
	l.ReadOK = true
	l.Before = snapshot(m0)
	for _, h := range c.History {
		w := immutWire(c, h.Size, true, dp)
		switch h.How {
		case "same":
			if lm, err := diam.ReadMessage(bytes.NewReader(w), dp); err == nil && c.Kind == "emptygroup" {
				fillEmptyGroups(lm.AVP)
			}
		case "goroutine":
			done := make(chan struct{})
			go func() {
				diam.ReadMessage(bytes.NewReader(w), dp)
				close(done)
			}()
			<-done
		case "conn":
			mc := memnet.NewConn()
			got := make(chan struct{}, 1)
			mux := diam.NewServeMux()
			mux.HandleFunc("ALL", func(diam.Conn, *diam.Message) {
				select {
				case got <- struct{}{}:
				default:
				}
			})
			diam.NewConn(mc, "10.0.0.2:3868", mux, dp)
			mc.Feed(w)
			select {
			case <-got:
			case <-time.After(2 * time.Second):
				l.Detail = "later message not delivered on the connection"
			}
			mc.WaitReaderBlocked(time.Second)
			mc.Close()
		}
		l.After = append(l.After, snapshot(m0))
	}
	if len(l.After) > 0 && l.After[len(l.After)-1] != l.Before && l.Detail == "" {
		l.Detail = fmt.Sprintf("retained message now renders as: %.200s", m0.String())
	}
	return l
}

func Immut(a Args) error {
	out, err := NewOut(a.Out)
	if err != nil {
		return err
	}
	defer out.Close()
	// one P and no collection: sync.Pool returns the buffer that was just put back
	runtime.GOMAXPROCS(1)
	debug.SetGCPercent(-1)
	vp, err := abs.NewVParser(a.Repo)
	if err != nil {
		return err
	}
	id := 0
	return ReadLines(a.Cases, func(line []byte) error {
		var c immutCase
		if err := json.Unmarshal(line, &c); err != nil {
			return err
		}
		id++
		out.Emit(runImmut(id, &c, vp))
		if id%200 == 0 {
			debug.SetGCPercent(100)
			runtime.GC()
			debug.SetGCPercent(-1)
		}
		return nil
	})
}
