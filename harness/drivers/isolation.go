package drivers

import (
	"encoding/json"
	"io"
	"os"
	"sync"
	"time"

	"verifharness/memnet"

	"github.com/fiorix/go-diameter/v4/diam"
	"github.com/fiorix/go-diameter/v4/diam/dict"
	"github.com/fiorix/go-diameter/v4/diam/sm"
)

// Isolation driver (C15): several connections accepted by a real Server.Serve on an
// in-memory listener (with scripted temporary accept errors), an echo handler, and
// faults placed on some connections: handler panic, undecodable input, disconnect
// between / inside messages. Records answers per connection, Close, error reports,
// accepts and whether Serve returned. spec/IsolationTrace.tla decides.
// A process death (recover removed) is observed by the caller: the current scenario is
// written to <out>.current before it starts.

type isoFault struct {
	Kind string `json:"kind"`
	Pos  int    `json:"pos"`
}
type isoCase struct {
	Conns  int        `json:"conns"`
	Msgs   int        `json:"msgs"`
	Faults []isoFault `json:"faults"`
	Temps  []int      `json:"temps"`
	SM     bool       `json:"sm"`
}
type isoConn struct {
	Msgs     int      `json:"msgs"`
	Fault    isoFault `json:"fault"`
	Answered []int    `json:"answered"`
	Closed   bool     `json:"closed"`
}
type isoLine struct {
	Ev            string    `json:"ev"`
	ID            int       `json:"id"`
	Case          isoCase   `json:"case"`
	Conns         []isoConn `json:"conns"`
	Reports       int       `json:"reports"`
	Accepted      int       `json:"accepted"`
	ServeReturned bool      `json:"serve_returned"`
	Died          bool      `json:"died"`
	Note          string    `json:"note"`
}

func runIsolation(id int, c *isoCase) isoLine {
	l := isoLine{Ev: "iso", ID: id, Case: *c, Conns: []isoConn{}}
	var mu sync.Mutex
	reports := 0
	echo := func(dc diam.Conn, m *diam.Message) {
		if m.Header.EndToEndID == 0xDEADDEAD {
			panic("scripted handler panic")
		}
		m.Answer(2001).WriteTo(dc)
	}
	var handler diam.Handler
	var reps <-chan *diam.ErrorReport
	if c.SM {
		mach := sm.New(srvSettings)
		mach.HandleFunc("CCR", echo)
		handler, reps = mach, mach.ErrorReports()
	} else {
		mux := diam.NewServeMux()
		mux.HandleFunc("CCR", echo)
		handler, reps = mux, mux.ErrorReports()
	}
	stop := make(chan struct{})
	go func() {
		for {
			select {
			case <-reps:
				mu.Lock()
				reports++
				mu.Unlock()
			case <-stop:
				return
			}
		}
	}()
	ln := memnet.NewListener()
	served := make(chan struct{})
	go func() {
		(&diam.Server{Handler: handler, Dict: dict.Default}).Serve(ln)
		close(served)
	}()
	tempErr := func(n int) {
		for i := 0; i < n; i++ {
			ln.PushErr(&memnet.NetErr{Msg: "scripted temporary accept error", Temp: true})
		}
	}
	conns := make([]*memnet.Conn, c.Conns)
	for k := 0; k < c.Conns; k++ {
		tempErr(c.Temps[k])
		conns[k] = memnet.NewConn()
		ln.Push(conns[k])
	}
	tempErr(c.Temps[c.Conns])
	probe := memnet.NewConn() // accepted after the trailing temporary errors
	ln.Push(probe)
	if c.SM {
		for _, mc := range append(append([]*memnet.Conn{}, conns...), probe) {
			mc.Feed(gateMsg("cer_ok", 7))
			mc.WaitOut(20, 5*time.Second)
			mc.WaitReaderBlocked(2 * time.Second)
		}
	}
	ceaLen := make([]int, c.Conns)
	for k := range conns {
		ceaLen[k] = len(conns[k].Out())
	}
	probeOff := len(probe.Out())
	dead := make([]bool, c.Conns)
	for i := 1; i <= c.Msgs; i++ {
		for k := 0; k < c.Conns; k++ {
			if dead[k] {
				continue
			}
			f := c.Faults[k]
			req := appMsg(272, 4, true, uint32(i))
			if f.Kind != "none" && f.Pos == i {
				dead[k] = true
				switch f.Kind {
				case "panic":
					req[16], req[17], req[18], req[19] = 0xDE, 0xAD, 0xDE, 0xAD
					conns[k].Feed(req)
				case "bad":
					conns[k].Feed(cnBad())
				case "eof":
					conns[k].FeedErr(io.EOF)
				case "eofmid":
					conns[k].Feed(req[:11])
					conns[k].FeedErr(io.EOF)
				}
				continue
			}
			conns[k].Feed(req)
		}
	}
	probe.Feed(appMsg(272, 4, true, 1))
	gone := func() bool {
		select {
		case <-served:
			return true // Serve has returned: nothing further can be accepted or is worth waiting for
		default:
			return false
		}
	}
	// positive deadlines
	for k := 0; k < c.Conns; k++ {
		f := c.Faults[k]
		want := c.Msgs
		if f.Kind != "none" {
			want = f.Pos - 1
			if !gone() {
				conns[k].WaitClosed(5 * time.Second)
			}
		}
		deadline := time.Now().Add(5 * time.Second)
		for time.Now().Before(deadline) && !gone() {
			msgs, _ := splitMsgs(conns[k].Out()[ceaLen[k]:])
			if len(msgs) >= want {
				break
			}
			time.Sleep(time.Millisecond)
		}
	}
	deadline := time.Now().Add(5 * time.Second)
	for time.Now().Before(deadline) && !gone() {
		if msgs, _ := splitMsgs(probe.Out()[probeOff:]); len(msgs) >= 1 {
			break
		}
		time.Sleep(time.Millisecond)
	}
	time.Sleep(5 * time.Millisecond)
	for k := 0; k < c.Conns; k++ {
		ic := isoConn{Msgs: c.Msgs, Fault: c.Faults[k], Answered: []int{}, Closed: conns[k].Closed()}
		msgs, _ := splitMsgs(conns[k].Out()[ceaLen[k]:])
		for _, m := range msgs {
			if m.Cmd == 272 && m.Flags&0x80 == 0 {
				ic.Answered = append(ic.Answered, int(m.HbH))
			}
		}
		l.Conns = append(l.Conns, ic)
	}
	// the probe connection counts as one more healthy connection
	pc := isoConn{Msgs: 1, Fault: isoFault{Kind: "none"}, Answered: []int{}, Closed: probe.Closed()}
	if msgs, _ := splitMsgs(probe.Out()[probeOff:]); len(msgs) >= 1 {
		pc.Answered = append(pc.Answered, int(msgs[0].HbH))
	}
	l.Conns = append(l.Conns, pc)
	for _, a := range ln.Log() {
		if a == "conn" {
			l.Accepted++
		}
	}
	select {
	case <-served:
		l.ServeReturned = true
	default:
	}
	mu.Lock()
	l.Reports = reports
	mu.Unlock()
	close(stop)
	ln.Close()
	for _, mc := range conns {
		mc.Close()
	}
	probe.Close()
	return l
}

func Isolation(a Args) error {
	out, err := NewOut(a.Out)
	if err != nil {
		return err
	}
	defer out.Close()
	id := 0
	return ReadLines(a.Cases, func(line []byte) error {
		var c isoCase
		if err := json.Unmarshal(line, &c); err != nil {
			return err
		}
		id++
		os.WriteFile(a.Out+".current", line, 0644)
		out.Emit(runIsolation(id, &c))
		out.mu.Lock()
		out.w.Flush()
		out.mu.Unlock()
		return nil
	})
}
