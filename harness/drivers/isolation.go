package drivers

import (
	"bytes"
	"encoding/json"
	"io"
	"os"
	"runtime"
	"runtime/debug"
	"strings"
	"sync"
	"time"

	"verifharness/memnet"

	"github.com/fiorix/go-diameter/v4/diam"
	"github.com/fiorix/go-diameter/v4/diam/dict"
	"github.com/fiorix/go-diameter/v4/diam/sm"
)

// Isolation driver (C15): several connections accepted by a real Server.Serve on an
// in-memory listener (with scripted temporary accept errors), an echo handler, and
// faults placed on some connections: handler panic, undecodable input, disconnect
// between / inside messages. Records answers per connection, Close, error reports,
// accepts and whether Serve returned. spec/IsolationTrace.tla decides.
// A process death (recover removed) is observed by the caller: the current scenario is
// written to <out>.current before it starts.

type isoFault struct {
	Kind string `json:"kind"`
	Pos  int    `json:"pos"`
}
type isoCase struct {
	Conns     int        `json:"conns"`
	Msgs      int        `json:"msgs"`
	Faults    []isoFault `json:"faults"`
	Temps     []int      `json:"temps"`
	SM        bool       `json:"sm"`
	DefMux    bool       `json:"defmux"`    // the Server has no Handler of its own: diam.DefaultServeMux serves and reports
	Undrained bool       `json:"undrained"` // nobody reads the error reports (runIsolationUndrained)
}
type isoConn struct {
	Msgs     int      `json:"msgs"`
	Fault    isoFault `json:"fault"`
	Answered []int    `json:"answered"`
	Intact   bool     `json:"intact"` // every answer echoes the payload of this connection's own request
	Closed   bool     `json:"closed"`
}
type isoLine struct {
	Ev            string    `json:"ev"`
	ID            int       `json:"id"`
	Case          isoCase   `json:"case"`
	Conns         []isoConn `json:"conns"`
	Reports       int       `json:"reports"`
	Accepted      int       `json:"accepted"`
	ServeReturned bool      `json:"serve_returned"`
	Died          bool      `json:"died"`
	Note          string    `json:"note"`
}

func runIsolation(id int, c *isoCase) isoLine {
	l := isoLine{Ev: "iso", ID: id, Case: *c, Conns: []isoConn{}}
	var mu sync.Mutex
	reports := 0
	echo := func(dc diam.Conn, m *diam.Message) {
		if m.Header.EndToEndID == 0xDEADDEAD {
			panic("scripted handler panic")
		}
		a := m.Answer(2001)
		for _, av := range m.AVP { // echo the request's AVPs
			a.AddAVP(av)
		}
		if m.Header.EndToEndID == 0xA5A5A5A5 {
			go a.WriteTo(dc) // answered from a worker goroutine
			return
		}
		a.WriteTo(dc)
	}
	var handler diam.Handler
	var reps <-chan *diam.ErrorReport
	if c.DefMux {
		diam.HandleFunc("CCR", echo)
		handler, reps = nil, diam.ErrorReports()
	} else if c.SM {
		mach := sm.New(srvSettings)
		mach.HandleFunc("CCR", echo)
		handler, reps = mach, mach.ErrorReports()
	} else {
		mux := diam.NewServeMux()
		mux.HandleFunc("CCR", echo)
		handler, reps = mux, mux.ErrorReports()
	}
	stop := make(chan struct{})
	go func() {
		for {
			select {
			case <-reps:
				mu.Lock()
				reports++
				mu.Unlock()
			case <-stop:
				return
			}
		}
	}()
	ln := memnet.NewListener()
	served := make(chan struct{})
	go func() {
		(&diam.Server{Handler: handler, Dict: dict.Default}).Serve(ln)
		close(served)
	}()
	tempErr := func(n int) {
		for i := 0; i < n; i++ {
			ln.PushErr(&memnet.NetErr{Msg: "scripted temporary accept error", Temp: true})
		}
	}
	conns := make([]*memnet.Conn, c.Conns)
	for k := 0; k < c.Conns; k++ {
		tempErr(c.Temps[k])
		conns[k] = memnet.NewConn()
		ln.Push(conns[k])
	}
	tempErr(c.Temps[c.Conns])
	probe := memnet.NewConn() // accepted after the trailing temporary errors
	ln.Push(probe)
	if c.SM {
		for _, mc := range append(append([]*memnet.Conn{}, conns...), probe) {
			mc.Feed(gateMsg("cer_ok", 7))
			mc.WaitOut(20, 5*time.Second)
			mc.WaitReaderBlocked(2 * time.Second)
		}
	}
	// a request of connection k, message i: a 200-byte Class AVP filled with a byte that names (k, i)
	pat := func(k, i int) byte { return byte(16*(k+1) + i) }
	mkReq := func(k, i int) []byte {
		body := rawAVP(25, 0x40, 0, 8+200, bytes.Repeat([]byte{pat(k, i)}, 200), true)
		h := diam.Header{Version: 1, MessageLength: uint32(20 + len(body)), CommandFlags: 0x80, CommandCode: 272, ApplicationID: 4, HopByHopID: uint32(i), EndToEndID: uint32(i)}
		return append(h.Serialize(), body...)
	}
	ceaLen := make([]int, c.Conns)
	for k := range conns {
		ceaLen[k] = len(conns[k].Out())
	}
	probeOff := len(probe.Out())
	dead := make([]bool, c.Conns)
	// A report is offered with a non-blocking send on a one-slot channel: it is guaranteed to
	// arrive only if the slot is free. Undecodable inputs are therefore sequenced: the next one is
	// delivered after the report of the previous one was received (or a bounded wait ran out once).
	wantReports, waitFailed := 0, false
	awaitReport := func() {
		wantReports++
		deadline := time.Now().Add(2 * time.Second)
		for !waitFailed {
			mu.Lock()
			n := reports
			mu.Unlock()
			if n >= wantReports {
				return
			}
			if time.Now().After(deadline) {
				waitFailed = true
			}
			time.Sleep(200 * time.Microsecond)
		}
	}
	for i := 1; i <= c.Msgs; i++ {
		second := make([][]byte, c.Conns)
		for k := 0; k < c.Conns; k++ {
			if dead[k] {
				continue
			}
			f := c.Faults[k]
			req := mkReq(k, i)
			if f.Kind != "none" && f.Pos == i {
				dead[k] = true
				switch f.Kind {
				case "panic":
					req[16], req[17], req[18], req[19] = 0xDE, 0xAD, 0xDE, 0xAD
					conns[k].Feed(req)
				case "bad":
					conns[k].Feed(cnBad())
					awaitReport()
				case "shortlen": // a header that declares a message shorter than a header
					sh := mkReq(k, i)[:20]
					sh[1], sh[2], sh[3] = 0, 0, 12
					conns[k].Feed(sh)
					awaitReport()
				case "avplen4": // a message whose AVP declares a length shorter than an AVP header
					al := mkReq(k, i)
					al[20+5], al[20+6], al[20+7] = 0, 0, 4
					conns[k].Feed(al)
					awaitReport()
				case "badw": // undecodable input while a worker goroutine of this connection is stuck in a Write
					inWrite := make(chan struct{}, 1)
					mck := conns[k]
					mck.WaitReaderBlocked(2 * time.Second) // the earlier requests have been answered
					mck.OnWrite = func(int, []byte) memnet.WriteOutcome {
						select {
						case inWrite <- struct{}{}:
						default:
						}
						mck.WaitClosed(30 * time.Second) // the peer has stopped reading
						return memnet.WriteOutcome{N: 0, Err: memnet.ErrClosed}
					}
					aw := mkReq(k, i)
					aw[16], aw[17], aw[18], aw[19] = 0xA5, 0xA5, 0xA5, 0xA5
					conns[k].Feed(aw)
					select {
					case <-inWrite:
					case <-time.After(2 * time.Second):
					}
					conns[k].Feed(cnBad())
					awaitReport()
				case "badbody": // a valid header whose body cannot be decoded (AVP length beyond the body)
					bb := mkReq(k, i)
					bb[20+5], bb[20+6], bb[20+7] = 0x00, 0xff, 0xff
					conns[k].Feed(bb)
					awaitReport()
				case "toodeep": // grouped AVPs nested deeper than the decoder accepts (80 KB of Failed-AVP headers)
					depth := 10050
					body := make([]byte, 8*depth)
					for d := 0; d < depth; d++ {
						n := 8 * (depth - d)
						copy(body[8*d:], []byte{0, 0, 1, 23, 0x40, byte(n >> 16), byte(n >> 8), byte(n)})
					}
					h := diam.Header{Version: 1, MessageLength: uint32(20 + len(body)), CommandFlags: 0x80, CommandCode: 272, ApplicationID: 4, HopByHopID: uint32(i), EndToEndID: uint32(i)}
					conns[k].Feed(append(h.Serialize(), body...))
					awaitReport()
				case "eof":
					conns[k].FeedErr(io.EOF)
				case "eofmid":
					conns[k].Feed(req[:11])
					conns[k].FeedErr(io.EOF)
				case "eofbody": // the whole header and a part of the body, then the peer is gone
					conns[k].Feed(req[:40])
					conns[k].FeedErr(io.EOF)
				}
				continue
			}
			// every request arrives in two fragments; the second halves are delivered after
			// the first halves of all connections, so the reads of different connections overlap
			conns[k].Feed(req[:60])
			second[k] = req[60:]
		}
		for k := 0; k < c.Conns; k++ {
			if second[k] != nil {
				conns[k].WaitReaderBlocked(2 * time.Second)
			}
		}
		for k := c.Conns - 1; k >= 0; k-- {
			if second[k] != nil {
				conns[k].Feed(second[k])
			}
		}
	}
	// the application registers another handler at run time (registration concurrent with dispatch)
	lateDone := make(chan struct{})
	go func() {
		switch h := handler.(type) {
		case *diam.ServeMux:
			h.HandleFunc("LATE", func(diam.Conn, *diam.Message) {})
		case *sm.StateMachine:
			h.HandleFunc("LATE", func(diam.Conn, *diam.Message) {})
		}
		close(lateDone)
	}()
	select {
	case <-lateDone:
	case <-time.After(300 * time.Millisecond):
		l.Note += " run-time Handle call blocked"
	}
	probe.Feed(appMsg(272, 4, true, 1))
	gone := func() bool {
		select {
		case <-served:
			return true // Serve has returned: nothing further can be accepted or is worth waiting for
		default:
			return false
		}
	}
	// positive deadlines
	for k := 0; k < c.Conns; k++ {
		f := c.Faults[k]
		want := c.Msgs
		if f.Kind != "none" {
			want = f.Pos - 1
			if !gone() {
				conns[k].WaitClosed(5 * time.Second)
			}
		}
		deadline := time.Now().Add(5 * time.Second)
		for time.Now().Before(deadline) && !gone() {
			msgs, _ := splitMsgs(conns[k].Out()[ceaLen[k]:])
			if len(msgs) >= want {
				break
			}
			time.Sleep(time.Millisecond)
		}
	}
	deadline := time.Now().Add(5 * time.Second)
	for time.Now().Before(deadline) && !gone() {
		if msgs, _ := splitMsgs(probe.Out()[probeOff:]); len(msgs) >= 1 {
			break
		}
		time.Sleep(time.Millisecond)
	}
	time.Sleep(5 * time.Millisecond)
	for k := 0; k < c.Conns; k++ {
		ic := isoConn{Msgs: c.Msgs, Fault: c.Faults[k], Answered: []int{}, Intact: true, Closed: conns[k].Closed()}
		msgs, _ := splitMsgs(conns[k].Out()[ceaLen[k]:])
		for _, m := range msgs {
			if m.Cmd == 272 && m.Flags&0x80 == 0 {
				ic.Answered = append(ic.Answered, int(m.HbH))
				echoed := m.find(25)
				if len(echoed) != 1 || !bytes.Equal(echoed[0].Payload, bytes.Repeat([]byte{pat(k, int(m.HbH))}, 200)) {
					ic.Intact = false
				}
			}
		}
		l.Conns = append(l.Conns, ic)
	}
	// the probe connection counts as one more healthy connection
	pc := isoConn{Msgs: 1, Fault: isoFault{Kind: "none"}, Answered: []int{}, Intact: true, Closed: probe.Closed()}
	if msgs, _ := splitMsgs(probe.Out()[probeOff:]); len(msgs) >= 1 {
		pc.Answered = append(pc.Answered, int(msgs[0].HbH))
	}
	l.Conns = append(l.Conns, pc)
	for _, a := range ln.Log() {
		if a == "conn" {
			l.Accepted++
		}
	}
	select {
	case <-served:
		l.ServeReturned = true
	default:
	}
	mu.Lock()
	l.Reports = reports
	mu.Unlock()
	close(stop)
	ln.Close()
	for _, mc := range conns {
		mc.Close()
	}
	probe.Close()
	return l
}

func hasTLSFault(fs []isoFault) bool {
	for _, f := range fs {
		if strings.HasPrefix(f.Kind, "tls") {
			return true
		}
	}
	return false
}

func Isolation(a Args) error {
	out, err := NewOut(a.Out)
	if err != nil {
		return err
	}
	defer out.Close()
	if a.Extra["p1"] == "1" {
		// one P and no collection: a buffer put into a sync.Pool twice is handed to two readers
		runtime.GOMAXPROCS(1)
		debug.SetGCPercent(-1)
	}
	id := 0
	return ReadLines(a.Cases, func(line []byte) error {
		var c isoCase
		if err := json.Unmarshal(line, &c); err != nil {
			return err
		}
		id++
		os.WriteFile(a.Out+".current", line, 0644)
		if c.Undrained {
			out.Emit(runIsolationUndrained(id))
		} else if hasTLSFault(c.Faults) {
			var kinds []string
			for _, f := range c.Faults {
				kinds = append(kinds, f.Kind)
			}
			out.Emit(runTLSIsolation(id, kinds))
		} else {
			out.Emit(runIsolation(id, &c))
		}
		out.mu.Lock()
		out.w.Flush()
		out.mu.Unlock()
		return nil
	})
}

// runIsolationUndrained: nobody reads the error reports, a handler is still running on connection 1, two other
// connections send undecodable input one after the other (the second report finds the slot occupied and is
// dropped, by design), then a fourth connection sends a request: it is served while the handler on connection 1
// is still running, and the faulty connections are closed.
func runIsolationUndrained(id int) isoLine {
	none := isoFault{Kind: "none"}
	c := isoCase{Conns: 4, Msgs: 1, Faults: []isoFault{none, {Kind: "bad", Pos: 1}, {Kind: "bad", Pos: 1}, none}, Temps: []int{0, 0, 0, 0, 0}, Undrained: true}
	l := isoLine{Ev: "iso", ID: id, Case: c, Conns: []isoConn{}, Note: "undrained"}
	hold := make(chan struct{})
	holding := make(chan struct{}, 1)
	mux := diam.NewServeMux()
	mux.HandleFunc("CCR", func(dc diam.Conn, m *diam.Message) {
		if m.Header.EndToEndID == 0xB0B0B0B0 {
			holding <- struct{}{}
			<-hold
		}
		a := m.Answer(2001)
		for _, av := range m.AVP {
			a.AddAVP(av)
		}
		a.WriteTo(dc)
	})
	ln := memnet.NewListener()
	served := make(chan struct{})
	go func() {
		(&diam.Server{Handler: mux, Dict: dict.Default}).Serve(ln)
		close(served)
	}()
	conns := make([]*memnet.Conn, 4)
	for k := range conns {
		conns[k] = memnet.NewConn()
		ln.Push(conns[k])
	}
	mk := func(k int, e2e uint32) []byte {
		body := rawAVP(25, 0x40, 0, 8+200, bytes.Repeat([]byte{byte(16*(k+1) + 1)}, 200), true)
		h := diam.Header{Version: 1, MessageLength: uint32(20 + len(body)), CommandFlags: 0x80, CommandCode: 272, ApplicationID: 4, HopByHopID: 1, EndToEndID: e2e}
		return append(h.Serialize(), body...)
	}
	conns[0].Feed(mk(0, 0xB0B0B0B0))
	select {
	case <-holding:
	case <-time.After(2 * time.Second):
	}
	conns[1].Feed(cnBad())
	conns[1].WaitClosed(2 * time.Second)
	conns[2].Feed(cnBad())
	conns[2].WaitClosed(2 * time.Second)
	time.Sleep(5 * time.Millisecond)
	conns[3].Feed(mk(3, 1))
	conns[3].WaitOut(20, 2*time.Second) // served while the handler of connection 1 is still running
	early := len(conns[3].Out()) >= 20
	close(hold)
	conns[0].WaitOut(20, 2*time.Second)
	time.Sleep(5 * time.Millisecond)
	for k := range conns {
		ic := isoConn{Msgs: 1, Fault: c.Faults[k], Answered: []int{}, Intact: true, Closed: conns[k].Closed()}
		msgs, _ := splitMsgs(conns[k].Out())
		for _, m := range msgs {
			if m.Cmd == 272 && m.Flags&0x80 == 0 {
				ic.Answered = append(ic.Answered, int(m.HbH))
			}
		}
		if k == 3 && !early {
			ic.Answered = []int{} // answered only after the held handler was released: not served in time
		}
		l.Conns = append(l.Conns, ic)
	}
	l.Accepted = 4
	select {
	case <-served:
		l.ServeReturned = true
	default:
	}
	// the reports were offered to a slot nobody empties: what is in it now
	select {
	case <-mux.ErrorReports():
		l.Reports = 1
	default:
	}
	ln.Close()
	for _, mc := range conns {
		mc.Close()
	}
	return l
}
