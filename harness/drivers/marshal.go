package drivers

import (
	"bytes"
	"encoding/json"
	"fmt"
	"math"
	"math/rand"
	"net"
	"reflect"
	"strings"
	"time"

	"verifharness/abs"

	"github.com/fiorix/go-diameter/v4/diam"
	"github.com/fiorix/go-diameter/v4/diam/datatype"
	"github.com/fiorix/go-diameter/v4/diam/dict"
)

// Marshal driver (C18). A family of tagged struct types covering every supported field
// shape; values are built from a choice vector (TLC enumerates the vectors) or at random.
// Each value is described by the harness's own reflection walker as an abstract field
// list (dictionary code / vendor / must from the harness's own table, semantic values
// computed arithmetically), marshalled, unmarshalled directly and after a wire round
// trip. spec/MarshalTrace.tla computes the AVPs a caller would build by hand
// (Marshal!MarshalSpec) and checks the round trips.

// ---- the struct family (AVP names of the verification dictionary)

type mInner struct {
	A uint32 `avp:"V-Unsigned32"`
	S string `avp:"V-UTF8String,omitempty"`
}
type mBase struct {
	E int32  `avp:"V-Enumerated"`
	I string `avp:"V-DiameterIdentity"`
}
type mScalars struct {
	A uint32 `avp:"V-Unsigned32"`
	B int32  `avp:"V-Integer32"`
	C uint64 `avp:"V-Unsigned64"`
	D int64  `avp:"V-Integer64"`
	S string `avp:"V-UTF8String"`
}
type mFloats struct {
	F float32   `avp:"V-Float32"`
	G float64   `avp:"V-Float64"`
	T time.Time `avp:"V-Time"`
	E int32     `avp:"V-Enumerated"`
}
type mDatatypes struct {
	A  datatype.Unsigned32       `avp:"V-Unsigned32"`
	O  datatype.OctetString      `avp:"V-OctetString"`
	I  datatype.DiameterIdentity `avp:"V-DiameterIdentity"`
	U  datatype.DiameterURI      `avp:"V-DiameterURI"`
	Tm datatype.Time             `avp:"V-Time"`
	R  datatype.IPFilterRule     `avp:"V-IPFilterRule"`
}
type mAddresses struct {
	Ad datatype.Address `avp:"V-Address"`
	Ip net.IP           `avp:"VV-Address"`
	V4 datatype.IPv4    `avp:"V-IPv4"`
}
type mNewTypes struct {
	V6 datatype.IPv6          `avp:"V-IPv6"`
	Q  datatype.QoSFilterRule `avp:"V-QoSFilterRule"`
}
type mPointers struct {
	P *uint32              `avp:"V-Unsigned32"`
	Q *string              `avp:"V-UTF8String"`
	R *datatype.Unsigned64 `avp:"V-Unsigned64"`
	G *mInner              `avp:"V-Grouped"`
}
type mSlices struct {
	Xs []uint32  `avp:"V-Unsigned32"`
	Ss []string  `avp:"V-UTF8String"`
	Ps []*uint32 `avp:"V-Integer32"`
	B  []byte    `avp:"V-OctetString"`
}
type mNested struct {
	G mInner `avp:"V-Grouped"`
	N uint32 `avp:"V-Integer32"`
	H struct {
		O datatype.OctetString `avp:"V-OctetString"`
		G mInner               `avp:"V-Grouped"`
	} `avp:"V-Grouped2"`
}
type mSliceNested struct {
	Gs []mInner  `avp:"V-Grouped"`
	Ps []*mInner `avp:"V-Grouped2"`
}
type mEmbedded struct {
	mBase
	X uint32 `avp:"V-Unsigned32"`
}
type mOmit struct {
	A  uint32   `avp:"V-Unsigned32,omitempty"`
	S  string   `avp:"V-UTF8String,omitempty"`
	P  *uint32  `avp:"V-Integer32,omitempty"`
	Xs []uint32 `avp:"V-Unsigned64,omitempty"`
	F  float64  `avp:"V-Float64,omitempty"`
	I  string   `avp:"V-DiameterIdentity,omitempty"` // (a name that ends in letters of the option's own name)
	E  int32    `avp:"V-Enumerated,omitempty"`
}
type mVendor struct {
	VA uint32               `avp:"VV-Unsigned32"`
	VO datatype.OctetString `avp:"VV-OctetString"`
	VG struct {
		A uint32 `avp:"VV-Unsigned32"`
		N string `avp:"V-UTF8String"`
	} `avp:"VV-Grouped"`
}
type mVendorOdd struct {
	W uint32               `avp:"VW-Unsigned32"`
	X datatype.OctetString `avp:"VX-OctetString"`
}
type mEmbeddedLate struct {
	X uint32 `avp:"V-Unsigned32"`
	mBase
	S string `avp:"V-UTF8String"`
}

// a group the BASE dictionary defines (Failed-AVP) whose members exist only in the message's own application
type mBaseGroup struct {
	F struct {
		X uint32 `avp:"V-Unsigned32"`
		S string `avp:"V-UTF8String"`
	} `avp:"Failed-AVP"`
	N uint32 `avp:"V-Integer32"`
}

// an anonymous struct field that carries a tag is one grouped AVP, not a flattened set of fields
type mEmbeddedTagged struct {
	mInner `avp:"V-Grouped"`
	X      uint64 `avp:"V-Unsigned64"`
}

// a group of the BASE dictionary whose rule marks members as required: omitempty is the caller's word, not the rule's
type mBaseVSA struct {
	V struct {
		Vid  uint32 `avp:"Vendor-Id"`
		Auth uint32 `avp:"Auth-Application-Id,omitempty"`
		Acct uint32 `avp:"Acct-Application-Id,omitempty"`
	} `avp:"Vendor-Specific-Application-Id"`
}

// fields of a datatype type other than (but convertible to) the type the dictionary gives the AVP
type mDatatypeConv struct {
	A datatype.Unsigned32  `avp:"V-Unsigned64"`
	B datatype.Integer32   `avp:"V-Integer64"`
	S datatype.OctetString `avp:"V-UTF8String"`
}

// the same AVP twice with another one in between (both carry the same value: a scalar field takes the first
// occurrence when unmarshalled)
type mRepeat struct {
	A uint32               `avp:"V-Unsigned32"`
	S string               `avp:"V-UTF8String"`
	B uint32               `avp:"V-Unsigned32"`
	O datatype.OctetString `avp:"V-OctetString"`
}

// signed Go integers on an Unsigned32 AVP, up to the largest value
type mSignedU32 struct {
	A int64 `avp:"V-Unsigned32"`
	B int   `avp:"VW-Unsigned32"`
}

// groups all of whose members are omitted: the group itself is still there (an empty Grouped AVP), as when built by hand
type mInnerOmit struct {
	A uint32 `avp:"V-Unsigned32,omitempty"`
	S string `avp:"V-UTF8String,omitempty"`
}
type mEmptyGroups struct {
	G mInnerOmit  `avp:"V-Grouped"`
	P *mInnerOmit `avp:"V-Grouped2"`
	N uint32      `avp:"V-Integer32"`
}

// an AVP of the base dictionary (User-Name, code 1, no vendor) in a message of an application that gives the same
// code to one of its vendor-specific AVPs
type mBaseShadow struct {
	U string `avp:"User-Name"`
	X uint32 `avp:"V-Unsigned32"`
}
type mAVPs struct {
	A  diam.AVP    `avp:"V-Unsigned32"`
	P  *diam.AVP   `avp:"V-UTF8String"`
	Xs []*diam.AVP `avp:"V-Unsigned64"`
	G  *diam.AVP   `avp:"V-Grouped"`
}

type mType struct {
	Name string
	New  func() interface{}
	Fix  func(interface{}) // adjusts a filled value to the constraints of the type
}

var mTypes = []mType{
	{"Scalars", func() interface{} { return &mScalars{} }, nil},
	{"Floats", func() interface{} { return &mFloats{} }, nil},
	{"Datatypes", func() interface{} { return &mDatatypes{} }, nil},
	{"Addresses", func() interface{} { return &mAddresses{} }, nil},
	{"NewTypes", func() interface{} { return &mNewTypes{} }, nil},
	{"Pointers", func() interface{} { return &mPointers{} }, nil},
	{"Slices", func() interface{} { return &mSlices{} }, nil},
	{"Nested", func() interface{} { return &mNested{} }, nil},
	{"SliceNested", func() interface{} { return &mSliceNested{} }, nil},
	{"Embedded", func() interface{} { return &mEmbedded{} }, nil},
	{"Omit", func() interface{} { return &mOmit{} }, nil},
	{"Vendor", func() interface{} { return &mVendor{} }, nil},
	{"AVPs", func() interface{} { return &mAVPs{} }, nil},
	{"VendorOdd", func() interface{} { return &mVendorOdd{} }, nil},
	{"EmbeddedLate", func() interface{} { return &mEmbeddedLate{} }, nil},
	{"BaseGroup", func() interface{} { return &mBaseGroup{} }, nil},
	{"EmbeddedTagged", func() interface{} { return &mEmbeddedTagged{} }, nil},
	{"BaseVSA", func() interface{} { return &mBaseVSA{} }, nil},
	{"DatatypeConv", func() interface{} { return &mDatatypeConv{} }, nil},
	{"EmptyGroups", func() interface{} { return &mEmptyGroups{} }, nil},
	{"BaseShadow", func() interface{} { return &mBaseShadow{} }, nil},
	{"Repeat", func() interface{} { return &mRepeat{} }, func(v interface{}) { r := v.(*mRepeat); r.B = r.A }},
	{"SignedU32", func() interface{} { return &mSignedU32{} }, func(v interface{}) {
		r := v.(*mSignedU32)
		pick := func(x int64) int64 {
			switch {
			case x == 0:
				return 0
			case x < 0:
				return 4294967295
			}
			return 77
		}
		r.A = pick(r.A)
		r.B = int(pick(int64(r.B)))
	}},
}

// ---- building values from a choice vector

type chooser struct {
	vec  []int
	k    int
	rnd  *rand.Rand
	used int
}

func (c *chooser) next(n int) int {
	c.used++
	if c.rnd != nil {
		return c.rnd.Intn(n)
	}
	if c.k < len(c.vec) {
		v := c.vec[c.k] % n
		c.k++
		return v
	}
	c.k++
	return 0
}

var (
	tAVP    = reflect.TypeOf(diam.AVP{})
	tAVPPtr = reflect.TypeOf((*diam.AVP)(nil))
	tTime   = reflect.TypeOf(time.Time{})
	tDTime  = reflect.TypeOf(datatype.Time{})
	tIP     = reflect.TypeOf(net.IP{})
	tAddr   = reflect.TypeOf(datatype.Address{})
	tIPv4   = reflect.TypeOf(datatype.IPv4{})
	tIPv6   = reflect.TypeOf(datatype.IPv6{})
)

// mShift: the run in progress uses the verification dictionary whose codes are shifted (same names, other codes):
// whatever a name resolved to under the other dictionary must not be remembered
var mShift uint32

func defByName(name string) (abs.Def, bool) {
	for _, d := range abs.VDefs() {
		if d.Name == name {
			d.Code += mShift
			return d, true
		}
	}
	switch name { // base dictionary
	case "Failed-AVP":
		return abs.Def{App: 0, Code: 279, Vendor: 0, Name: name, Kind: "grouped", Must: "M"}, true
	case "Vendor-Specific-Application-Id":
		return abs.Def{App: 0, Code: 260, Vendor: 0, Name: name, Kind: "grouped", Must: "M"}, true
	case "Vendor-Id":
		return abs.Def{App: 0, Code: 266, Vendor: 0, Name: name, Kind: "u32", Must: "M"}, true
	case "Auth-Application-Id":
		return abs.Def{App: 0, Code: 258, Vendor: 0, Name: name, Kind: "u32", Must: "M"}, true
	case "User-Name":
		return abs.Def{App: 0, Code: 1, Vendor: 0, Name: name, Kind: "utf8", Must: "M"}, true
	case "Acct-Application-Id":
		return abs.Def{App: 0, Code: 259, Vendor: 0, Name: name, Kind: "u32", Must: "M"}, true
	}
	return abs.Def{}, false
}

func tagOf(f reflect.StructField) (string, bool) {
	t := f.Tag.Get("avp")
	if t == "" {
		return "", false
	}
	if i := strings.Index(t, ","); i >= 0 {
		return t[:i], strings.Contains(t[i:], "omitempty")
	}
	return t, false
}

func mkAVP(d abs.Def, class int) *diam.AVP {
	var data datatype.Type
	switch d.Kind {
	case "u32":
		data = datatype.Unsigned32([]uint32{0, 0xffffffff, 77}[class])
	case "u64":
		data = datatype.Unsigned64([]uint64{0, 1 << 63, 99}[class])
	case "utf8":
		data = datatype.UTF8String([]string{"", "x", "hello"}[class])
	case "grouped":
		g := &diam.GroupedAVP{}
		if class > 0 {
			g.AddAVP(diam.NewAVP(9001+mShift, 0x40, 0, datatype.Unsigned32(5)))
		}
		if class > 1 {
			g.AddAVP(diam.NewAVP(9011+mShift, 0, 0, datatype.UTF8String("in")))
		}
		data = g
	}
	fl := uint8(0)
	if strings.Contains(d.Must, "M") {
		fl = 0x40
	}
	return diam.NewAVP(d.Code, fl, d.Vendor, data)
}

func fill(v reflect.Value, c *chooser, d abs.Def) {
	t := v.Type()
	switch {
	case t == tAVP:
		v.Set(reflect.ValueOf(*mkAVP(d, 1+c.next(2))))
		return
	case t == tAVPPtr:
		if k := c.next(3); k > 0 {
			v.Set(reflect.ValueOf(mkAVP(d, k)))
		}
		return
	case t == tTime:
		v.Set(reflect.ValueOf([]time.Time{time.Unix(0, 0), time.Unix(2085978496, 0), time.Unix(1700000000, 0)}[c.next(3)]))
		return
	case t == tDTime:
		v.Set(reflect.ValueOf(datatype.Time([]time.Time{time.Unix(0, 0), time.Unix(2085978495, 0), time.Unix(1600000000, 0)}[c.next(3)])))
		return
	case t == tIP || t == tAddr:
		// an empty Address is not a value of the type (no family): IPv4, IPv6, and another IPv4
		ips := [][]byte{{192, 0, 2, 200}, {10, 1, 2, 3}, net.ParseIP("2001:db8::7")}
		v.Set(reflect.ValueOf(ips[c.next(3)]).Convert(t))
		return
	case t == tIPv4:
		if k := c.next(2); k > 0 {
			v.Set(reflect.ValueOf(datatype.IPv4{192, 0, 2, 1}))
		} else {
			v.Set(reflect.ValueOf(datatype.IPv4{0, 0, 0, 0}))
		}
		return
	case t == tIPv6:
		b := make([]byte, 16)
		if c.next(2) > 0 {
			copy(b, net.ParseIP("2001:db8::9"))
		}
		v.Set(reflect.ValueOf(datatype.IPv6(b)))
		return
	}
	switch t.Kind() {
	case reflect.Uint32, reflect.Uint64:
		v.SetUint([]uint64{0, math.MaxUint32, 4242}[c.next(3)])
		if t.Kind() == reflect.Uint64 && v.Uint() == math.MaxUint32 {
			v.SetUint(math.MaxUint64)
		}
	case reflect.Int32:
		v.SetInt([]int64{0, math.MinInt32, -7}[c.next(3)])
	case reflect.Int, reflect.Int64:
		v.SetInt([]int64{0, math.MinInt64, 123456789012}[c.next(3)])
	case reflect.Float32:
		v.SetFloat([]float64{0, float64(float32(math.MaxFloat32)), -1.5}[c.next(3)])
	case reflect.Float64:
		v.SetFloat([]float64{0, math.SmallestNonzeroFloat64, 2.75}[c.next(3)])
	case reflect.String:
		v.SetString([]string{"", "a", "abcde"}[c.next(3)])
	case reflect.Ptr:
		if c.next(3) == 0 {
			return // nil
		}
		p := reflect.New(t.Elem())
		fill(p.Elem(), c, d)
		v.Set(p)
	case reflect.Slice:
		if t.Elem().Kind() == reflect.Uint8 {
			k := c.next(3)
			if k == 1 {
				v.Set(reflect.ValueOf([]byte{}).Convert(t))
			} else if k == 2 {
				v.Set(reflect.ValueOf([]byte{1, 2, 3}).Convert(t))
			}
			return
		}
		n := c.next(3)
		if n == 0 {
			if c.next(2) == 1 {
				v.Set(reflect.MakeSlice(t, 0, 0)) // empty but non-nil
			}
			return
		}
		s := reflect.MakeSlice(t, n, n)
		for i := 0; i < n; i++ {
			// elements take fixed value classes (no further choice points) unless they are structs
			ec := &chooser{vec: []int{1 + i, 2 - i, 1, 2, 1, 2}}
			if t.Elem() == tAVPPtr {
				s.Index(i).Set(reflect.ValueOf(mkAVP(d, 1+i)))
				continue
			}
			fill(s.Index(i), ec, d)
		}
		v.Set(s)
	case reflect.Struct:
		for i := 0; i < t.NumField(); i++ {
			f := t.Field(i)
			if f.Anonymous && f.Type.Kind() == reflect.Struct && f.Tag == "" {
				fill(v.Field(i), c, d)
				continue
			}
			name, _ := tagOf(f)
			if name == "" {
				continue
			}
			fd, ok := defByName(name)
			if !ok {
				panic("unknown AVP name in struct family: " + name)
			}
			fill(v.Field(i), c, fd)
		}
	}
}

// refillAVPs overwrites, in place, the Data of every value-typed diam.AVP field (and []diam.AVP element)
func refillAVPs(v reflect.Value) {
	t := v.Type()
	if t == tAVP {
		a := v.Addr().Interface().(*diam.AVP)
		a.Data = datatype.OctetString("overwritten by the caller")
		return
	}
	switch t.Kind() {
	case reflect.Struct:
		if t == tTime || t == tDTime {
			return
		}
		for i := 0; i < t.NumField(); i++ {
			if v.Field(i).CanSet() {
				refillAVPs(v.Field(i))
			}
		}
	case reflect.Slice:
		for i := 0; i < v.Len(); i++ {
			refillAVPs(v.Index(i))
		}
	}
}

// ---- the harness's own description of a value

type mVal struct {
	Sem    []int    `json:"sem"`
	Fields []mField `json:"fields"`
}
type mField struct {
	Name   string `json:"name"`
	Code   []int  `json:"code"`
	Vendor []int  `json:"vendor"`
	M      bool   `json:"m"`
	Kind   string `json:"kind"`
	Omit   bool   `json:"omit"`
	Empty  bool   `json:"empty"`
	Vals   []mVal `json:"vals"`
}

func semOf(v reflect.Value, kind string) []int {
	t := v.Type()
	switch {
	case t == tTime:
		return abs.Limbs64(uint64(v.Interface().(time.Time).Unix()))
	case t == tDTime:
		return abs.Limbs64(uint64(time.Time(v.Interface().(datatype.Time)).Unix()))
	}
	switch t.Kind() {
	case reflect.Uint32, reflect.Uint64:
		if kind == "u64" {
			return abs.Limbs64(v.Uint())
		}
		return abs.Limbs32(uint32(v.Uint()))
	case reflect.Int, reflect.Int32, reflect.Int64:
		if kind == "i64" {
			return abs.Limbs64(uint64(v.Int()))
		}
		return abs.Limbs32(uint32(int32(v.Int())))
	case reflect.Float32:
		return abs.Limbs32(math.Float32bits(float32(v.Float())))
	case reflect.Float64:
		return abs.Limbs64(math.Float64bits(v.Float()))
	case reflect.String:
		return abs.Ints([]byte(v.String()))
	case reflect.Slice: // byte slices: addresses, raw bytes
		b := v.Bytes()
		if kind == "addr" {
			if ip4 := net.IP(b).To4(); ip4 != nil {
				return append([]int{1}, abs.Ints(ip4)...)
			}
			if len(b) == 16 {
				return append([]int{2}, abs.Ints(b)...)
			}
			if len(b) >= 2 {
				return append([]int{int(b[0])<<8 | int(b[1])}, abs.Ints(b[2:])...)
			}
		}
		return abs.Ints(b)
	}
	return []int{}
}

func isZero(v reflect.Value) bool {
	switch v.Kind() {
	case reflect.Ptr, reflect.Interface:
		return v.IsNil()
	case reflect.Slice, reflect.String:
		return v.Len() == 0
	case reflect.Struct:
		if v.Type() == tTime || v.Type() == tDTime {
			return false
		}
		return false
	}
	return v.IsZero()
}

func avpVal(a *diam.AVP) mVal {
	x := abs.FromGo(a)
	return mVal{Sem: x.Sem, Fields: kidsAsFields(x.Kids)}
}

// children of a raw grouped AVP value, expressed as fields (one value each) so that the
// specification can rebuild them
func kidsAsFields(kids []abs.AVP) []mField {
	out := []mField{}
	for _, k := range kids {
		out = append(out, mField{Name: "raw", Code: k.Code, Vendor: k.Vendor, M: k.Flags&0x40 != 0, Kind: k.Kind, Vals: []mVal{{Sem: k.Sem, Fields: kidsAsFields(k.Kids)}}})
	}
	return out
}

func vals(v reflect.Value, d abs.Def) []mVal {
	t := v.Type()
	switch {
	case t == tAVP:
		a := v.Interface().(diam.AVP)
		return []mVal{avpVal(&a)}
	case t == tAVPPtr:
		if v.IsNil() {
			return []mVal{}
		}
		return []mVal{avpVal(v.Interface().(*diam.AVP))}
	}
	switch t.Kind() {
	case reflect.Ptr:
		if v.IsNil() {
			return []mVal{}
		}
		return vals(v.Elem(), d)
	case reflect.Slice:
		if t.Elem().Kind() == reflect.Uint8 {
			return []mVal{{Sem: semOf(v, d.Kind), Fields: []mField{}}}
		}
		out := []mVal{}
		for i := 0; i < v.Len(); i++ {
			out = append(out, vals(v.Index(i), d)...)
		}
		return out
	case reflect.Struct:
		if t != tTime && t != tDTime {
			return []mVal{{Sem: []int{}, Fields: describe(v)}}
		}
	}
	return []mVal{{Sem: semOf(v, d.Kind), Fields: []mField{}}}
}

func describe(v reflect.Value) []mField {
	out := []mField{}
	t := v.Type()
	for i := 0; i < t.NumField(); i++ {
		f := t.Field(i)
		if f.Anonymous && f.Type.Kind() == reflect.Struct && f.Tag == "" {
			out = append(out, describe(v.Field(i))...)
			continue
		}
		name, omit := tagOf(f)
		if name == "" {
			continue
		}
		d, _ := defByName(name)
		out = append(out, mField{Name: name, Code: abs.B4(d.Code), Vendor: abs.B4(d.Vendor), M: strings.Contains(d.Must, "M"), Kind: d.Kind, Omit: omit,
			Empty: isZero(v.Field(i)), Vals: vals(v.Field(i), d)})
	}
	return out
}

// ---- driver

type marshalCase struct {
	Type string `json:"type"`
	Vec  []int  `json:"vec"`
}
type marshalLine struct {
	Ev     string    `json:"ev"`
	ID     int       `json:"id"`
	Type   string    `json:"type"`
	Vec    []int     `json:"vec"`
	Used   int       `json:"used"`
	Value  []mField  `json:"value"`
	MOK    bool      `json:"mok"`
	MErr   string    `json:"merr"`
	AVPs   []abs.AVP `json:"avps"`
	HLen   int       `json:"hlen"`
	SLen   int       `json:"slen"`
	UOK    bool      `json:"uok"`
	Back   []mField  `json:"back"`
	WOK    bool      `json:"wok"`
	Back2  []mField  `json:"back2"`
	UErr   string    `json:"uerr"`
	Stable bool      `json:"stable"` // the message's AVPs are the same after the struct was given other values
	Re     bool      `json:"re"`     // the message already held the AVPs of another value of the same type
}

func runMarshal(id int, c *marshalCase, ch *chooser, dp *dict.Parser) marshalLine {
	return runMarshalRe(id, c, ch, dp, false)
}

func runMarshalRe(id int, c *marshalCase, ch *chooser, dp *dict.Parser, re bool) marshalLine {
	l := marshalLine{Ev: "marshal", ID: id, Type: c.Type, Vec: c.Vec, Value: []mField{}, AVPs: []abs.AVP{}, Back: []mField{}, Back2: []mField{}}
	if l.Vec == nil {
		l.Vec = []int{}
	}
	var mt *mType
	for i := range mTypes {
		if mTypes[i].Name == c.Type {
			mt = &mTypes[i]
		}
	}
	if mt == nil {
		l.MErr = "unknown type"
		return l
	}
	src := mt.New()
	fill(reflect.ValueOf(src).Elem(), ch, abs.Def{})
	if mt.Fix != nil {
		mt.Fix(src)
	}
	l.Used = ch.used
	l.Value = describe(reflect.ValueOf(src).Elem())
	m := diam.NewMessage(abs.VCmd, 0x80, abs.VApp, 1, 2, dp)
	l.Re = re
	if re {
		// Marshal replaces what the message holds: an earlier, different value must leave no trace
		prev := mt.New()
		fill(reflect.ValueOf(prev).Elem(), &chooser{vec: []int{2, 1, 2, 1, 2, 1, 2, 1, 2, 1, 2, 1}}, abs.Def{})
		safely(func() { m.Marshal(prev) })
	}
	perr := safely(func() {
		if err := m.Marshal(src); err != nil {
			l.MErr = err.Error()
			return
		}
		l.MOK = true
	})
	if perr != "" {
		l.MErr = perr
	}
	if !l.MOK {
		return l
	}
	l.AVPs = abs.FromGoList(m.AVP)
	l.HLen = int(m.Header.MessageLength)
	wire, err := m.Serialize()
	if err == nil {
		l.SLen = len(wire)
	}
	// the struct is given other values (reused for the next request): the message must not follow
	before, _ := json.Marshal(l.AVPs)
	safely(func() {
		fill(reflect.ValueOf(src).Elem(), &chooser{vec: []int{2, 1, 2, 1, 2, 1, 2, 1, 2, 1, 2, 1}}, abs.Def{})
		refillAVPs(reflect.ValueOf(src).Elem())
	})
	after, _ := json.Marshal(abs.FromGoList(m.AVP))
	l.Stable = string(before) == string(after)
	dst := mt.New()
	perr = safely(func() {
		if err := m.Unmarshal(dst); err != nil {
			l.UErr = err.Error()
			return
		}
		l.UOK = true
		l.Back = describe(reflect.ValueOf(dst).Elem())
	})
	if perr != "" {
		l.UErr = perr
	}
	dst2 := mt.New()
	perr = safely(func() {
		rm, err := diam.ReadMessage(bytes.NewReader(wire), dp)
		if err != nil {
			l.UErr += " wire: " + err.Error()
			return
		}
		if err := rm.Unmarshal(dst2); err != nil {
			l.UErr += " wire: " + err.Error()
			return
		}
		l.WOK = true
		l.Back2 = describe(reflect.ValueOf(dst2).Elem())
	})
	if perr != "" {
		l.UErr += " wire: " + perr
	}
	return l
}

func Marshal(a Args) error {
	out, err := NewOut(a.Out)
	if err != nil {
		return err
	}
	defer out.Close()
	vp, err := abs.NewVParser(a.Repo)
	if err != nil {
		return err
	}
	if a.Extra["list"] == "types" { // number of choice points per type, for the generator's table
		for _, t := range mTypes {
			ch := &chooser{vec: []int{2, 2, 2, 2, 2, 2, 2, 2, 2, 2, 2, 2}}
			src := t.New()
			fill(reflect.ValueOf(src).Elem(), ch, abs.Def{})
			fmt.Printf("%s %d\n", t.Name, ch.used)
		}
		return nil
	}
	vp2, err := abs.NewVParserShift(a.Repo, 300)
	if err != nil {
		return err
	}
	// the verification application gives code 1 (User-Name in the base dictionary) to a vendor-specific AVP of its own
	for _, p := range []*dict.Parser{vp, vp2} {
		x := fmt.Sprintf(`<?xml version="1.0" encoding="UTF-8"?><diameter><application id="%d" type="auth" name="Verif"><avp name="VV-Shadow" code="1" must="V" may="M,P" must-not="-" may-encrypt="-" vendor-id="%d"><data type="Unsigned32"/></avp></application></diameter>`, abs.VApp, abs.VVendor)
		if err := p.Load(strings.NewReader(x)); err != nil {
			return err
		}
	}
	id := 0
	if a.Cases != "" {
		err = ReadLines(a.Cases, func(line []byte) error {
			var c marshalCase
			if err := json.Unmarshal(line, &c); err != nil {
				return err
			}
			id++
			if id%4 == 1 {
				// the same names under the other verification dictionary (other codes), in the same process
				mShift = 300
				out.Emit(runMarshal(id, &c, &chooser{vec: c.Vec}, vp2))
				mShift = 0
				id++
			}
			out.Emit(runMarshal(id, &c, &chooser{vec: c.Vec}, vp))
			if id%3 == 0 {
				id++
				out.Emit(runMarshalRe(id, &c, &chooser{vec: c.Vec}, vp, true))
			}
			return nil
		})
		if err != nil {
			return err
		}
	}
	r := rand.New(rand.NewSource(a.Seed))
	for i := 0; i < a.N; i++ {
		c := marshalCase{Type: mTypes[r.Intn(len(mTypes))].Name, Vec: []int{}}
		id++
		out.Emit(runMarshal(id, &c, &chooser{rnd: r}, vp))
	}
	return nil
}
