package drivers

import (
	"encoding/json"
	"strings"
	"sync"
	"time"

	"verifharness/abs"
	"verifharness/memnet"

	"github.com/fiorix/go-diameter/v4/diam"
	"github.com/fiorix/go-diameter/v4/diam/dict"
)

// Mux driver (C09): replays registration histories on a real diam.ServeMux and
// records which instrumented handler fired and how many error reports were offered.

type muxReg struct {
	T    string `json:"t"`
	App  uint32 `json:"app"`
	Code uint32 `json:"code"`
	Req  bool   `json:"req"`
	Name string `json:"name"`
	Hid  int    `json:"hid"`
	Sp   string `json:"sp"`
}
type muxMsg struct {
	App  uint32 `json:"app"`
	Code uint32 `json:"code"`
	Req  bool   `json:"req"`
}
type muxCase struct {
	Msg   muxMsg   `json:"msg"`
	Short string   `json:"short"`
	Regs  []muxReg `json:"regs"`
}
type muxLine struct {
	Ev      string   `json:"ev"`
	ID      int      `json:"id"`
	Via     string   `json:"via"`
	Msg     muxMsg   `json:"msg"`
	Short   string   `json:"short"`  // short name by the harness's own reading of the dictionary XML
	GShort  string   `json:"gshort"` // short name the generator assumed
	Regs    []muxReg `json:"regs"`
	Fired   []int    `json:"fired"`
	Reports int      `json:"reports"`
}

func shortNames(repo string) (map[[2]uint32]string, error) {
	fs, _, err := abs.DefaultFiles(repo)
	if err != nil {
		return nil, err
	}
	m := map[[2]uint32]string{}
	for _, f := range fs {
		for _, a := range f.Apps {
			for _, c := range a.Cmds {
				m[[2]uint32{a.ID, c.Code}] = c.Short
			}
		}
	}
	return m, nil
}

func runMux(id int, c *muxCase, via string, short string) muxLine {
	l := muxLine{Ev: "dispatch", ID: id, Via: via, Msg: c.Msg, Short: short, GShort: c.Short, Regs: c.Regs, Fired: []int{}}
	if l.Regs == nil {
		l.Regs = []muxReg{}
	}
	mux := diam.NewServeMux()
	var mu sync.Mutex
	fired := make(chan struct{}, 16)
	for _, r := range c.Regs {
		hid := r.Hid
		h := diam.HandlerFunc(func(diam.Conn, *diam.Message) {
			mu.Lock()
			l.Fired = append(l.Fired, hid)
			mu.Unlock()
			fired <- struct{}{}
		})
		switch r.T {
		case "idx":
			mux.HandleIdx(diam.CommandIndex{AppID: r.App, Code: r.Code, Request: r.Req}, h)
		case "name":
			mux.Handle(r.Name, h)
		case "all":
			if r.Sp == "handleidx" {
				mux.HandleIdx(diam.ALL_CMD_INDEX, h)
			} else {
				mux.Handle("ALL", h)
			}
		}
	}
	var flags uint8
	if c.Msg.Req {
		flags = diam.RequestFlag
	}
	// the other header flags do not take part in the choice of the handler: P, E (with R: a request all the same), T
	flags |= []uint8{0, 0x40, 0x20, 0x10, 0x60, 0x70, 0x0f}[id%7]
	m := diam.NewMessage(c.Msg.Code, flags, c.Msg.App, 11, 22, dict.Default)
	if via == "direct+warm" {
		// the mux has already dispatched a message with the same application, code and R bit that carried
		// another dictionary, one that does not define the command: decisions are per message
		empty, _ := dict.NewParser()
		mux.ServeDIAM(nil, diam.NewMessage(c.Msg.Code, flags, c.Msg.App, 33, 44, empty))
		for drained := false; !drained; {
			select {
			case <-mux.ErrorReports():
			case <-fired:
			default:
				drained = true
			}
		}
		mu.Lock()
		l.Fired = []int{}
		mu.Unlock()
	}
	if via == "direct" || via == "direct+warm" {
		mux.ServeDIAM(nil, m)
	} else {
		mc := memnet.NewConn()
		diam.NewConn(mc, "10.0.0.2:3868", mux, dict.Default)
		b, _ := m.Serialize()
		mc.Feed(b)
		select {
		case <-fired:
		case er := <-mux.ErrorReports():
			_ = er
			l.Reports++
		case <-time.After(5 * time.Second):
		}
		mc.WaitReaderBlocked(2 * time.Second)
		// reports are counted before the test closes the transport (closing it makes the
		// serve loop report its own read error)
		select {
		case <-mux.ErrorReports():
			l.Reports++
		default:
		}
		defer func() {
			mc.Close()
			select {
			case <-mux.ErrorReports():
			case <-time.After(2 * time.Millisecond):
			}
		}()
		mu.Lock()
		l.Fired = append([]int(nil), l.Fired...)
		if l.Fired == nil {
			l.Fired = []int{}
		}
		mu.Unlock()
		return l
	}
	for {
		select {
		case <-mux.ErrorReports():
			l.Reports++
			continue
		default:
		}
		break
	}
	mu.Lock()
	defer mu.Unlock()
	l.Fired = append([]int(nil), l.Fired...)
	if l.Fired == nil {
		l.Fired = []int{}
	}
	return l
}

func Mux(a Args) error {
	out, err := NewOut(a.Out)
	if err != nil {
		return err
	}
	defer out.Close()
	sn, err := shortNames(a.Repo)
	if err != nil {
		return err
	}
	// a user dictionary whose commands have short names of three letters and of one (the embedded ones all
	// have two), loaded on top of the default dictionary in this process only
	const extra = `<?xml version="1.0" encoding="UTF-8"?><diameter><application id="4242" type="auth" name="Verif-Names">
<command code="901" short="LCS" name="Long-Short"><request><rule avp="Origin-Host" required="false"/></request><answer><rule avp="Origin-Host" required="false"/></answer></command>
<command code="902" short="Q" name="One-Letter"><request><rule avp="Origin-Host" required="false"/></request><answer><rule avp="Origin-Host" required="false"/></answer></command>
<command code="903" short="LC" name="Two-Letters"><request><rule avp="Origin-Host" required="false"/></request><answer><rule avp="Origin-Host" required="false"/></answer></command>
</application></diameter>`
	if err := dict.Default.Load(strings.NewReader(extra)); err != nil {
		return err
	}
	sn[[2]uint32{4242, 901}], sn[[2]uint32{4242, 902}], sn[[2]uint32{4242, 903}] = "LCS", "Q", "LC"
	id := 0
	return ReadLines(a.Cases, func(line []byte) error {
		var c muxCase
		if err := json.Unmarshal(line, &c); err != nil {
			return err
		}
		id++
		short, ok := sn[[2]uint32{c.Msg.App, c.Msg.Code}]
		if !ok {
			short = sn[[2]uint32{0, c.Msg.Code}]
		}
		out.Emit(runMux(id, &c, "direct", short))
		if id%3 == 0 {
			out.Emit(runMux(id, &c, "direct+warm", short))
		}
		if id%8 == int(a.Seed%8) && short != "" { // a command the dictionary does not define cannot be read from a connection
			out.Emit(runMux(id, &c, "conn", short))
		}
		return nil
	})
}
