package drivers

import (
	"math/rand"
	"sync"
	"time"

	"github.com/fiorix/go-diameter/v4/diam"
	"github.com/fiorix/go-diameter/v4/diam/dict"
)

// MuxConc driver (C09, beyond the listed quantifier): registrations concurrent with dispatch on
// one real diam.ServeMux.  Three dispatcher goroutines (one per "connection": conn.serve calls the
// handler synchronously) and two registrar goroutines work at the same time; the start and the end
// of every ServeDIAM / Handle / HandleIdx call and of every handler run are logged in one total
// order.  spec/MuxImplTrace.tla decides whether some interleaving of the lock operations and map
// accesses of spec/MuxImpl.tla explains the log.

type mcEvent struct {
	Ev    string `json:"ev"`
	P     string `json:"p"`
	App   int64  `json:"app"`
	Code  int64  `json:"code"`
	Req   bool   `json:"req"`
	Short string `json:"short"`
	T     string `json:"t"`
	Name  string `json:"name"`
	Hid   int    `json:"hid"`
}
type mcLine struct {
	Ev     string    `json:"ev"`
	ID     int       `json:"id"`
	Case   int       `json:"case"`
	Events []mcEvent `json:"events"`
}

func runMuxConc(id int, r *rand.Rand) mcLine {
	l := mcLine{Ev: "muxconc", ID: id, Case: id}
	var mu sync.Mutex
	log := func(e mcEvent) {
		mu.Lock()
		l.Events = append(l.Events, e)
		mu.Unlock()
	}
	mux := diam.NewServeMux()
	stop := make(chan struct{})
	go func() {
		for {
			select {
			case <-mux.ErrorReports():
			case <-stop:
				return
			}
		}
	}()
	type key struct {
		t, name   string
		app, code uint32
		req       bool
	}
	keys := []key{{t: "name", name: "CCR"}, {t: "idx", app: 4, code: 272, req: true}, {t: "all"}, {t: "name", name: "CCA"}, {t: "idx", app: 4, code: 272, req: false}}
	hold := []time.Duration{0, 0, 20 * time.Microsecond, 200 * time.Microsecond}
	// every fifth scenario: the handlers panic on requests of the first dispatcher (recovered by the caller, as
	// conn.serve does); whatever is registered or dispatched afterwards goes on as usual
	panics := id%5 == 0
	mkHandler := func(hid int, d time.Duration) diam.HandlerFunc {
		return func(_ diam.Conn, m *diam.Message) {
			p := []string{"d1", "d2", "d3"}[m.Header.HopByHopID%3]
			log(mcEvent{Ev: "fired", P: p, Hid: hid})
			defer log(mcEvent{Ev: "h.end", P: p})
			if d > 0 {
				time.Sleep(d)
			}
			if panics && p == "d1" {
				panic("scripted handler panic")
			}
		}
	}
	// per-goroutine plans are drawn before the goroutines start (one random source)
	type reg struct {
		k   key
		hid int
		d   time.Duration
		gap time.Duration
	}
	plans := make([][]reg, 2)
	hid := 0
	for i := range plans {
		for j := 0; j < 3; j++ {
			hid++
			plans[i] = append(plans[i], reg{keys[r.Intn(len(keys))], hid, hold[r.Intn(len(hold))], time.Duration(r.Intn(150)) * time.Microsecond})
		}
	}
	type call struct {
		req bool
		gap time.Duration
	}
	dplans := make([][]call, 3)
	for i := range dplans {
		for j := 0; j < 4; j++ {
			dplans[i] = append(dplans[i], call{r.Intn(3) > 0, time.Duration(r.Intn(100)) * time.Microsecond})
		}
	}
	var wg sync.WaitGroup
	start := make(chan struct{})
	for i := range plans {
		wg.Add(1)
		go func(i int) {
			defer wg.Done()
			p := []string{"r1", "r2"}[i]
			<-start
			for _, g := range plans[i] {
				time.Sleep(g.gap)
				log(mcEvent{Ev: "r.call", P: p, T: g.k.t, App: int64(g.k.app), Code: int64(g.k.code), Req: g.k.req, Name: g.k.name, Hid: g.hid})
				switch g.k.t {
				case "name":
					mux.Handle(g.k.name, mkHandler(g.hid, g.d))
				case "idx":
					mux.HandleIdx(diam.CommandIndex{AppID: g.k.app, Code: g.k.code, Request: g.k.req}, mkHandler(g.hid, g.d))
				default:
					mux.Handle("ALL", mkHandler(g.hid, g.d))
				}
				log(mcEvent{Ev: "r.ret", P: p})
			}
		}(i)
	}
	for i := range dplans {
		wg.Add(1)
		go func(i int) {
			defer wg.Done()
			p := []string{"d1", "d2", "d3"}[i]
			<-start
			for _, c := range dplans[i] {
				time.Sleep(c.gap)
				var f uint8
				if c.req {
					f = 0x80
				}
				m := diam.NewMessage(272, f, 4, uint32(i), uint32(i), dict.Default)
				m.Header.HopByHopID = uint32(i)
				log(mcEvent{Ev: "d.call", P: p, App: 4, Code: 272, Req: c.req, Short: "CC"})
				func() {
					defer func() { recover() }()
					mux.ServeDIAM(nil, m)
				}()
				log(mcEvent{Ev: "d.ret", P: p})
			}
		}(i)
	}
	close(start)
	fin := make(chan struct{})
	go func() { wg.Wait(); close(fin) }()
	select {
	case <-fin:
	case <-time.After(3 * time.Second):
		// some call never returned (a lock left held): the log so far, closed by an event no model step explains
		log(mcEvent{Ev: "hung"})
	}
	close(stop)
	mu.Lock()
	l.Events = append([]mcEvent(nil), l.Events...)
	mu.Unlock()
	return l
}

func MuxConc(a Args) error {
	out, err := NewOut(a.Out)
	if err != nil {
		return err
	}
	defer out.Close()
	r := rand.New(rand.NewSource(a.Seed))
	for i := 1; i <= a.N; i++ {
		out.Emit(runMuxConc(i, r))
	}
	return nil
}
