package drivers

// Registry maps driver names to entry points.
var Registry = map[string]func(Args) error{
	"codec":       Codec,
	"frame":       Frame,
	"stream":      Stream,
	"mux":         Mux,
	"answer":      Answer,
	"smanswer":    SMAnswer,
	"find":        Find,
	"cer":         CER,
	"gate":        Gate,
	"handshake":   Handshake,
	"watchdog":    Watchdog,
	"closenotify": CloseNotify,
	"serial":      Serial,
	"isolation":   Isolation,
	"write":       Write,
	"immut":       Immut,
	"dict":        Dict,
	"robust":      Robust,
	"sctp":        SCTP,
	"sctpanswer":  SCTPAnswer,
	"marshal":     Marshal,
	"muxconc":     MuxConc,
	"errrep":      ErrRep,
}
