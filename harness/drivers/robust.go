package drivers

import (
	"bytes"
	"encoding/json"
	"fmt"
	"io"
	"math/rand"
	"runtime"
	"runtime/debug"
	"sync"
	"time"

	"verifharness/abs"

	"github.com/fiorix/go-diameter/v4/diam"
	"github.com/fiorix/go-diameter/v4/diam/datatype"
	"github.com/fiorix/go-diameter/v4/diam/dict"
)

// Robust driver (C03): offers arbitrary bytes to every decoding entry point and runs
// the follow-up operations on whatever was decoded. Records outcome (ok / err / panic),
// bytes allocated and stack growth (collector off around each call), size of renderings.
// spec/RobustTrace.tla checks the bounds.

type robustCase struct {
	Bytes  []int  `json:"bytes"`
	Recipe string `json:"recipe"`
}
type postOp struct {
	Op      string `json:"op"`
	Outcome string `json:"outcome"`
	AllocKB int    `json:"alloc_kb"`
	OutLen  int    `json:"outlen"`
	Detail  string `json:"detail"`
}
type robustLine struct {
	Ev      string   `json:"ev"`
	ID      int      `json:"id"`
	N       int      `json:"n"`
	Recipe  string   `json:"recipe"`
	Entry   string   `json:"entry"`
	Outcome string   `json:"outcome"`
	Detail  string   `json:"detail"`
	AllocKB int      `json:"alloc_kb"`
	StackKB int      `json:"stack_kb"`
	OutLen  int      `json:"outlen"`
	MS      int      `json:"ms"`
	Post    []postOp `json:"post"`
	Hex     string   `json:"hex"`
}

// measure runs f with the collector off and returns outcome, allocation and stack growth.
func measure(f func() error) (outcome, detail string, allocKB, stackKB, ms int) {
	var a, b runtime.MemStats
	runtime.ReadMemStats(&a)
	t0 := time.Now()
	var err error
	p := safely(func() { err = f() })
	ms = int(time.Since(t0) / time.Millisecond)
	runtime.ReadMemStats(&b)
	allocKB = int((b.TotalAlloc - a.TotalAlloc) / 1024)
	if b.StackInuse > a.StackInuse {
		stackKB = int((b.StackInuse - a.StackInuse) / 1024)
	}
	switch {
	case p != "":
		return "panic", p, allocKB, stackKB, ms
	case err != nil:
		return "err", err.Error(), allocKB, stackKB, ms
	}
	return "ok", "", allocKB, stackKB, ms
}

type robustStruct struct {
	A  uint32               `avp:"V-Unsigned32"`
	O  datatype.OctetString `avp:"V-OctetString"`
	T  datatype.Time        `avp:"V-Time"`
	Ad datatype.Address     `avp:"V-Address"`
	G  struct {
		A uint32 `avp:"V-Unsigned32"`
		O string `avp:"V-OctetString"`
	} `avp:"V-Grouped"`
	Raw []*diam.AVP `avp:"V-Unsigned64"`
	Is  []int       `avp:"V-Integer32"`
	Ss  []string    `avp:"V-UTF8String"`
}

func hexHead(b []byte) string {
	const hexd = "0123456789abcdef"
	n := len(b)
	if n > 48 {
		n = 48
	}
	o := make([]byte, 0, 2*n)
	for _, x := range b[:n] {
		o = append(o, hexd[x>>4], hexd[x&15])
	}
	return string(o)
}

func runRobust(id int, in []byte, recipe string, dp *dict.Parser, out *Out, slowMS int, decodeOnly ...bool) {
	noPost := len(decodeOnly) > 0 && decodeOnly[0]
	mk := func(entry string) robustLine {
		return robustLine{Ev: "robust", ID: id, N: len(in), Recipe: recipe, Entry: entry, Post: []postOp{}, Hex: hexHead(in)}
	}
	fin := func(l *robustLine) {
		if l.MS > slowMS && l.Outcome != "panic" {
			l.Outcome = "slow" // no listed property bounds time: counted, not judged
		}
		out.Emit(*l)
	}
	// ReadMessage + follow-ups
	l := mk("ReadMessage")
	var m *diam.Message
	l.Outcome, l.Detail, l.AllocKB, l.StackKB, l.MS = measure(func() error {
		var err error
		m, err = diam.ReadMessage(bytes.NewReader(in), dp)
		return err
	})
	if l.Outcome == "ok" && m != nil && !noPost {
		post := func(op string, f func() (int, error)) {
			var n int
			o, d, a, _, ms := measure(func() error {
				var err error
				n, err = f()
				return err
			})
			if ms > slowMS && o != "panic" {
				o = "slow"
			}
			l.Post = append(l.Post, postOp{Op: op, Outcome: o, AllocKB: a, OutLen: n, Detail: d})
			if n > l.OutLen {
				l.OutLen = n
			}
		}
		post("String", func() (int, error) { return len(m.String()), nil })
		post("PrettyDump", func() (int, error) { return len(m.PrettyDump()), nil })
		post("Serialize", func() (int, error) { b, err := m.Serialize(); return len(b), err })
		post("WriteTo", func() (int, error) { n, err := m.WriteTo(io.Discard); return int(n), err })
		post("Answer", func() (int, error) { b, err := m.Answer(2001).Serialize(); return len(b), err })
		post("Len", func() (int, error) { return m.Len(), nil })
		post("Unmarshal", func() (int, error) { var s robustStruct; return 0, m.Unmarshal(&s) })
		post("FindAVP", func() (int, error) { _, err := m.FindAVP(uint32(9001), dict.UndefinedVendorID); return 0, err })
		post("FindAVPs", func() (int, error) { _, err := m.FindAVPs("V-OctetString", dict.UndefinedVendorID); return 0, err })
		post("FindAVPsWithPath", func() (int, error) {
			_, err := m.FindAVPsWithPath([]interface{}{uint32(9018), "V-OctetString"}, dict.UndefinedVendorID)
			return 0, err
		})
	}
	fin(&l)
	h := mk("DecodeHeader")
	h.Outcome, h.Detail, h.AllocKB, h.StackKB, h.MS = measure(func() error { _, err := diam.DecodeHeader(in); return err })
	fin(&h)
	body := in
	if len(in) >= 20 {
		body = in[20:]
	}
	post1 := func(l *robustLine, op string, f func() int) {
		var n int
		o, d, al, _, ms := measure(func() error { n = f(); return nil })
		if ms > slowMS && o != "panic" {
			o = "slow"
		}
		l.Post = append(l.Post, postOp{Op: op, Outcome: o, AllocKB: al, OutLen: n, Detail: d})
		if n > l.OutLen {
			l.OutLen = n
		}
	}
	a := mk("DecodeAVP")
	var av *diam.AVP
	a.Outcome, a.Detail, a.AllocKB, a.StackKB, a.MS = measure(func() error {
		var err error
		av, err = diam.DecodeAVP(append([]byte(nil), body...), abs.VApp, dp)
		return err
	})
	if a.Outcome == "ok" && av != nil && !noPost {
		post1(&a, "String", func() int { return len(av.String()) })
		post1(&a, "Serialize", func() int { b, _ := av.Serialize(); return len(b) })
	}
	fin(&a)
	g := mk("DecodeGrouped")
	var ga *diam.GroupedAVP
	g.Outcome, g.Detail, g.AllocKB, g.StackKB, g.MS = measure(func() error {
		var err error
		ga, err = diam.DecodeGrouped(datatype.Grouped(append([]byte(nil), body...)), abs.VApp, dp)
		return err
	})
	if g.Outcome == "ok" && ga != nil && !noPost {
		post1(&g, "String", func() int { return len(ga.String()) })
		post1(&g, "Serialize", func() int { return len(ga.Serialize()) })
	}
	fin(&g)
	pay := body
	if len(body) >= 8 {
		pay = body[8:]
	}
	d := mk("datatype.Decode")
	d.Outcome, d.Detail, d.AllocKB, d.StackKB, d.MS = measure(func() error {
		var last error
		for t := range datatype.Decoder {
			v, err := datatype.Decode(t, append([]byte(nil), pay...))
			if err != nil {
				last = err
				continue
			}
			if v != nil {
				_ = v.String()
				_ = v.Serialize()
				_ = v.Len() + v.Padding()
			}
		}
		return last
	})
	fin(&d)
}

func nested(depth int) []byte {
	// grouped AVPs nested `depth` deep: the innermost is empty
	var inner []byte
	for i := 0; i < depth; i++ {
		inner = rawAVP(9018, 0x40, 0, 8+len(inner), inner, false)
	}
	return msgBytes(inner, abs.VCmd, abs.VApp, 0x80)
}

// siblings: one grouped AVP holding n empty grouped AVPs side by side
func siblings(n int) []byte {
	var kids []byte
	for i := 0; i < n; i++ {
		kids = append(kids, rawAVP(9018, 0x40, 0, 8, nil, false)...)
	}
	return msgBytes(rawAVP(9018, 0x40, 0, 8+len(kids), kids, false), abs.VCmd, abs.VApp, 0x80)
}

func runFlood(dp *dict.Parser, out *Out) {
	const per = 40000
	var wg sync.WaitGroup
	total := 0
	var ms0 runtime.MemStats
	runtime.GC()
	runtime.ReadMemStats(&ms0)
	for g := 0; g < 4; g++ {
		wg.Add(1)
		total += per * 40
		go func(g int) {
			defer wg.Done()
			for i := 0; i < per; i++ {
				code := uint32(20000 + g*per + i)
				b := msgBytes(append(rawAVP(code, 0x80, uint32(5000+i%977), 12+4, []byte{1, 2, 3, 4}, true), rawAVP(code+1, 0, 0, 12, []byte{9, 9, 9, 9}, true)...), abs.VCmd, abs.VApp, 0x80)
				diam.ReadMessage(bytes.NewReader(b), dp)
			}
		}(g)
	}
	wg.Wait()
	debug.SetGCPercent(100)
	runtime.GC()
	var ms1 runtime.MemStats
	runtime.ReadMemStats(&ms1)
	kept := int64(ms1.HeapAlloc) - int64(ms0.HeapAlloc)
	l := robustLine{Ev: "robust", ID: 1, N: total, Recipe: "unknown-avp-flood", Entry: "ReadMessage", Post: []postOp{}, Outcome: "ok"}
	if kept > int64(total)/2+(4<<20) {
		l.Outcome = "retained"
		l.Detail = fmt.Sprintf("%d KiB still reachable after decoding %d KiB of messages that were all dropped", kept>>10, total>>10)
	}
	out.Emit(l)
}

// nestedMax: the deepest nest a message can hold - a 16 MiB message of grouped AVP headers only,
// built in linear time (level d starts at offset 8*d and spans the rest).
func nestedMax() []byte {
	depth := (1<<24 - 1 - 20) / 8
	body := make([]byte, 8*depth)
	for d := 0; d < depth; d++ {
		l := 8 * (depth - d)
		copy(body[8*d:], []byte{0, 0, 0x23, 0x3a, 0x40, byte(l >> 16), byte(l >> 8), byte(l)})
	}
	return msgBytes(body, abs.VCmd, abs.VApp, 0x80)
}

func Robust(a Args) error {
	out, err := NewOut(a.Out)
	if err != nil {
		return err
	}
	defer out.Close()
	vp, err := abs.NewVParser(a.Repo)
	if err != nil {
		return err
	}
	debug.SetGCPercent(-1)
	slow := 3000
	id := 0
	gcEvery := func() {
		if id%64 == 0 {
			debug.SetGCPercent(100)
			runtime.GC()
			debug.SetGCPercent(-1)
		}
	}
	typedInputs := func() {
		// every typed AVP of the verification dictionary with payload lengths 0..20 (whatever the type
		// expects), alone and in front of another AVP; and a well-typed AVP followed by the same code
		// under a vendor nobody defines (collected into the same slice field by Unmarshal)
		for code := uint32(9001); code <= 9018; code++ {
			for n := 0; n <= 20; n++ {
				pay := bytes.Repeat([]byte{0x31}, n)
				if n == 16 {
					pay[0] = 0x20 // not an IPv4-mapped address
				}
				one := rawAVP(code, 0x40, 0, 8+n, pay, true)
				id++
				runRobust(id, msgBytes(one, abs.VCmd, abs.VApp, 0x80), "typed-length", vp, out, slow)
				id++
				runRobust(id, msgBytes(append(one, rawAVP(9001, 0x40, 0, 12, []byte{0, 0, 0, 7}, true)...), abs.VCmd, abs.VApp, 0x80), "typed-length", vp, out, slow)
			}
			good := rawAVP(code, 0x40, 0, 12, []byte{0, 0, 0, 5}, true)
			odd := rawAVP(code, 0xC0, 4242, 12+7, []byte{1, 2, 3, 4, 5, 6, 7}, true)
			id++
			runRobust(id, msgBytes(append(good, odd...), abs.VCmd, abs.VApp, 0x80), "typed-length", vp, out, slow)
			// the V flag with Vendor-Id 0 and no payload at all (AVP length 12), as the last AVP of the message
			// and as the last member of a group
			vz := rawAVP(code, 0xC0, 0, 12, nil, true)
			id++
			runRobust(id, msgBytes(append(append([]byte{}, good...), vz...), abs.VCmd, abs.VApp, 0x80), "typed-length", vp, out, slow)
			id++
			runRobust(id, msgBytes(rawAVP(9018, 0x40, 0, 8+len(good)+len(vz), append(append([]byte{}, good...), vz...), true), abs.VCmd, abs.VApp, 0x80), "typed-length", vp, out, slow)
		}
	}
	if a.Extra["one"] != "" { // a single heavy case, run in a child process by the driver
		switch a.Extra["one"] {
		case "nest":
			depth := a.N
			// beyond a few thousand levels only decoding is exercised: rendering and re-serialising such
			// nests is quadratic (a recorded finding) and would exhaust the machine
			runRobust(1, nested(depth), "nested-groups-depth", vp, out, 600000, depth > 2048)
		case "flood":
			// AVPs nobody defines, with ever different codes and vendors, decoded by four goroutines at once:
			// nothing the library remembers about them may be shared without a lock or kept for good
			runFlood(vp, out)
		case "maxnest":
			// "stack bounded by a small multiple of the bytes supplied", enforced by the runtime itself for the
			// largest input there is: 16 x 16 MiB (the unchanged tree needs about 4 MB for this input)
			in := nestedMax()
			debug.SetMaxStack(16 * len(in))
			runRobust(1, in, "nested-groups-depth", vp, out, 600000, true)
		}
		return nil
	}
	if a.Cases != "" {
		err = ReadLines(a.Cases, func(line []byte) error {
			var c robustCase
			if err := json.Unmarshal(line, &c); err != nil {
				return err
			}
			id++
			runRobust(id, abs.Bytes(c.Bytes), c.Recipe, vp, out, slow)
			gcEvery()
			return nil
		})
		if err != nil {
			return err
		}
	}
	typedInputs()
	r := rand.New(rand.NewSource(a.Seed))
	// lengths claimed but not supplied
	for _, claim := range []int{20, 21, 24, 1043, 1044, 1045, 4096, 65536, 1 << 20, 16777215} {
		for _, supplied := range []int{20, 21, 27, 28, 40} {
			h := diam.Header{Version: 1, MessageLength: uint32(claim), CommandFlags: 0x80, CommandCode: abs.VCmd, ApplicationID: abs.VApp, HopByHopID: 1, EndToEndID: 2}
			b := h.Serialize()
			if supplied > 20 {
				extra := rawAVP(9010, 0x40, 0, 8+(supplied-28), make([]byte, max0(supplied-28)), false)
				if supplied < 28 {
					extra = extra[:supplied-20]
				}
				b = append(b, extra...)
			}
			if len(b) > claim && claim >= 20 {
				b = b[:claim]
			}
			id++
			runRobust(id, b, "claimed-length", vp, out, slow)
		}
	}
	// AVP claiming more than its container
	for _, claim := range []int{9, 1 << 16, 1 << 20, 16777215} {
		body := rawAVP(9010, 0x40, 0, claim, []byte{1}, true)
		id++
		runRobust(id, msgBytes(body, abs.VCmd, abs.VApp, 0x80), "avp-claimed-length", vp, out, slow)
	}
	for _, depth := range []int{1, 2, 4, 16, 64, 256, 1024} {
		id++
		runRobust(id, nested(depth), "nested-groups-depth", vp, out, slow)
		gcEvery()
	}
	for _, n := range []int{8, 64, 512, 1024} {
		id++
		runRobust(id, siblings(n), "sibling-groups", vp, out, slow)
		gcEvery()
	}
	// random byte strings
	for i := 0; i < a.N; i++ {
		var n int
		switch r.Intn(6) {
		case 0:
			n = r.Intn(20)
		case 1:
			n = 20 + r.Intn(44)
		case 2:
			n = 1000 + r.Intn(100)
		case 3:
			n = 4000 + r.Intn(200)
		case 4:
			n = 20
		default:
			n = r.Intn(300)
		}
		if a.Tier == "thorough" && r.Intn(50) == 0 {
			n = 65536
		}
		b := make([]byte, n)
		r.Read(b)
		if n >= 20 && r.Intn(2) == 0 { // plausible header in front of random bytes
			h := diam.Header{Version: 1, MessageLength: uint32(n), CommandFlags: byte(r.Intn(256)), CommandCode: abs.VCmd, ApplicationID: abs.VApp}
			copy(b, h.Serialize())
		}
		id++
		runRobust(id, b, "random-bytes", vp, out, slow)
		gcEvery()
	}
	// random corruptions of valid random messages
	vdefs := abs.VDefs()
	for i := 0; i < a.N; i++ {
		m := abs.Msg{Hdr: abs.RandHdr(r, abs.VCmd, abs.VApp), AVPs: []abs.AVP{}}
		for j := r.Intn(5); j >= 0; j-- {
			m.AVPs = append(m.AVPs, abs.RandAVP(r, vdefs[r.Intn(len(vdefs))], vdefs, 3))
		}
		gm, err := abs.NewMessage(&m, vp)
		if err != nil {
			continue
		}
		b, err := gm.Serialize()
		if err != nil || len(b) == 0 {
			continue
		}
		for k := 1 + r.Intn(3); k > 0; k-- {
			switch r.Intn(4) {
			case 0:
				b[r.Intn(len(b))] ^= 1 << uint(r.Intn(8))
			case 1:
				b[r.Intn(len(b))] = byte(r.Intn(256))
			case 2:
				b = b[:r.Intn(len(b)+1)]
			default:
				p := r.Intn(len(b))
				b = append(b[:p], append([]byte{byte(r.Intn(256))}, b[p:]...)...)
			}
			if len(b) == 0 {
				break
			}
		}
		id++
		runRobust(id, b, "random-mutation", vp, out, slow)
		gcEvery()
	}
	return nil
}

func max0(x int) int {
	if x < 0 {
		return 0
	}
	return x
}
