package drivers

import (
	"encoding/json"
	"math/rand"
	"sync"
	"time"

	"verifharness/abs"
	"verifharness/sctpmem"

	"github.com/fiorix/go-diameter/v4/diam"
	"github.com/fiorix/go-diameter/v4/diam/dict"
)

// SCTP driver (C19, and the stream half of C16): chunk schedules are fed to an in-memory
// association plugged under diam.SCTPConn by the `verif` hook; the bytes are consumed the
// way the library itself does, by the connection's single reader loop (diam.NewConn).
// Handlers record (message id, MessageStream()) and reply with m.Answer(...).WriteTo(c).

type sctpCase struct {
	Sizes [][]int `json:"sizes"`
	Sched [][]int `json:"sched"` // [stream (1-based), nbytes]
}
type sctpDel struct {
	Reported int  `json:"reported"`
	S        int  `json:"s"`
	M        int  `json:"m"`
	Pure     bool `json:"pure"`
}
type sctpOut struct {
	Stream int `json:"stream"`
	S      int `json:"s"`
	M      int `json:"m"`
}
type sctpLine struct {
	Ev        string    `json:"ev"`
	ID        int       `json:"id"`
	Mode      string    `json:"mode"`
	Sizes     [][]int   `json:"sizes"`
	Sched     [][]int   `json:"sched"`
	Delivered []sctpDel `json:"delivered"`
	Out       []sctpOut `json:"out"`
	Note      string    `json:"note"`
}

// wire stream number of model stream s: 0, the last of the 16 streams the library itself negotiates,
// and streams beyond them (an association may have up to 65536)
func wireStream(s int) uint16 { return []uint16{0, 15, 16, 1, 40, 9, 65535, 14}[(s-1)%8] }

func sctpStreamBytes(s int, sizes []int) []byte {
	var b []byte
	for k, l := range sizes {
		id := uint32(s*1000 + k + 1)
		h := diam.Header{Version: 1, MessageLength: uint32(l), CommandFlags: 0x80, CommandCode: abs.VCmd, ApplicationID: abs.VApp, HopByHopID: id, EndToEndID: id}
		b = append(b, h.Serialize()...)
		if l-20 >= 8 {
			b = append(b, rawAVP(9010, 0, 0, l-20, nil, false)...)
			for j := 0; j < l-28; j++ {
				b = append(b, byte(id%251))
			}
		}
	}
	return b
}

func runSCTP(id int, c *sctpCase, mode string, dp *dict.Parser) sctpLine {
	l := sctpLine{Ev: "sctp", ID: id, Mode: mode, Sizes: c.Sizes, Sched: c.Sched, Delivered: []sctpDel{}, Out: []sctpOut{}}
	as := sctpmem.New()
	var mu sync.Mutex
	total := 0
	for _, sz := range c.Sizes {
		total += len(sz)
	}
	got := make(chan struct{}, 1024)
	var pend *diam.Message // deferred mode: the request not yet answered
	var pendRC uint32
	var pendConn diam.Conn
	rev := map[uint16]int{}
	for s := range c.Sizes {
		rev[wireStream(s+1)] = s + 1
	}
	mux := diam.NewServeMux()
	mux.HandleFunc("ALL", func(dc diam.Conn, m *diam.Message) {
		s, k := int(m.Header.HopByHopID/1000), int(m.Header.HopByHopID%1000)
		d := sctpDel{Reported: -1, S: s, M: k, Pure: m.Header.EndToEndID == m.Header.HopByHopID}
		if r, ok := rev[uint16(m.MessageStream())]; ok && m.MessageStream() < 65536 {
			d.Reported = r
		}
		for _, a := range m.AVP {
			if a.Data == nil {
				d.Pure = false
				continue
			}
			for _, x := range a.Data.Serialize() {
				if x != byte(m.Header.HopByHopID%251) {
					d.Pure = false
				}
			}
		}
		if s >= 1 && s <= len(c.Sizes) && k >= 1 && k <= len(c.Sizes[s-1]) {
			if int(m.Header.MessageLength) != c.Sizes[s-1][k-1] {
				d.Pure = false
			}
		} else {
			d.Pure = false
		}
		mu.Lock()
		l.Delivered = append(l.Delivered, d)
		mu.Unlock()
		// answers with and without a Result-Code (the form used with Experimental-Result)
		rc := uint32(2001)
		if k%2 == 0 {
			rc = 0
		}
		if mode == "deferred" {
			// the application answers a request only when the next one has arrived (possibly on another
			// stream), with retries, and the first attempt of every write hits a temporary error
			if pend != nil {
				pend.Answer(pendRC).WriteToWithRetry(dc, 2)
			}
			pend, pendRC, pendConn = m, rc, dc
		} else {
			if k == 2 {
				// other code of the application pinned a writer stream for what it sends through Write (its own
				// requests): answers still go to the stream of their request
				if mw, ok := dc.(diam.MultistreamWriter); ok {
					mw.SetWriterStream(uint(m.MessageStream()) + 2)
				}
			}
			if mw, ok := dc.(diam.MultistreamWriter); ok && k == 1 {
				// the first request of a stream is answered through the Write adaptor with no writer stream
				// set: the adaptor writes to the stream being read, which is the request's (synchronous handler)
				mw.ResetWriterStream()
				if b, err := m.Answer(rc).Serialize(); err == nil {
					dc.Write(b)
				}
			} else {
				m.Answer(rc).WriteTo(dc)
			}
		}
		got <- struct{}{}
	})
	if mode == "deferred" {
		as.FailWrite = func(k int) bool { return k%2 == 1 }
	}
	stop := make(chan struct{})
	go func() {
		for {
			select {
			case <-mux.ErrorReports():
			case <-stop:
				return
			}
		}
	}()
	conn := diam.NewSCTPConnVerif(as)
	if _, err := diam.NewConn(conn, "10.0.0.2:3868", mux, dp); err != nil {
		l.Note = err.Error()
		close(stop)
		return l
	}
	streams := make([][]byte, len(c.Sizes))
	pos := make([]int, len(c.Sizes))
	for s := range c.Sizes {
		streams[s] = sctpStreamBytes(s+1, c.Sizes[s])
	}
	for _, ch := range c.Sched {
		s, n := ch[0]-1, ch[1]
		if s < 0 || s >= len(streams) || pos[s]+n > len(streams[s]) {
			l.Note = "bad schedule"
			break
		}
		as.Feed(wireStream(s+1), streams[s][pos[s]:pos[s]+n])
		pos[s] += n
		if mode == "step" {
			as.WaitReaderBlocked(2 * time.Second)
		}
	}
	deadline := time.After(3 * time.Second)
	tick := time.NewTicker(5 * time.Millisecond)
	defer tick.Stop()
	for n := 0; n < total; {
		select {
		case <-got:
			n++
		case <-tick.C:
			if as.Closed() { // the reader loop gave up: nothing more will be delivered
				n = total
			}
		case <-deadline:
			n = total
		}
	}
	as.WaitReaderBlocked(time.Second)
	if pend != nil && !as.Closed() {
		pend.Answer(pendRC).WriteToWithRetry(pendConn, 2)
	}
	mu.Lock()
	for _, o := range as.Out() {
		msgs, _ := splitMsgs(o.Data)
		for _, m := range msgs {
			r, ok := rev[o.Stream]
			if !ok {
				r = -1
			}
			l.Out = append(l.Out, sctpOut{Stream: r, S: int(m.HbH / 1000), M: int(m.HbH % 1000)})
		}
	}
	mu.Unlock()
	close(stop)
	as.Close()
	return l
}

func SCTP(a Args) error {
	out, err := NewOut(a.Out)
	if err != nil {
		return err
	}
	defer out.Close()
	vp, err := abs.NewVParser(a.Repo)
	if err != nil {
		return err
	}
	id := 0
	var cases []sctpCase
	if a.Cases != "" {
		err = ReadLines(a.Cases, func(line []byte) error {
			var c sctpCase
			if err := json.Unmarshal(line, &c); err != nil {
				return err
			}
			cases = append(cases, c)
			return nil
		})
		if err != nil {
			return err
		}
	}
	r := rand.New(rand.NewSource(a.Seed))
	for i := 0; i < a.N; i++ {
		ns := 1 + r.Intn(8)
		c := sctpCase{}
		left := []int{}
		for s := 0; s < ns; s++ {
			var sz []int
			for k := 1 + r.Intn(4); k > 0; k-- {
				sz = append(sz, []int{20, 28, 52, 100, 1044, 1045, 1500}[r.Intn(7)])
			}
			c.Sizes = append(c.Sizes, sz)
			t := 0
			for _, x := range sz {
				t += x
			}
			left = append(left, t)
		}
		for {
			var open []int
			for s, x := range left {
				if x > 0 {
					open = append(open, s)
				}
			}
			if len(open) == 0 {
				break
			}
			s := open[r.Intn(len(open))]
			n := 1 + r.Intn(1500)
			if r.Intn(3) == 0 {
				n = 1 + r.Intn(30)
			}
			if n > left[s] {
				n = left[s]
			}
			c.Sched = append(c.Sched, []int{s + 1, n})
			left[s] -= n
		}
		cases = append(cases, c)
	}
	sem := make(chan struct{}, 12)
	var wg sync.WaitGroup
	var emu sync.Mutex
	for i := range cases {
		wg.Add(1)
		sem <- struct{}{}
		id++
		go func(id int, c *sctpCase) {
			defer wg.Done()
			defer func() { <-sem }()
			l1 := runSCTP(id, c, "burst", vp)
			l2 := runSCTP(id, c, "step", vp)
			l3 := runSCTP(id, c, "deferred", vp)
			emu.Lock()
			out.Emit(l1)
			out.Emit(l2)
			out.Emit(l3)
			emu.Unlock()
		}(id, &cases[i])
	}
	wg.Wait()
	return nil
}

// SCTPAnswer (C16, stream half): a request injected on stream s; the answer built with
// Message.Answer and written with WriteTo must go out on stream s.
func SCTPAnswer(a Args) error {
	out, err := NewOut(a.Out)
	if err != nil {
		return err
	}
	defer out.Close()
	vp, err := abs.NewVParser(a.Repo)
	if err != nil {
		return err
	}
	id := 0
	ids := []uint32{0, 1, 1 << 31, 0xffffffff}
	for _, stream := range []uint16{0, 1, 7, 15, 16, 40, 65535} {
		as := sctpmem.New()
		mux := diam.NewServeMux()
		done := make(chan struct{}, 16)
		var pinned bool
		mux.HandleFunc("ALL", func(dc diam.Conn, m *diam.Message) {
			if pinned {
				// a writer stream pinned earlier by other code must not redirect answers
				if mw, ok := dc.(diam.MultistreamWriter); ok {
					mw.SetWriterStream(3)
				}
			}
			m.Answer(uint32(m.Header.EndToEndID % 2 * 2001)).WriteTo(dc)
			done <- struct{}{}
		})
		conn := diam.NewSCTPConnVerif(as)
		diam.NewConn(conn, "10.0.0.2:3868", mux, vp)
		for k, h := range ids {
			for _, e := range ids {
				pinned = k%2 == 1
				nout := len(as.Out())
				hd := diam.Header{Version: 1, MessageLength: 20, CommandFlags: 0xC0, CommandCode: abs.VCmd, ApplicationID: abs.VApp, HopByHopID: h, EndToEndID: e}
				as.Feed(stream, hd.Serialize())
				select {
				case <-done:
				case <-time.After(3 * time.Second):
				}
				as.WaitReaderBlocked(time.Second)
				id++
				l := ansLine{Ev: "answer", ID: id, Via: "sctp", Req: ansHdr{Flags: 0xC0, Cmd: abs.B3(abs.VCmd), App: abs.B4(abs.VApp), HbH: abs.B4(h), E2E: abs.B4(e)}, RC: int(e % 2 * 2001), Stream: int(stream),
					Ans: ansObs{Hdr: ansHdr{Cmd: []int{0, 0, 0}, App: []int{0, 0, 0, 0}, HbH: []int{0, 0, 0, 0}, E2E: []int{0, 0, 0, 0}}, First: ansFirst{Sem: []int{}}, Stream: -1}}
				if o := as.Out(); len(o) > nout {
					msgs, _ := splitMsgs(o[nout].Data)
					if len(msgs) == 1 {
						m := msgs[0]
						l.Ans.Hdr = ansHdr{Flags: int(m.Flags), Cmd: abs.B3(m.Cmd), App: abs.B4(m.App), HbH: abs.B4(m.HbH), E2E: abs.B4(m.E2E)}
						l.Ans.NAVPs = len(m.AVPs)
						if len(m.AVPs) > 0 && len(m.AVPs[0].Payload) == 4 {
							l.Ans.First = ansFirst{Code: int(m.AVPs[0].Code), Flags: int(m.AVPs[0].Flags), Sem: abs.Limbs32(be32(m.AVPs[0].Payload))}
						}
						l.Ans.Stream = int(o[nout].Stream)
					}
				}
				out.Emit(l)
			}
		}
		as.Close()
	}
	// deferred answers: the request arrives on stream s; it is answered - with retries, the first write
	// attempt failing temporarily - only after a message on another stream has been read
	for si, stream := range []uint16{0, 1, 7, 15, 16, 40, 65535} {
		as := sctpmem.New()
		as.FailWrite = func(k int) bool { return k%2 == 1 }
		mux := diam.NewServeMux()
		done := make(chan struct{}, 16)
		var pend *diam.Message
		mux.HandleFunc("ALL", func(dc diam.Conn, m *diam.Message) {
			if m.Header.CommandFlags&0x10 != 0 { // the trigger, on another stream
				if pend != nil {
					pend.Answer(uint32(pend.Header.EndToEndID%2*2001)).WriteToWithRetry(dc, 2)
					pend = nil
				}
				done <- struct{}{}
				return
			}
			pend = m
		})
		conn := diam.NewSCTPConnVerif(as)
		via := "sctp-deferred"
		if si%2 == 1 {
			// an association accepted by a Server with a WriteTimeout: the timeout bounds writes, it does not
			// choose the stream
			via = "sctp-deferred-wt"
			pl := newPipeListener()
			defer pl.Close()
			go (&diam.Server{Handler: mux, Dict: vp, WriteTimeout: 500 * time.Millisecond}).Serve(pl)
			pl.ch <- conn
		} else {
			diam.NewConn(conn, "10.0.0.2:3868", mux, vp)
		}
		for _, h := range ids {
			for _, e := range ids {
				nout := len(as.Out())
				hd := diam.Header{Version: 1, MessageLength: 20, CommandFlags: 0xC0, CommandCode: abs.VCmd, ApplicationID: abs.VApp, HopByHopID: h, EndToEndID: e}
				as.Feed(stream, hd.Serialize())
				as.WaitReaderBlocked(time.Second)
				tr := diam.Header{Version: 1, MessageLength: 20, CommandFlags: 0x90, CommandCode: abs.VCmd, ApplicationID: abs.VApp, HopByHopID: 77, EndToEndID: 77}
				as.Feed(stream+5, tr.Serialize()) // (wraps around for 65535)
				select {
				case <-done:
				case <-time.After(3 * time.Second):
				}
				as.WaitReaderBlocked(time.Second)
				id++
				l := ansLine{Ev: "answer", ID: id, Via: via, Req: ansHdr{Flags: 0xC0, Cmd: abs.B3(abs.VCmd), App: abs.B4(abs.VApp), HbH: abs.B4(h), E2E: abs.B4(e)}, RC: int(e % 2 * 2001), Stream: int(stream),
					Ans: ansObs{Hdr: ansHdr{Cmd: []int{0, 0, 0}, App: []int{0, 0, 0, 0}, HbH: []int{0, 0, 0, 0}, E2E: []int{0, 0, 0, 0}}, First: ansFirst{Sem: []int{}}, Stream: -1}}
				if o := as.Out(); len(o) > nout {
					msgs, _ := splitMsgs(o[nout].Data)
					if len(msgs) == 1 {
						m := msgs[0]
						l.Ans.Hdr = ansHdr{Flags: int(m.Flags), Cmd: abs.B3(m.Cmd), App: abs.B4(m.App), HbH: abs.B4(m.HbH), E2E: abs.B4(m.E2E)}
						l.Ans.NAVPs = len(m.AVPs)
						if len(m.AVPs) > 0 && len(m.AVPs[0].Payload) == 4 {
							l.Ans.First = ansFirst{Code: int(m.AVPs[0].Code), Flags: int(m.AVPs[0].Flags), Sem: abs.Limbs32(be32(m.AVPs[0].Payload))}
						}
						l.Ans.Stream = int(o[nout].Stream)
					}
				}
				out.Emit(l)
			}
		}
		as.Close()
	}
	// concurrent answers: requests on two streams are answered by two goroutines at the same time; the first
	// writer is held at the entry of the transport's write call until the second has completed its write
	for _, stream := range []uint16{0, 1, 7, 15, 16, 40, 65535} {
		as := sctpmem.New()
		mux := diam.NewServeMux()
		got := make(chan *diam.Message, 4)
		var dconn diam.Conn
		mux.HandleFunc("ALL", func(dc diam.Conn, m *diam.Message) {
			dconn = dc
			got <- m
		})
		conn := diam.NewSCTPConnVerif(as)
		diam.NewConn(conn, "10.0.0.2:3868", mux, vp)
		for _, h := range ids {
			e := h ^ 0x55
			nout := len(as.Out())
			streams := []uint16{stream, stream + 5}
			var reqs []*diam.Message
			for k, st := range streams {
				hd := diam.Header{Version: 1, MessageLength: 20, CommandFlags: 0xC0, CommandCode: abs.VCmd, ApplicationID: abs.VApp, HopByHopID: h + uint32(k), EndToEndID: e}
				as.Feed(st, hd.Serialize())
				select {
				case m := <-got:
					reqs = append(reqs, m)
				case <-time.After(3 * time.Second):
				}
			}
			if len(reqs) != 2 {
				continue
			}
			firstIn, secondDone := make(chan struct{}), make(chan struct{})
			base := -1
			as.OnWriteEnter = func(k int) {
				if base < 0 {
					base = k
				}
				if k == base { // the first writer waits inside the call until the second is through
					close(firstIn)
					select {
					case <-secondDone:
					case <-time.After(2 * time.Second):
					}
				}
			}
			var wg sync.WaitGroup
			wg.Add(2)
			go func() {
				defer wg.Done()
				reqs[0].Answer(2001).WriteTo(dconn)
			}()
			go func() {
				defer wg.Done()
				select {
				case <-firstIn:
				case <-time.After(2 * time.Second):
				}
				reqs[1].Answer(2001).WriteTo(dconn)
				close(secondDone)
			}()
			wg.Wait()
			as.OnWriteEnter = nil
			for k, st := range streams {
				id++
				hb := h + uint32(k)
				l := ansLine{Ev: "answer", ID: id, Via: "sctp-concurrent", Req: ansHdr{Flags: 0xC0, Cmd: abs.B3(abs.VCmd), App: abs.B4(abs.VApp), HbH: abs.B4(hb), E2E: abs.B4(e)}, RC: 2001, Stream: int(st),
					Ans: ansObs{Hdr: ansHdr{Cmd: []int{0, 0, 0}, App: []int{0, 0, 0, 0}, HbH: []int{0, 0, 0, 0}, E2E: []int{0, 0, 0, 0}}, First: ansFirst{Sem: []int{}}, Stream: -1}}
				for _, rec := range as.Out()[nout:] {
					msgs, _ := splitMsgs(rec.Data)
					if len(msgs) == 1 && msgs[0].HbH == hb {
						m := msgs[0]
						l.Ans.Hdr = ansHdr{Flags: int(m.Flags), Cmd: abs.B3(m.Cmd), App: abs.B4(m.App), HbH: abs.B4(m.HbH), E2E: abs.B4(m.E2E)}
						l.Ans.NAVPs = len(m.AVPs)
						if len(m.AVPs) > 0 && len(m.AVPs[0].Payload) == 4 {
							l.Ans.First = ansFirst{Code: int(m.AVPs[0].Code), Flags: int(m.AVPs[0].Flags), Sem: abs.Limbs32(be32(m.AVPs[0].Payload))}
						}
						l.Ans.Stream = int(rec.Stream)
					}
				}
				out.Emit(l)
			}
		}
		as.Close()
	}
	return nil
}
