package drivers

import (
	"encoding/json"
	"fmt"
	"io"
	"net"
	"reflect"
	"runtime"
	"sync"
	"time"
	"verifharness/sctpmem"

	"verifharness/memnet"

	"github.com/fiorix/go-diameter/v4/diam"
	"github.com/fiorix/go-diameter/v4/diam/dict"
	"github.com/fiorix/go-diameter/v4/diam/sm"
)

// Serial driver (C08): several connections, instrumented handlers that record
// enter / exit with a per-scenario sequence number taken under one lock, one handler
// optionally held by the test. spec/SerialTrace.tla validates the event trace.

type serialCase struct {
	Conns   int    `json:"conns"`
	Msgs    int    `json:"msgs"`
	Pattern string `json:"pattern"`
	Via     string `json:"via"`
	HoldC   int    `json:"holdc"`
	HoldI   int    `json:"holdi"`
	Flavour string `json:"flavour"`
}
type serialEv struct {
	Ev    string         `json:"ev"`
	Sc    int            `json:"sc"`
	Seq   int            `json:"seq"`
	C     int            `json:"c"`
	I     int            `json:"i"`
	Conns int            `json:"conns"`
	Msgs  []int          `json:"msgs"`
	Case  *serialCase    `json:"case,omitempty"`
	Hooks []serialHookEv `json:"hooks,omitempty"`
}

// hook-level log of a scenario: arrivals (logged by the test before the completing bytes are fed) and the serve
// loops' own events serve.msg / serve.ret (verif hook), in one total order
type serialHookEv struct {
	Ev string `json:"ev"`
	C  int    `json:"c"`
}
type serialHookLog struct {
	mu  sync.Mutex
	evs []serialHookEv
}

func (h *serialHookLog) add(ev string, c int) {
	h.mu.Lock()
	h.evs = append(h.evs, serialHookEv{ev, c})
	h.mu.Unlock()
}

type serialHookRef struct {
	log *serialHookLog
	c   int
}

var serialHookConns sync.Map // address of the memnet.Conn -> serialHookRef
var serialHookOnce sync.Once

func installSerialHook() {
	serialHookOnce.Do(func() {
		diam.SetVerifHook(func(point string, obj interface{}, args ...interface{}) {
			if point != "serve.msg" && point != "serve.ret" {
				return
			}
			if r, ok := serialHookConns.Load(transportOf(obj)); ok {
				ref := r.(serialHookRef)
				ref.log.add(point, ref.c)
			}
		})
	})
}

func runSerialCollect(sc int, c *serialCase, emit func(serialEv)) {
	installSerialHook()
	hl := &serialHookLog{}
	// conformance is recorded for in-memory byte-stream transports and the plain flavours
	conform := (c.Via == "server" || c.Via == "dial" || c.Via == "server+wt") && (c.Flavour == "req" || c.Flavour == "ans" || c.Flavour == "mixed" || c.Flavour == "dwr")
	var mu sync.Mutex
	var evs []serialEv
	seq := 0
	rec := func(ev string, cc, i int) {
		seq++
		evs = append(evs, serialEv{Ev: ev, Sc: sc, Seq: seq, C: cc, I: i, Msgs: []int{}})
	}
	done := make([]int, c.Conns+1)
	entered := make(chan struct{}, 64)
	gate := make(chan struct{})
	prog := make(chan struct{}, 256)
	mux := diam.NewServeMux()
	var handlerFn func(dc diam.Conn, m *diam.Message)
	mux.HandleFunc("ALL", func(dc diam.Conn, m *diam.Message) { handlerFn(dc, m) })
	handlerFn = func(dc diam.Conn, m *diam.Message) {
		cc, i := int(m.Header.HopByHopID/100), int(m.Header.HopByHopID%100)
		mu.Lock()
		rec("enter", cc, i)
		mu.Unlock()
		if c.Flavour == "panicreg" && cc == 1 && i == 1 {
			panic("scripted handler panic") // conn.serve recovers and drops connection 1 only
		}
		if (c.Flavour == "cn" || c.Flavour == "cneof") && i == 1 {
			// the application watches this connection for disconnects from its first message on: the reader
			// switches to the notifier's pipe; order and one-at-a-time are unaffected
			if cn, ok := dc.(diam.CloseNotifier); ok {
				cn.CloseNotify()
			}
		}
		if cc == c.HoldC && i == c.HoldI {
			entered <- struct{}{}
			<-gate
			if c.Flavour == "regpending" {
				// the handler files an error report of its own before returning (as the state machine's handlers do)
				mux.Error(&diam.ErrorReport{Conn: dc, Message: m, Error: fmt.Errorf("scripted report")})
			}
		}
		mu.Lock()
		rec("exit", cc, i)
		if cc >= 0 && cc < len(done) { // a torn message (two readers on one connection) can carry any id
			done[cc] = i
		}
		mu.Unlock()
		select {
		case prog <- struct{}{}:
		default:
		}
	}
	stop := make(chan struct{})
	go func() {
		for {
			select {
			case <-mux.ErrorReports():
			case <-stop:
				return
			}
		}
	}()
	conns := make([]feeder, c.Conns+1)
	var ln *memnet.Listener
	// via "sm": the connections are accepted by a server whose handler is a state machine; every peer completes the
	// capabilities exchange first, and all of them present the same Origin-Host (a peer with several connections)
	var machine *sm.StateMachine
	if c.Via == "sm" {
		machine = sm.New(srvSettings)
		machine.HandleFunc("ALL", func(dc diam.Conn, m *diam.Message) { handlerFn(dc, m) })
		go func() {
			for {
				select {
				case <-machine.ErrorReports():
				case <-stop:
					return
				}
			}
		}()
		ln = memnet.NewListener()
		go (&diam.Server{Handler: machine, Dict: dict.Default}).Serve(ln)
	}
	if c.Via == "server" || c.Via == "server+wt" {
		ln = memnet.NewListener()
		srv := &diam.Server{Handler: mux, Dict: dict.Default}
		if c.Via == "server+wt" {
			srv.WriteTimeout = 100 * time.Millisecond // bounds writes, not handlers
		}
		go srv.Serve(ln)
	}
	// via "tcp": the library dials (diam.DialTimeout -> dial) a loopback TCP listener of the test,
	// which then plays the peer over the accepted socket; without loopback the in-memory dial path is used
	var tl net.Listener
	if c.Via == "tcp" {
		tl, _ = net.Listen("tcp", "127.0.0.1:0")
	}
	var dialled []diam.Conn
	for k := 1; k <= c.Conns; k++ {
		if tl != nil {
			acc := make(chan net.Conn, 1)
			go func() {
				s, _ := tl.Accept()
				acc <- s
			}()
			dc, err := diam.DialTimeout(tl.Addr().String(), mux, dict.Default, 2*time.Second)
			var peer net.Conn
			if err == nil {
				select {
				case peer = <-acc:
				case <-time.After(2 * time.Second):
				}
			}
			if peer != nil {
				dialled = append(dialled, dc)
				conns[k] = sockFeeder{peer}
				continue
			}
		}
		if c.Via == "sctp" {
			// a multi-stream association (in-memory backend); the peer uses one non-zero stream
			as := sctpmem.New()
			conns[k] = sctpFeeder{as, 3}
			diam.NewConn(diam.NewSCTPConnVerif(as), "10.0.0.2:3868", mux, dict.Default)
			continue
		}
		mc := memnet.NewConn()
		mc.NewestFirst = c.Flavour == "cn"
		conns[k] = mc
		if conform {
			key := reflect.ValueOf(mc).Pointer()
			serialHookConns.Store(key, serialHookRef{hl, k})
			defer serialHookConns.Delete(key)
		}
		if c.Via == "sm" {
			ln.Push(mc)
			mc.Feed(gateMsg("cer_ok", uint32(9000+k)))
			mc.WaitOut(20, 3*time.Second)
			mc.WaitReaderBlocked(2 * time.Second)
		} else if c.Via == "server" || c.Via == "server+wt" {
			ln.Push(mc)
		} else {
			diam.NewConn(mc, "10.0.0.2:3868", mux, dict.Default)
		}
	}
	if tl != nil {
		defer tl.Close()
		defer func() {
			for _, dc := range dialled {
				dc.Close()
			}
		}()
	}
	msg := func(k, i int) []byte {
		if c.Flavour == "dwr" && i%2 == 0 {
			return appMsg(280, 0, true, uint32(k*100+i)) // a watchdog request between application requests
		}
		req := c.Flavour != "ans" && !(c.Flavour == "mixed" && i%2 == 0)
		return appMsg(272, 4, req, uint32(k*100+i))
	}
	regPending := c.Flavour == "regpending" && c.HoldC > 0
	switch {
	case c.Flavour == "cn":
		// message by message: the next one is sent when the previous one has been handled and the reader is
		// parked again (so the CloseNotify request of the first handler is in effect for the reads that follow)
		for i := 1; i <= c.Msgs; i++ {
			for k := 1; k <= c.Conns; k++ {
				conns[k].Feed(msg(k, i))
			}
			deadline := time.Now().Add(time.Second)
			for time.Now().Before(deadline) {
				mu.Lock()
				ok := true
				for k := 1; k <= c.Conns; k++ {
					if done[k] < i {
						ok = false
					}
				}
				mu.Unlock()
				if ok {
					break
				}
				time.Sleep(200 * time.Microsecond)
			}
			for k := 1; k <= c.Conns; k++ {
				if mc, isMem := conns[k].(*memnet.Conn); isMem {
					mc.WaitReaderBlocked(500 * time.Millisecond)
				}
			}
		}
	case c.Flavour == "cneof":
		conns[1].Feed(msg(1, 1))
		deadline := time.Now().Add(time.Second)
		for time.Now().Before(deadline) {
			mu.Lock()
			ok := done[1] >= 1
			mu.Unlock()
			if ok {
				break
			}
			time.Sleep(200 * time.Microsecond)
		}
		if mc, isMem := conns[1].(*memnet.Conn); isMem {
			mc.WaitReaderBlocked(500 * time.Millisecond)
		}
		conns[1].Feed(append(msg(1, 2), msg(1, 3)...))
	case c.Flavour == "panicreg":
		// connection 1's first handler panics; afterwards the application registers a further handler (which must
		// not wait for anything) and the other connections are served as usual
		conns[1].Feed(msg(1, 1))
		if mc, isMem := conns[1].(*memnet.Conn); isMem {
			mc.WaitClosed(time.Second)
		}
		regDone := make(chan struct{})
		go func() {
			mux.HandleFunc("ULR", func(diam.Conn, *diam.Message) {})
			close(regDone)
		}()
		select {
		case <-regDone:
		case <-time.After(time.Second):
			mu.Lock()
			rec("blocked", 2, 0)
			mu.Unlock()
		}
		for k := 2; k <= c.Conns; k++ {
			var b []byte
			for i := 1; i <= c.Msgs; i++ {
				b = append(b, msg(k, i)...)
			}
			conns[k].Feed(b)
		}
	case regPending:
		// only the connection whose handler will be held; the others follow once a registration is pending
		var b []byte
		for i := 1; i <= c.Msgs; i++ {
			b = append(b, msg(c.HoldC, i)...)
		}
		conns[c.HoldC].Feed(b)
	case c.Pattern == "burst":
		for k := 1; k <= c.Conns; k++ {
			var b []byte
			for i := 1; i <= c.Msgs; i++ {
				b = append(b, msg(k, i)...)
				hl.add("arrive", k)
			}
			conns[k].Feed(b)
		}
	case c.Pattern == "bytes":
		for i := 1; i <= c.Msgs; i++ {
			for off := 0; off < 20; off++ {
				for k := 1; k <= c.Conns; k++ {
					if off == 19 {
						hl.add("arrive", k)
					}
					conns[k].Feed(msg(k, i)[off : off+1])
				}
			}
		}
	default: // interleaved across connections
		for i := 1; i <= c.Msgs; i++ {
			for k := 1; k <= c.Conns; k++ {
				hl.add("arrive", k)
				conns[k].Feed(msg(k, i))
			}
		}
	}
	allOthersDone := func() (bool, int) {
		mu.Lock()
		defer mu.Unlock()
		for k := 1; k <= c.Conns; k++ {
			if k != c.HoldC && done[k] < c.Msgs {
				return false, k
			}
		}
		return true, 0
	}
	if c.HoldC > 0 {
		select {
		case <-entered:
			if c.Flavour == "cneof" {
				if mc, isMem := conns[c.HoldC].(*memnet.Conn); isMem {
					mc.FeedErr(io.EOF) // the peer leaves while the second handler is still running
				}
			}
			if regPending {
				go mux.HandleFunc("ULR", func(diam.Conn, *diam.Message) {}) // waits for the held handler
				time.Sleep(5 * time.Millisecond)
				for k := 1; k <= c.Conns; k++ {
					if k != c.HoldC {
						var b []byte
						for i := 1; i <= c.Msgs; i++ {
							b = append(b, msg(k, i)...)
						}
						conns[k].Feed(b)
					}
				}
			}
			// positive deadline: every other connection makes progress while this handler is held
			// (not with a registration pending: the mux dispatches under its read lock)
			deadline := time.Now().Add(2 * time.Second)
			for !regPending {
				ok, k := allOthersDone()
				if ok {
					break
				}
				if time.Now().After(deadline) {
					mu.Lock()
					rec("blocked", k, 0)
					mu.Unlock()
					break
				}
				select {
				case <-prog:
				case <-time.After(time.Millisecond):
				}
			}
			// negative observation (one-sided grace period): the next message of the held
			// connection has arrived in full; its handler must not start
			if c.Via == "server+wt" {
				time.Sleep(180 * time.Millisecond) // longer than the server's WriteTimeout
			} else {
				time.Sleep(30 * time.Millisecond)
			}
			close(gate)
		case <-time.After(2 * time.Second):
			close(gate)
		}
	}
	deadline := time.Now().Add(2 * time.Second)
	for time.Now().Before(deadline) {
		mu.Lock()
		all := true
		for k := 1; k <= c.Conns; k++ {
			if done[k] < c.Msgs && !(c.Flavour == "panicreg" && k == 1) {
				all = false
			}
		}
		mu.Unlock()
		if all {
			break
		}
		select {
		case <-prog:
		case <-time.After(time.Millisecond):
		}
	}
	mu.Lock()
	rec("end", 0, 0)
	final := append([]serialEv(nil), evs...)
	mu.Unlock()
	close(stop)
	for k := 1; k <= c.Conns; k++ {
		conns[k].Close()
	}
	if ln != nil {
		ln.Close()
	}
	ms := make([]int, c.Conns)
	for i := range ms {
		ms[i] = c.Msgs
	}
	if c.Flavour == "panicreg" {
		ms[0] = 0 // connection 1 dies in its first handler
	}
	emit(serialEv{Ev: "reset", Sc: sc, Conns: c.Conns, Msgs: ms, Case: c})
	for _, e := range final {
		emit(e)
	}
	if conform {
		hl.mu.Lock()
		hooks := append([]serialHookEv{}, hl.evs...)
		hl.mu.Unlock()
		emit(serialEv{Ev: "hooklog", Sc: sc, Msgs: []int{}, Hooks: hooks})
	}
}

// feeder is the peer's end of a connection: bytes fed reach the library's reader.
type feeder interface {
	Feed([]byte)
	Close() error
}
type sctpFeeder struct {
	as     *sctpmem.Assoc
	stream uint16
}

func (s sctpFeeder) Feed(b []byte) { s.as.Feed(s.stream, b) }
func (s sctpFeeder) Close() error  { return s.as.Close() }

// runSerialWStall: as many connections as there are Ps have their handlers stuck inside WriteTo (the peers
// stopped reading); one more connection must still be served and answered.
func runSerialWStall(sc int, emit func(serialEv)) {
	p := runtime.GOMAXPROCS(0)
	n := p + 1
	var mu sync.Mutex
	var evs []serialEv
	seq := 0
	rec := func(ev string, cc, i int) {
		seq++
		evs = append(evs, serialEv{Ev: ev, Sc: sc, Seq: seq, C: cc, I: i, Msgs: []int{}})
	}
	done := make([]bool, n+1)
	entered := make(chan int, 4*n)
	mux := diam.NewServeMux()
	mux.HandleFunc("ALL", func(dc diam.Conn, m *diam.Message) {
		cc := int(m.Header.HopByHopID / 100)
		mu.Lock()
		rec("enter", cc, 1)
		mu.Unlock()
		entered <- cc
		m.Answer(2001).WriteTo(dc)
		mu.Lock()
		rec("exit", cc, 1)
		if cc >= 0 && cc < len(done) {
			done[cc] = true
		}
		mu.Unlock()
	})
	stop := make(chan struct{})
	go func() {
		for {
			select {
			case <-mux.ErrorReports():
			case <-stop:
				return
			}
		}
	}()
	gate := make(chan struct{})
	conns := make([]*memnet.Conn, n+1)
	for k := 1; k <= n; k++ {
		conns[k] = memnet.NewConn()
		if k <= p {
			conns[k].OnWrite = func(int, []byte) memnet.WriteOutcome { return memnet.WriteOutcome{N: -1, Gate: gate} }
		}
		diam.NewConn(conns[k], "10.0.0.2:3868", mux, dict.Default)
	}
	for k := 1; k <= p; k++ {
		conns[k].Feed(appMsg(272, 4, true, uint32(k*100+1)))
	}
	deadline := time.After(2 * time.Second)
	for got := 0; got < p; {
		select {
		case <-entered:
			got++
		case <-deadline:
			got = p
		}
	}
	conns[n].Feed(appMsg(272, 4, true, uint32(n*100+1)))
	ok := false
	for t0 := time.Now(); time.Since(t0) < 2*time.Second; time.Sleep(time.Millisecond) {
		mu.Lock()
		ok = done[n]
		mu.Unlock()
		if ok {
			break
		}
	}
	if !ok {
		mu.Lock()
		rec("blocked", n, 0)
		mu.Unlock()
	}
	close(gate)
	for t0 := time.Now(); time.Since(t0) < 2*time.Second; time.Sleep(time.Millisecond) {
		mu.Lock()
		all := true
		for k := 1; k <= n; k++ {
			all = all && done[k]
		}
		mu.Unlock()
		if all {
			break
		}
	}
	mu.Lock()
	rec("end", 0, 0)
	final := append([]serialEv(nil), evs...)
	mu.Unlock()
	close(stop)
	for k := 1; k <= n; k++ {
		conns[k].Close()
	}
	ms := make([]int, n)
	for i := range ms {
		ms[i] = 1
	}
	emit(serialEv{Ev: "reset", Sc: sc, Conns: n, Msgs: ms, Case: &serialCase{Conns: n, Msgs: 1, Pattern: "wstall", Via: "dial", Flavour: "req"}})
	for _, e := range final {
		emit(e)
	}
}

type sockFeeder struct{ c net.Conn }

func (s sockFeeder) Feed(b []byte) { s.c.Write(b) }
func (s sockFeeder) Close() error  { return s.c.Close() }

func Serial(a Args) error {
	out, err := NewOut(a.Out)
	if err != nil {
		return err
	}
	defer out.Close()
	var cases []serialCase
	err = ReadLines(a.Cases, func(line []byte) error {
		var c serialCase
		if err := json.Unmarshal(line, &c); err != nil {
			return err
		}
		cases = append(cases, c)
		return nil
	})
	if err != nil {
		return err
	}
	// scenarios are independent; run 32 at a time, each emitting its events as one block
	sem := make(chan struct{}, 32)
	var wg sync.WaitGroup
	var emu sync.Mutex
	for i := range cases {
		wg.Add(1)
		sem <- struct{}{}
		go func(i int) {
			defer wg.Done()
			defer func() { <-sem }()
			tmp := &blockOut{}
			runSerialTo(i+1, &cases[i], tmp)
			emu.Lock()
			for _, e := range tmp.evs {
				out.Emit(e)
			}
			emu.Unlock()
		}(i)
	}
	wg.Wait()
	// handlers stuck in WriteTo on as many connections as there are Ps
	tmp := &blockOut{}
	runSerialWStall(len(cases)+1, func(e serialEv) { tmp.evs = append(tmp.evs, e) })
	for _, e := range tmp.evs {
		out.Emit(e)
	}
	return nil
}

type blockOut struct{ evs []serialEv }

func runSerialTo(sc int, c *serialCase, b *blockOut) {
	runSerialCollect(sc, c, func(e serialEv) { b.evs = append(b.evs, e) })
}
