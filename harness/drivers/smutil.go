package drivers

import (
	"context"
	"fmt"
	"sync"
	"sync/atomic"
	"time"

	"verifharness/abs"
	"verifharness/memnet"

	"github.com/fiorix/go-diameter/v4/diam"
	"github.com/fiorix/go-diameter/v4/diam/avp"
	"github.com/fiorix/go-diameter/v4/diam/datatype"
	"github.com/fiorix/go-diameter/v4/diam/dict"
	"github.com/fiorix/go-diameter/v4/diam/sm"
	"github.com/fiorix/go-diameter/v4/diam/sm/smpeer"
)

// ---- the harness's own reader of wire bytes (walks declared lengths; no library decoder)

type wireAVP struct {
	Code    uint32
	Flags   uint8
	Vendor  uint32
	Payload []byte
}
type wireMsg struct {
	Version uint8
	Len     int
	Flags   uint8
	Cmd     uint32
	App     uint32
	HbH     uint32
	E2E     uint32
	AVPs    []wireAVP
	Raw     []byte
}

var inbandSeq uint32

func be32(b []byte) uint32 {
	return uint32(b[0])<<24 | uint32(b[1])<<16 | uint32(b[2])<<8 | uint32(b[3])
}
func be24(b []byte) int { return int(b[0])<<16 | int(b[1])<<8 | int(b[2]) }

func splitAVPs(b []byte) ([]wireAVP, error) {
	var out []wireAVP
	for len(b) > 0 {
		if len(b) < 8 {
			return out, fmt.Errorf("short AVP header")
		}
		a := wireAVP{Code: be32(b), Flags: b[4]}
		l := be24(b[5:8])
		hl := 8
		if a.Flags&0x80 != 0 {
			hl = 12
		}
		if l < hl || l > len(b) {
			return out, fmt.Errorf("bad AVP length %d", l)
		}
		if hl == 12 {
			a.Vendor = be32(b[8:12])
		}
		a.Payload = append([]byte(nil), b[hl:l]...)
		out = append(out, a)
		adv := (l + 3) &^ 3
		if adv > len(b) {
			adv = len(b)
		}
		b = b[adv:]
	}
	return out, nil
}

// splitMsgs cuts a byte stream into messages by their declared lengths.
func splitMsgs(b []byte) (msgs []wireMsg, rest []byte) {
	for len(b) >= 20 {
		l := be24(b[1:4])
		if l < 20 || l > len(b) {
			break
		}
		m := wireMsg{Version: b[0], Len: l, Flags: b[4], Cmd: uint32(be24(b[5:8])), App: be32(b[8:12]), HbH: be32(b[12:16]), E2E: be32(b[16:20]), Raw: append([]byte(nil), b[:l]...)}
		m.AVPs, _ = splitAVPs(b[20:l])
		msgs = append(msgs, m)
		b = b[l:]
	}
	return msgs, b
}

func (m *wireMsg) find(code uint32) []wireAVP {
	var r []wireAVP
	for _, a := range m.AVPs {
		if a.Code == code {
			r = append(r, a)
		}
	}
	return r
}

func (m *wireMsg) u32(code uint32) (uint32, bool) {
	for _, a := range m.AVPs {
		if a.Code == code && len(a.Payload) == 4 {
			return be32(a.Payload), true
		}
	}
	return 0, false
}

// ---- capabilities exchange test inputs

type appItem struct {
	T     string    `json:"t"`     // "acct" | "auth" | "vsa"
	ID    []int     `json:"id"`    // 4 bytes (acct / auth)
	VPos  string    `json:"vpos"`  // vsa: position of Vendor-Id: "first" | "last" | "absent"
	Inner []appItem `json:"inner"` // vsa: acct / auth items
}

type cerSpec struct {
	OH     string    `json:"oh"`     // "absent" | "empty" | "present"
	OR     string    `json:"or"`     // same
	Inband string    `json:"inband"` // "absent" | "zero" | "nonzero"
	Items  []appItem `json:"items"`
	HbH    []int     `json:"hbh"`
	E2E    []int     `json:"e2e"`
	NoM    bool      `json:"nom"` // the application AVPs are sent without the M bit
}

const peerHost = "peer.example.net"
const peerRealm = "example.net"

func appAVP(it appItem) *diam.AVP {
	id := datatype.Unsigned32(abs.U32(it.ID))
	switch it.T {
	case "acct":
		return diam.NewAVP(avp.AcctApplicationID, avp.Mbit, 0, id)
	case "auth":
		return diam.NewAVP(avp.AuthApplicationID, avp.Mbit, 0, id)
	}
	g := &diam.GroupedAVP{}
	vid := diam.NewAVP(avp.VendorID, avp.Mbit, 0, datatype.Unsigned32(10415))
	if it.VPos == "first" {
		g.AddAVP(vid)
	}
	for _, in := range it.Inner {
		g.AddAVP(appAVP(in))
	}
	if it.VPos == "last" {
		g.AddAVP(vid)
	}
	return diam.NewAVP(avp.VendorSpecificApplicationID, avp.Mbit, 0, g)
}

// buildCER assembles the request with the library's message API (its serialisation is
// judged by C01/C02) in RFC order, application items in the order given.
func buildCER(c *cerSpec, dp *dict.Parser) []byte {
	m := diam.NewRequest(diam.CapabilitiesExchange, 0, dp)
	m.Header.HopByHopID = abs.U32(c.HbH)
	m.Header.EndToEndID = abs.U32(c.E2E)
	switch c.OH {
	case "present":
		m.NewAVP(avp.OriginHost, avp.Mbit, 0, datatype.DiameterIdentity(peerHost))
	case "empty":
		m.NewAVP(avp.OriginHost, avp.Mbit, 0, datatype.DiameterIdentity(""))
	}
	switch c.OR {
	case "present":
		m.NewAVP(avp.OriginRealm, avp.Mbit, 0, datatype.DiameterIdentity(peerRealm))
	case "empty":
		m.NewAVP(avp.OriginRealm, avp.Mbit, 0, datatype.DiameterIdentity(""))
	}
	m.NewAVP(avp.HostIPAddress, avp.Mbit, 0, datatype.Address([]byte{10, 0, 0, 2}))
	m.NewAVP(avp.VendorID, avp.Mbit, 0, datatype.Unsigned32(99))
	m.NewAVP(avp.ProductName, 0, 0, datatype.UTF8String("peer"))
	switch c.Inband {
	case "zero":
		m.NewAVP(avp.InbandSecurityID, avp.Mbit, 0, datatype.Unsigned32(0))
	case "nonzero":
		// the class "non-zero" is more than TLS (1): cycle through other members, the boundary values included
		k := atomic.AddUint32(&inbandSeq, 1)
		m.NewAVP(avp.InbandSecurityID, avp.Mbit, 0, datatype.Unsigned32([]uint32{1, 2, 0xffffffff, 7, 0x80000000, 256, 3}[k%7]))
	}
	for _, it := range c.Items {
		a := appAVP(it)
		if c.NoM { // the application AVPs travel without the M bit: what they say is the same
			a.Flags &^= avp.Mbit
			if g, ok := a.Data.(*diam.GroupedAVP); ok {
				for _, in := range g.AVP {
					in.Flags &^= avp.Mbit
				}
			}
		}
		m.AddAVP(a)
	}
	b, _ := m.Serialize()
	return b
}

func goodCER(hbh, e2e uint32) *cerSpec {
	return &cerSpec{OH: "present", OR: "present", Inband: "zero", Items: []appItem{{T: "auth", ID: abs.B4(4)}}, HbH: abs.B4(hbh), E2E: abs.B4(e2e)}
}

// simple application request / answer of application 4 (Credit-Control) with no AVPs
func appMsg(code, app uint32, req bool, hbh uint32) []byte {
	var f uint8
	if req {
		f = 0x80
	}
	h := diam.Header{Version: 1, MessageLength: 20, CommandFlags: f, CommandCode: code, ApplicationID: app, HopByHopID: hbh, EndToEndID: hbh}
	return h.Serialize()
}

func buildDWR(hbh, e2e uint32, withOSID bool, oh, or string) []byte {
	return buildDWRv(hbh, e2e, withOSID, 77, oh, or)
}

func buildDWRv(hbh, e2e uint32, withOSID bool, osid uint32, oh, or string) []byte {
	m := diam.NewRequest(diam.DeviceWatchdog, 0, dict.Default)
	m.Header.HopByHopID, m.Header.EndToEndID = hbh, e2e
	if oh != "" {
		m.NewAVP(avp.OriginHost, avp.Mbit, 0, datatype.DiameterIdentity(oh))
	}
	if or != "" {
		m.NewAVP(avp.OriginRealm, avp.Mbit, 0, datatype.DiameterIdentity(or))
	}
	if withOSID {
		m.NewAVP(avp.OriginStateID, avp.Mbit, 0, datatype.Unsigned32(osid))
	}
	b, _ := m.Serialize()
	return b
}

// ---- a server-side state machine on an in-memory connection

type smServer struct {
	SM   *sm.StateMachine
	Conn *memnet.Conn
	mu   sync.Mutex
	// invocations of application handlers: key + metadata seen
	Fired []firedRec
	ch    chan struct{}
	stop  chan struct{}
	Reps  []string
	ln    *memnet.Listener
	extra []*memnet.Conn
}

// addConn lets the same state machine accept one more connection (with its own local endpoint).
func (s *smServer) addConn(local string) *memnet.Conn {
	c := memnet.NewConn()
	if local != "" {
		c.SetLocal(local)
	}
	s.extra = append(s.extra, c)
	s.ln.Push(c)
	return c
}

type firedRec struct {
	Key  string
	Meta bool
	OH   string
	OR   string
	Apps []uint32
	Cmd  uint32
	App  uint32
	Req  bool
	HbH  uint32
	Seq  int64
}

var srvSettings = &sm.Settings{
	OriginHost:  datatype.DiameterIdentity("srv.local.test"),
	OriginRealm: datatype.DiameterIdentity("local.test"),
	VendorID:    13,
	ProductName: "verif-srv",
}

func (s *smServer) record(key string) diam.HandlerFunc {
	return func(c diam.Conn, m *diam.Message) {
		r := firedRec{Key: key, Cmd: m.Header.CommandCode, App: m.Header.ApplicationID, Req: m.Header.CommandFlags&0x80 != 0, HbH: m.Header.HopByHopID, Seq: memnet.Seq()}
		if c != nil {
			if meta, ok := smpeer.FromContext(c.Context()); ok {
				r.Meta, r.OH, r.OR = true, string(meta.OriginHost), string(meta.OriginRealm)
				r.Apps = append([]uint32(nil), meta.Applications...)
			}
		}
		s.mu.Lock()
		s.Fired = append(s.Fired, r)
		s.mu.Unlock()
		select {
		case s.ch <- struct{}{}:
		default:
		}
	}
}

func (s *smServer) fired() []firedRec {
	s.mu.Lock()
	defer s.mu.Unlock()
	return append([]firedRec(nil), s.Fired...)
}

func (s *smServer) waitFired(n int, d time.Duration) bool {
	deadline := time.Now().Add(d)
	for {
		s.mu.Lock()
		k := len(s.Fired)
		s.mu.Unlock()
		if k >= n {
			return true
		}
		if time.Now().After(deadline) {
			return false
		}
		select {
		case <-s.ch:
		case <-time.After(2 * time.Millisecond):
		}
	}
}

// newSMServer starts a state machine serving one in-memory connection, through
// Server.Serve on an in-memory listener (the real accept path).
func newSMServer(settings *sm.Settings, local string, register func(s *smServer), dp ...*dict.Parser) *smServer {
	s := &smServer{SM: sm.New(settings), Conn: memnet.NewConn(), ch: make(chan struct{}, 64), stop: make(chan struct{})}
	if local != "" {
		s.Conn.SetLocal(local)
	}
	if register != nil {
		register(s)
	}
	go func() {
		for {
			select {
			case er := <-s.SM.ErrorReports():
				s.mu.Lock()
				s.Reps = append(s.Reps, er.Error.Error())
				s.mu.Unlock()
			case <-s.stop:
				return
			}
		}
	}()
	ln := memnet.NewListener()
	s.ln = ln
	srv := &diam.Server{Handler: s.SM}
	if len(dp) > 0 {
		srv.Dict = dp[0]
	}
	go srv.Serve(ln)
	ln.Push(s.Conn)
	go func() {
		<-s.stop
		ln.Close()
	}()
	return s
}

func (s *smServer) shutdown() {
	s.Conn.Close()
	for _, c := range s.extra {
		c.Close()
	}
	close(s.stop)
}

var _ = context.Background
