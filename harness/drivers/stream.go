package drivers

import (
	"bufio"
	"encoding/json"
	"io"
	"math/rand"
	"runtime"
	"runtime/debug"
	"sync"
	"time"

	"verifharness/abs"
	"verifharness/memnet"

	"github.com/fiorix/go-diameter/v4/diam"
	"github.com/fiorix/go-diameter/v4/diam/dict"
)

// Stream driver (C05): a byte stream of messages with declared lengths, truncated
// and fragmented as the case says, is read (a) by successive diam.ReadMessage calls on
// a reader that returns exactly the fragments and (b) by a real connection's serve
// loop over memnet. spec/StreamTrace.tla compares with StreamRef!Expected.

type streamCase struct {
	Lens   []int `json:"lens"`
	Total  int   `json:"total"`
	Chunks []int `json:"chunks"`
}

type streamResult struct {
	Kind     string `json:"kind"`
	Idx      int    `json:"idx"`
	Consumed int    `json:"consumed"`
	Pure     bool   `json:"pure"`
}

type streamLine struct {
	Ev      string         `json:"ev"`
	ID      int            `json:"id"`
	Path    string         `json:"path"`
	Exact   bool           `json:"exact"` // consumed counts are exact (no read-ahead buffer in front)
	Lens    []int          `json:"lens"`
	Total   int            `json:"total"`
	Chunks  []int          `json:"chunks"`
	Results []streamResult `json:"results"`
	Err     string         `json:"err"`
	StallAt int            `json:"stallat"` // path conn+timeout: bytes delivered before the peer stalls
}

func idxByte(i int) byte { return byte(i%250 + 1) }

// streamBytes builds the concatenation; message i (1-based) has hop-by-hop id i and a
// single OctetString AVP whose payload bytes all equal idxByte(i).
func streamBytes(lens []int) []byte {
	var b []byte
	for k, l := range lens {
		i := k + 1
		h := diam.Header{Version: 1, MessageLength: uint32(l), CommandFlags: 0x80, CommandCode: abs.VCmd, ApplicationID: abs.VApp, HopByHopID: uint32(i), EndToEndID: uint32(i)}
		b = append(b, h.Serialize()...)
		if l < 20 {
			for j := 0; j < 40; j++ {
				b = append(b, 0xEE)
			}
			continue
		}
		body := l - 20
		if body >= 8 {
			b = append(b, rawAVP(9010, 0, 0, body, nil, false)...)
			for j := 0; j < body-8; j++ {
				b = append(b, idxByte(i))
			}
		} else {
			for j := 0; j < body; j++ {
				b = append(b, 0)
			}
		}
	}
	return b
}

func classify(m *diam.Message) (idx int, pure bool) {
	idx = int(m.Header.HopByHopID)
	pure = m.Header.EndToEndID == m.Header.HopByHopID
	want := idxByte(idx)
	for _, a := range m.AVP {
		if a.Data == nil {
			pure = false
			continue
		}
		for _, x := range a.Data.Serialize() {
			if x != want {
				pure = false
			}
		}
	}
	if int(m.Header.MessageLength) > 20 && len(m.AVP) != 1 {
		pure = false
	}
	return
}

type chunkReader struct {
	eofWithLast bool // the Read that returns the last byte returns io.EOF with it (as iotest.DataErrReader)
	data        []byte
	chunks      []int
	pos         int
	left        int // bytes left in the current chunk
	ci          int
}

func (r *chunkReader) Read(p []byte) (int, error) {
	for r.left == 0 {
		if r.ci >= len(r.chunks) {
			return 0, io.EOF
		}
		r.left = r.chunks[r.ci]
		r.ci++
	}
	n := len(p)
	if n > r.left {
		n = r.left
	}
	copy(p, r.data[r.pos:r.pos+n])
	r.pos += n
	r.left -= n
	if r.eofWithLast && r.left == 0 && r.ci >= len(r.chunks) {
		return n, io.EOF
	}
	return n, nil
}

func runStreamDirect(id int, c *streamCase, dp *dict.Parser) streamLine {
	return runStreamDirectX(id, c, dp, false)
}

// eofWithLast: the source returns its last bytes and io.EOF in the same Read call
func runStreamDirectX(id int, c *streamCase, dp *dict.Parser, eofWithLast bool) streamLine {
	return runStreamDirectY(id, c, dp, eofWithLast, false)
}

// buffered: the caller reads through a bufio.Reader of its own (a captured stream, a file); what ReadMessage has
// consumed is what the underlying reader gave minus what is still buffered
func runStreamDirectY(id int, c *streamCase, dp *dict.Parser, eofWithLast, buffered bool) streamLine {
	path := map[bool]string{false: "readmessage", true: "readmessage+eof-with-data"}[eofWithLast]
	if buffered {
		path = "readmessage+bufio"
	}
	l := streamLine{Ev: "stream", ID: id, Path: path, Exact: true, Lens: c.Lens, Total: c.Total, Chunks: c.Chunks, Results: []streamResult{}}
	data := streamBytes(c.Lens)
	if c.Total < len(data) {
		data = data[:c.Total]
	}
	r := &chunkReader{data: data, chunks: c.Chunks, eofWithLast: eofWithLast}
	var src io.Reader = r
	var br *bufio.Reader
	if buffered {
		br = bufio.NewReader(r)
		src = br
	}
	pos := func() int {
		if br != nil {
			return r.pos - br.Buffered()
		}
		return r.pos
	}
	p := safely(func() {
		for k := 0; k < len(c.Lens)+2; k++ {
			m, err := diam.ReadMessage(src, dp)
			if err == io.EOF {
				l.Results = append(l.Results, streamResult{Kind: "eof", Consumed: pos(), Pure: true})
				return
			}
			if err != nil {
				l.Err = err.Error()
				l.Results = append(l.Results, streamResult{Kind: "err", Consumed: pos(), Pure: true})
				return
			}
			idx, pure := classify(m)
			l.Results = append(l.Results, streamResult{Kind: "msg", Idx: idx, Consumed: pos(), Pure: pure})
		}
	})
	if p != "" {
		l.Err = p
		l.Results = append(l.Results, streamResult{Kind: "panic", Consumed: pos()})
	}
	return l
}

func runStreamConn(id int, c *streamCase, dp *dict.Parser, cnAt int) streamLine {
	l := streamLine{Ev: "stream", ID: id, Path: map[bool]string{false: "conn", true: "conn+closenotify"}[cnAt > 0], Exact: false, Lens: c.Lens, Total: c.Total, Chunks: c.Chunks, Results: []streamResult{}}
	data := streamBytes(c.Lens)
	if c.Total < len(data) {
		data = data[:c.Total]
	}
	mc := memnet.NewConn()
	mux := diam.NewServeMux()
	var mu sync.Mutex
	nmsg := 0
	mux.HandleFunc("ALL", func(dc diam.Conn, m *diam.Message) {
		idx, pure := classify(m)
		nmsg++
		if nmsg == cnAt {
			// the handler asks for close notification while later bytes may already be buffered
			dc.(diam.CloseNotifier).CloseNotify()
		}
		mu.Lock()
		l.Results = append(l.Results, streamResult{Kind: "msg", Idx: idx, Pure: pure})
		mu.Unlock()
	})
	reported := make(chan string, 4)
	stop := make(chan struct{})
	go func() {
		for {
			select {
			case er := <-mux.ErrorReports():
				select {
				case reported <- er.Error.Error():
				default:
				}
			case <-stop:
				return
			}
		}
	}()
	_, err := diam.NewConn(mc, "10.0.0.2:3868", mux, dp)
	if err != nil {
		l.Err = err.Error()
		close(stop)
		return l
	}
	pos := 0
	withLast := cnAt > 0 && id%2 == 0 && len(c.Chunks) > 0 // the transport returns the last bytes together with the end of the stream
	for k, n := range c.Chunks {
		if withLast && k == len(c.Chunks)-1 {
			mc.FeedLastWithErr(data[pos:pos+n], io.EOF)
		} else {
			mc.Feed(data[pos : pos+n])
		}
		pos += n
	}
	if !withLast {
		mc.FeedErr(io.EOF)
	}
	if !mc.WaitClosed(10 * time.Second) {
		l.Err = "connection not closed after end of stream"
	}
	kind := "eof"
	select {
	case e := <-reported:
		kind, l.Err = "err", e
	default: // the serve loop does not report how the stream ended; not judged on this path
	}
	close(stop)
	mu.Lock()
	l.Results = append(l.Results, streamResult{Kind: kind, Pure: true})
	mu.Unlock()
	return l
}

// runStreamTimeout: an accepted connection of a Server with ReadTimeout; the peer stalls after
// `stallat` bytes for longer than the timeout and then sends the rest. Messages wholly received
// before the stall are delivered, the connection is closed, nothing sent afterwards is delivered
// (in particular nothing that starts in the middle of a message).
func runStreamTimeout(id int, c *streamCase, dp *dict.Parser) streamLine {
	l := streamLine{Ev: "stream", ID: id, Path: "conn+timeout", Exact: false, Lens: c.Lens, Total: c.Total, Chunks: c.Chunks, Results: []streamResult{}}
	data := streamBytes(c.Lens)
	if c.Total < len(data) {
		data = data[:c.Total]
	}
	l.StallAt = (id * 7) % (len(data) + 1)
	mc := memnet.NewConn()
	mux := diam.NewServeMux()
	var mu sync.Mutex
	mux.HandleFunc("ALL", func(dc diam.Conn, m *diam.Message) {
		idx, pure := classify(m)
		mu.Lock()
		l.Results = append(l.Results, streamResult{Kind: "msg", Idx: idx, Pure: pure})
		mu.Unlock()
	})
	stop := make(chan struct{})
	go func() {
		for {
			select {
			case <-mux.ErrorReports():
			case <-stop:
				return
			}
		}
	}()
	ln := memnet.NewListener()
	go (&diam.Server{Handler: mux, Dict: dp, ReadTimeout: 50 * time.Millisecond}).Serve(ln)
	ln.Push(mc)
	mc.Feed(data[:l.StallAt]) // one fragment: whole messages in it are read at once
	mc.WaitClosed(150 * time.Millisecond)
	mc.Feed(data[l.StallAt:])
	mc.FeedErr(io.EOF)
	if !mc.WaitClosed(10 * time.Second) {
		l.Err = "connection not closed after the read timeout"
	}
	time.Sleep(2 * time.Millisecond)
	close(stop)
	ln.Close()
	mu.Lock()
	l.Results = append(l.Results, streamResult{Kind: "err", Pure: true})
	mu.Unlock()
	return l
}

// runStreamSlow: a Server with ReadTimeout and a slow but healthy peer: nothing for 0.6 x timeout, then one
// fragment carrying the first message and the beginning of the second, then after another 0.6 x timeout the
// rest.  No single wait reaches the timeout, so every message is delivered (the deadline belongs to the
// message being waited for, not to the previous one).  A run whose measured gaps came out too long (loaded
// machine) is dropped, not judged.
func runStreamSlow(id int, c *streamCase, dp *dict.Parser) (streamLine, bool) {
	l := streamLine{Ev: "stream", ID: id, Path: "conn+slow", Exact: false, Lens: c.Lens, Total: c.Total, Chunks: c.Chunks, Results: []streamResult{}}
	data := streamBytes(c.Lens)
	if c.Total < len(data) {
		data = data[:c.Total]
	}
	const rt = 400 * time.Millisecond
	const gap = rt * 6 / 10
	const limit = rt * 85 / 100
	m2end := c.Lens[0] + c.Lens[1]
	if m2end > len(data) {
		m2end = len(data)
	}
	cut := c.Lens[0] + 1 + (id*7)%(m2end-c.Lens[0]-1) // inside the second message
	l.StallAt = cut
	mc := memnet.NewConn()
	mux := diam.NewServeMux()
	var mu sync.Mutex
	mux.HandleFunc("ALL", func(dc diam.Conn, m *diam.Message) {
		idx, pure := classify(m)
		mu.Lock()
		l.Results = append(l.Results, streamResult{Kind: "msg", Idx: idx, Pure: pure})
		mu.Unlock()
	})
	stop := make(chan struct{})
	defer close(stop)
	go func() {
		for {
			select {
			case <-mux.ErrorReports():
			case <-stop:
				return
			}
		}
	}()
	ln := memnet.NewListener()
	defer ln.Close()
	t0 := time.Now()
	go (&diam.Server{Handler: mux, Dict: dp, ReadTimeout: rt}).Serve(ln)
	ln.Push(mc)
	time.Sleep(gap)
	mc.Feed(data[:cut])
	g1 := time.Since(t0)
	mc.WaitReaderBlocked(100 * time.Millisecond)
	t1 := time.Now()
	time.Sleep(gap)
	mc.Feed(data[cut:])
	g2 := time.Since(t1)
	mc.FeedErr(io.EOF)
	if g1 > limit || g2 > limit {
		mc.WaitClosed(2 * time.Second)
		return l, false
	}
	if !mc.WaitClosed(10 * time.Second) {
		l.Err = "connection not closed at the end of the stream"
	}
	time.Sleep(2 * time.Millisecond)
	mu.Lock()
	l.Results = append(l.Results, streamResult{Kind: "err", Pure: true})
	mu.Unlock()
	return l, true
}

func Stream(a Args) error {
	out, err := NewOut(a.Out)
	if err != nil {
		return err
	}
	defer out.Close()
	vp, err := abs.NewVParser(a.Repo)
	if err != nil {
		return err
	}
	id := 0
	timeoutEvery := 4
	var tmo []streamCase
	var tmoID []int
	run := func(c *streamCase) {
		id++
		out.Emit(runStreamDirect(id, c, vp))
		if id%3 == 0 {
			out.Emit(runStreamDirectX(id, c, vp, true))
		}
		if id%3 == 1 {
			out.Emit(runStreamDirectY(id, c, vp, false, true))
		}
		out.Emit(runStreamConn(id, c, vp, 0))
		out.Emit(runStreamConn(id, c, vp, 1+id%2))
		if id%timeoutEvery == 0 {
			tmo = append(tmo, *c)
			tmoID = append(tmoID, id)
		}
	}
	if a.Cases != "" {
		err = ReadLines(a.Cases, func(line []byte) error {
			var c streamCase
			if err := json.Unmarshal(line, &c); err != nil {
				return err
			}
			run(&c)
			return nil
		})
		if err != nil {
			return err
		}
	}
	// messages longer than 64 KiB (the length field has 24 bits), followed by a small one
	for _, big := range []int{65536, 70052, 131072 + 28} {
		c := streamCase{Lens: []int{100, big, 28}, Total: 128 + big, Chunks: []int{}}
		for left := c.Total; left > 0; {
			k := 30000
			if k > left {
				k = left
			}
			c.Chunks = append(c.Chunks, k)
			left -= k
		}
		run(&c)
	}
	r := rand.New(rand.NewSource(a.Seed))
	sizes := []int{20, 28, 32, 100, 1043, 1044, 1045, 1100, 4100, 4200, 9000}
	for i := 0; i < a.N; i++ {
		n := 1 + r.Intn(40)
		if r.Intn(10) == 0 {
			n = 100 + r.Intn(100)
		}
		c := streamCase{}
		total := 0
		for k := 0; k < n; k++ {
			s := sizes[r.Intn(len(sizes))]
			if r.Intn(3) == 0 {
				s = 28 + r.Intn(2000)
			}
			c.Lens = append(c.Lens, s)
			total += s
		}
		if r.Intn(8) == 0 { // malformed declaration at the end
			c.Lens = append(c.Lens, r.Intn(20))
			total += 20 + 40
		}
		c.Total = total
		if r.Intn(3) == 0 {
			c.Total = r.Intn(total + 1)
		}
		left := c.Total
		mode := r.Intn(4)
		for left > 0 {
			var k int
			switch mode {
			case 0:
				k = 1
				if left > 3000 { // keep one-byte reads affordable
					k = 1 + r.Intn(3)
				}
			case 1:
				k = 1 + r.Intn(64)
			case 2:
				k = 1 + r.Intn(5000)
			default:
				k = []int{1, 19, 20, 21, 1024, 4096, 7}[r.Intn(7)]
			}
			if k > left {
				k = left
			}
			c.Chunks = append(c.Chunks, k)
			left -= k
		}
		if c.Chunks == nil {
			c.Chunks = []int{}
		}
		run(&c)
	}
	// the read-timeout path waits for real time: run those scenarios 64 at a time
	lines := make([]streamLine, len(tmo))
	sem := make(chan struct{}, 64)
	var wg sync.WaitGroup
	for k := range tmo {
		wg.Add(1)
		sem <- struct{}{}
		go func(k int) {
			defer wg.Done()
			defer func() { <-sem }()
			lines[k] = runStreamTimeout(tmoID[k], &tmo[k], vp)
		}(k)
	}
	// the slow-peer scenarios: the first 24 of those with at least two declared messages and a byte of the second
	slow := make([]streamLine, len(tmo))
	judged := make([]bool, len(tmo))
	ns := 0
	for k := range tmo {
		c := &tmo[k]
		if ns >= 24 || len(c.Lens) < 2 || c.Lens[0] < 20 || c.Lens[1] < 20 || c.Total < c.Lens[0]+2 {
			continue
		}
		ns++
		wg.Add(1)
		go func(k int) {
			defer wg.Done()
			slow[k], judged[k] = runStreamSlow(tmoID[k], &tmo[k], vp)
		}(k)
	}
	wg.Wait()
	for k := range lines {
		out.Emit(lines[k])
	}
	// last (it changes a package variable for the rest of the process): the application raises the exported
	// diam.MessageBufferLength after messages have been read; a body between the old and the new value is read
	// whichever buffer the pool hands out
	{
		prevP := runtime.GOMAXPROCS(1)
		debug.SetGCPercent(-1)
		small := streamCase{Lens: []int{100}, Total: 100, Chunks: []int{100}}
		runStreamDirect(0, &small, vp)
		diam.MessageBufferLength = 4096
		id++
		grown := streamCase{Lens: []int{100, 2060, 100}, Total: 2260, Chunks: []int{2260}}
		out.Emit(runStreamDirect(id, &grown, vp))
		debug.SetGCPercent(100)
		runtime.GOMAXPROCS(prevP)
	}
	for k := range slow {
		if judged[k] {
			out.Emit(slow[k])
		}
	}
	return nil
}
