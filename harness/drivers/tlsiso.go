package drivers

import (
	"bytes"
	"crypto/ecdsa"
	"crypto/elliptic"
	"crypto/rand"
	"crypto/tls"
	"crypto/x509"
	"crypto/x509/pkix"
	"encoding/binary"
	"io"
	"math/big"
	"net"
	"sync"
	"time"

	"github.com/fiorix/go-diameter/v4/diam"
	"github.com/fiorix/go-diameter/v4/diam/dict"
)

// TLS half of the isolation driver (C15): a real Server.Serve behind tls.NewListener over
// in-memory pipes.  Faults are placed in the TLS handshake: a peer that sends the beginning
// of a ClientHello and then stays silent for ever ("tlsstall"), and a peer whose handshake
// fails ("tlsbad").  Healthy peers that connect before, between and after them complete their
// handshake and are served; the listener keeps accepting.

type pipeListener struct {
	ch     chan net.Conn
	done   chan struct{}
	once   sync.Once
	mu     sync.Mutex
	naccpt int
}

func newPipeListener() *pipeListener {
	return &pipeListener{ch: make(chan net.Conn, 16), done: make(chan struct{})}
}
func (l *pipeListener) Accept() (net.Conn, error) {
	select {
	case c := <-l.ch:
		l.mu.Lock()
		l.naccpt++
		l.mu.Unlock()
		return c, nil
	case <-l.done:
		return nil, io.ErrClosedPipe
	}
}
func (l *pipeListener) Close() error   { l.once.Do(func() { close(l.done) }); return nil }
func (l *pipeListener) Addr() net.Addr { return pipeAddr{} }
func (l *pipeListener) accepted() int {
	l.mu.Lock()
	defer l.mu.Unlock()
	return l.naccpt
}

type pipeAddr struct{}

func (pipeAddr) Network() string { return "tcp" }
func (pipeAddr) String() string  { return "10.0.0.1:3868" }

// addrConn gives a net.Pipe end TCP-looking addresses
type addrConn struct{ net.Conn }

func (addrConn) LocalAddr() net.Addr  { return pipeAddr{} }
func (addrConn) RemoteAddr() net.Addr { return pipeAddr{} }

var (
	certOnce sync.Once
	certVal  tls.Certificate
	certErr  error
)

// selfSigned: one certificate per process
func selfSigned() (tls.Certificate, error) {
	certOnce.Do(func() { certVal, certErr = newSelfSigned() })
	return certVal, certErr
}

func newSelfSigned() (tls.Certificate, error) {
	key, err := ecdsa.GenerateKey(elliptic.P256(), rand.Reader)
	if err != nil {
		return tls.Certificate{}, err
	}
	tpl := &x509.Certificate{SerialNumber: big.NewInt(1), Subject: pkix.Name{CommonName: "verif"},
		NotBefore: time.Now().Add(-time.Hour), NotAfter: time.Now().Add(24 * time.Hour),
		KeyUsage: x509.KeyUsageDigitalSignature, ExtKeyUsage: []x509.ExtKeyUsage{x509.ExtKeyUsageServerAuth}, DNSNames: []string{"verif"}}
	der, err := x509.CreateCertificate(rand.Reader, tpl, tpl, &key.PublicKey, key)
	if err != nil {
		return tls.Certificate{}, err
	}
	return tls.Certificate{Certificate: [][]byte{der}, PrivateKey: key}, nil
}

// runTLSIsolation: faults[k] in {"none", "tlsstall", "tlsbad"}, connections are made in order
func runTLSIsolation(id int, faults []string) isoLine {
	c := isoCase{Conns: len(faults), Msgs: 1, Faults: []isoFault{}, Temps: make([]int, len(faults)+1), SM: false}
	for _, f := range faults {
		pos := 0
		if f != "none" {
			pos = 1
		}
		c.Faults = append(c.Faults, isoFault{Kind: f, Pos: pos})
	}
	l := isoLine{Ev: "iso", ID: id, Case: c, Conns: []isoConn{}, Note: "tls"}
	cert, err := selfSigned()
	if err != nil {
		l.Note = "tls: cannot make a certificate: " + err.Error()
		return l
	}
	var mu sync.Mutex
	reports := 0
	mux := diam.NewServeMux()
	mux.HandleFunc("CCR", func(dc diam.Conn, m *diam.Message) {
		a := m.Answer(2001)
		for _, av := range m.AVP {
			a.AddAVP(av)
		}
		a.WriteTo(dc)
	})
	stop := make(chan struct{})
	defer close(stop)
	go func() {
		for {
			select {
			case <-mux.ErrorReports():
				mu.Lock()
				reports++
				mu.Unlock()
			case <-stop:
				return
			}
		}
	}()
	pl := newPipeListener()
	served := make(chan struct{})
	go func() {
		(&diam.Server{Handler: mux, Dict: dict.Default}).Serve(tls.NewListener(pl, &tls.Config{Certificates: []tls.Certificate{cert}}))
		close(served)
	}()
	var keep []net.Conn
	defer func() {
		for _, k := range keep {
			k.Close()
		}
		pl.Close()
	}()
	for k, f := range faults {
		srvEnd, cliEnd := net.Pipe()
		keep = append(keep, cliEnd)
		pl.ch <- addrConn{srvEnd}
		ic := isoConn{Msgs: 1, Fault: c.Faults[k], Answered: []int{}, Intact: true}
		switch f {
		case "tlsstall":
			// a record header announcing 100 bytes of handshake, 10 of them, then silence for ever
			go cliEnd.Write(append([]byte{0x16, 0x03, 0x01, 0x00, 0x64}, bytes.Repeat([]byte{1}, 10)...))
			time.Sleep(5 * time.Millisecond)
		case "tlsbad":
			go cliEnd.Write(bytes.Repeat([]byte{0xff}, 64))
			// the server gives the handshake up and closes the transport: the peer reads (an alert, then) the end
			cliEnd.SetReadDeadline(time.Now().Add(3 * time.Second))
			buf := make([]byte, 256)
			for {
				_, err := cliEnd.Read(buf)
				if err != nil {
					ne, isNet := err.(net.Error)
					ic.Closed = !(isNet && ne.Timeout())
					break
				}
			}
		default:
			tc := tls.Client(cliEnd, &tls.Config{InsecureSkipVerify: true})
			tc.SetDeadline(time.Now().Add(3 * time.Second))
			if err := tc.Handshake(); err != nil {
				l.Note += " conn " + string(rune('1'+k)) + ": handshake: " + err.Error()
				break
			}
			body := rawAVP(25, 0x40, 0, 8+200, bytes.Repeat([]byte{byte(16 * (k + 1))}, 200), true)
			h := diam.Header{Version: 1, MessageLength: uint32(20 + len(body)), CommandFlags: 0x80, CommandCode: 272, ApplicationID: 4, HopByHopID: 1, EndToEndID: 1}
			if _, err := tc.Write(append(h.Serialize(), body...)); err != nil {
				break
			}
			hdr := make([]byte, 20)
			if _, err := io.ReadFull(tc, hdr); err != nil {
				break
			}
			n := int(binary.BigEndian.Uint32(hdr[0:4]) & 0xffffff)
			rest := make([]byte, n-20)
			if _, err := io.ReadFull(tc, rest); err != nil {
				break
			}
			ic.Answered = append(ic.Answered, int(binary.BigEndian.Uint32(hdr[12:16])))
			ic.Intact = bytes.Contains(rest, bytes.Repeat([]byte{byte(16 * (k + 1))}, 200))
			// still open: a short read runs into its deadline, not into the end of the stream
			tc.SetReadDeadline(time.Now().Add(20 * time.Millisecond))
			if _, err := tc.Read(hdr[:1]); err != nil {
				ne, isNet := err.(net.Error)
				ic.Closed = !(isNet && ne.Timeout())
			}
		}
		l.Conns = append(l.Conns, ic)
	}
	l.Accepted = pl.accepted()
	select {
	case <-served:
		l.ServeReturned = true
	default:
	}
	mu.Lock()
	l.Reports = reports
	mu.Unlock()
	return l
}
