package drivers

import (
	"bufio"
	"encoding/json"
	"fmt"
	"os"
	"sync"
)

// Out writes NDJSON trace lines. Sequence numbers are assigned under the lock.
type Out struct {
	mu  sync.Mutex
	w   *bufio.Writer
	f   *os.File
	seq int
}

func NewOut(path string) (*Out, error) {
	f, err := os.Create(path)
	if err != nil {
		return nil, err
	}
	return &Out{w: bufio.NewWriterSize(f, 1<<20), f: f}, nil
}

func (o *Out) Emit(v interface{}) {
	b, err := json.Marshal(v)
	if err != nil {
		panic(fmt.Sprintf("marshal trace line: %v", err))
	}
	o.mu.Lock()
	o.w.Write(b)
	o.w.WriteByte('\n')
	o.seq++
	o.mu.Unlock()
}

func (o *Out) Close() {
	o.mu.Lock()
	o.w.Flush()
	o.f.Close()
	o.mu.Unlock()
}

// ReadLines calls fn for each NDJSON line of path.
func ReadLines(path string, fn func(line []byte) error) error {
	f, err := os.Open(path)
	if err != nil {
		return err
	}
	defer f.Close()
	sc := bufio.NewScanner(f)
	sc.Buffer(make([]byte, 1<<20), 1<<28)
	for sc.Scan() {
		if len(sc.Bytes()) == 0 {
			continue
		}
		if err := fn(sc.Bytes()); err != nil {
			return err
		}
	}
	return sc.Err()
}

func errStr(err error) string {
	if err == nil {
		return ""
	}
	return err.Error()
}

// Args is the common command line of every driver.
type Args struct {
	Cases string
	Out   string
	Seed  int64
	N     int
	Tier  string
	Repo  string
	Extra map[string]string
}
