package drivers

import (
	"encoding/json"
	"reflect"
	"strings"
	"sync"
	"time"

	"verifharness/abs"
	"verifharness/memnet"

	"github.com/fiorix/go-diameter/v4/diam"
	"github.com/fiorix/go-diameter/v4/diam/avp"
	"github.com/fiorix/go-diameter/v4/diam/datatype"
	"github.com/fiorix/go-diameter/v4/diam/dict"
	"github.com/fiorix/go-diameter/v4/diam/sm"
)

// Watchdog driver (C13): a real sm.Client with the watchdog enabled talks to a scripted,
// count-driven peer over memnet. Client half: the DWRs the peer receives (count,
// hop-by-hop ids, stamps) and the transport Close. Server half: DWAs returned by a state
// machine for DWRs of a handshaken peer.

type wdScript struct {
	Budget int    `json:"budget"`
	Kind   string `json:"kind"`
	N      int    `json:"n"`
	J      int    `json:"j"`
	Sync   bool   `json:"sync"`
	Rounds int    `json:"rounds"`
	WI     int    `json:"wi"`
	RI     int    `json:"ri"`
	Delay  int    `json:"delay"`
	HSSlow bool   `json:"hsslow"` // the peer answers only the second CER
	Redial bool   `json:"redial"` // an earlier connection of the same Client was closed by the application in mid-round
}
type wdRound struct {
	NCopies   int  `json:"ncopies"`
	Identical bool `json:"identical"`
	MinGap    int  `json:"mingap"`
	StartGap  int  `json:"startgap"`
}
type wdObs struct {
	Rounds   []wdRound `json:"rounds"`
	Closed   bool      `json:"closed"`
	Identity bool      `json:"identity"`
}
type wdLine struct {
	Events []cnEvent `json:"events"`
	Ev     string    `json:"ev"`
	ID     int       `json:"id"`
	Script wdScript  `json:"script"`
	Obs    wdObs     `json:"obs"`
	Note   string    `json:"note"`
}

func buildDWA(hbh, e2e, rc uint32) []byte {
	m := diam.NewMessage(diam.DeviceWatchdog, 0, 0, hbh, e2e, dict.Default)
	m.Header.HopByHopID, m.Header.EndToEndID = hbh, e2e
	if rc != 0 { // rc 0: a DWA that lacks the Result-Code
		m.NewAVP(avp.ResultCode, avp.Mbit, 0, datatype.Unsigned32(rc))
	}
	m.NewAVP(avp.OriginHost, avp.Mbit, 0, datatype.DiameterIdentity(peerHost))
	m.NewAVP(avp.OriginRealm, avp.Mbit, 0, datatype.DiameterIdentity(peerRealm))
	b, _ := m.Serialize()
	return b
}

type dwrSeen struct {
	raw []byte
	hbh uint32
	t   time.Time
}

func runWatchdog(id int, sc *wdScript) wdLine {
	l := wdLine{Ev: "wd", ID: id, Script: *sc, Obs: wdObs{Rounds: []wdRound{}, Identity: true}, Events: []cnEvent{}}
	set := *cliSettings
	set.OriginStateID = 0
	mach := sm.New(&set)
	stop := make(chan struct{})
	defer close(stop)
	go func() {
		for {
			select {
			case <-mach.ErrorReports():
			case <-stop:
				return
			}
		}
	}()
	cli := &sm.Client{Handler: mach, MaxRetransmits: uint(sc.Budget), RetransmitInterval: time.Duration(sc.RI) * time.Millisecond,
		EnableWatchdog: true, WatchdogInterval: time.Duration(sc.WI) * time.Millisecond,
		AuthApplicationID: []*diam.AVP{diam.NewAVP(avp.AuthApplicationID, avp.Mbit, 0, datatype.Unsigned32(4))}}
	mc := memnet.NewConn()
	lg := &evlog{}
	logsByConn.Store(reflect.ValueOf(mc).Pointer(), lg)
	defer logsByConn.Delete(reflect.ValueOf(mc).Pointer())
	var mu sync.Mutex
	var seen []dwrSeen
	copies := map[uint32]int{} // copies per hop-by-hop id
	roundNo := map[uint32]int{}
	// decide whether the peer answers this DWR copy, and with what
	answer := func(hbh uint32) (bool, uint32) {
		r, c := roundNo[hbh], copies[hbh]
		switch sc.Kind {
		case "all", "dup":
			return true, 2001
		case "stop_after", "multi_stop":
			return r <= sc.N, 2001
		case "only_retx":
			return c == sc.J, 2001
		case "fail":
			return true, 5012
		case "noresult":
			return true, 0
		}
		return false, 0
	}
	wfailed := false
	ncer := 0
	var tCEA time.Time
	mc.OnWrite = func(k int, b []byte) memnet.WriteOutcome {
		msgs, _ := splitMsgs(b)
		for _, m := range msgs {
			switch {
			case m.Cmd == 257 && m.Flags&0x80 != 0:
				ncer++
				if sc.HSSlow && ncer == 1 {
					continue
				}
				cea := ceaFor("ok", &m)
				mu.Lock()
				tCEA = time.Now() // before the library sees it: an interval measured from here is never too short
				mu.Unlock()
				go mc.Feed(cea)
			case m.Cmd == 280 && m.Flags&0x80 != 0:
				if sc.Kind == "wfail_none" && !wfailed {
					// the transport refuses this DWR: the peer never sees it
					wfailed = true
					return memnet.WriteOutcome{N: 0, Err: &memnet.NetErr{Msg: "scripted temporary write error", Temp: true}}
				}
				mu.Lock()
				if _, ok := roundNo[m.HbH]; !ok {
					roundNo[m.HbH] = len(roundNo) + 1
				}
				copies[m.HbH]++
				seen = append(seen, dwrSeen{raw: m.Raw, hbh: m.HbH, t: time.Now()})
				yes, rc := answer(m.HbH)
				mu.Unlock()
				switch {
				case !yes:
					lg.add(cnEvent{Ev: "dwr.rx", K: "silent"})
				case rc == 2001:
					lg.add(cnEvent{Ev: "dwr.rx", K: "ok"})
				default:
					lg.add(cnEvent{Ev: "dwr.rx", K: "fail"})
				}
				if yes {
					mult := 1 // success answers per DWR
					switch sc.Kind {
					case "dup":
						mult = 2
					case "multi_stop":
						mult = sc.J
					}
					dwa := buildDWA(m.HbH, m.E2E, rc)
					if sc.Sync {
						// the answer is read and dispatched before the transport write returns
						mc.Feed(dwa)
						mc.WaitReaderBlocked(2 * time.Second)
						for k := 1; k < mult; k++ {
							lg.add(cnEvent{Ev: "dwa.dup"})
							mc.Feed(dwa)
							mc.WaitReaderBlocked(2 * time.Second)
						}
					} else {
						go func() {
							if sc.Delay > 0 {
								time.Sleep(time.Duration(sc.Delay) * time.Millisecond)
							}
							mc.Feed(dwa)
							for k := 1; k < mult; k++ {
								mc.WaitReaderBlocked(2 * time.Second)
								lg.add(cnEvent{Ev: "dwa.dup"})
								mc.Feed(dwa)
							}
						}()
					}
				}
			}
		}
		return memnet.WriteOutcome{N: -1}
	}
	if sc.Redial {
		pcA := memnet.NewConn()
		pcA.SetLocal("10.0.0.9:3868")
		sawDWR := make(chan struct{}, 1)
		pcA.OnWrite = func(k int, b []byte) memnet.WriteOutcome {
			for _, m := range func() []wireMsg { ms, _ := splitMsgs(b); return ms }() {
				if m.Cmd == 257 && m.Flags&0x80 != 0 {
					cea := ceaFor("ok", &m)
					go pcA.Feed(cea)
				}
				if m.Cmd == 280 && m.Flags&0x80 != 0 { // never answered
					select {
					case sawDWR <- struct{}{}:
					default:
					}
				}
			}
			return memnet.WriteOutcome{N: -1}
		}
		cA, err := cli.NewConn(pcA, "10.0.0.2:3868")
		if err != nil || cA == nil {
			l.Note = "handshake of the earlier connection failed: " + errStr(err)
			return l
		}
		select {
		case <-sawDWR:
		case <-time.After(3 * time.Second):
			l.Note = "no DWR on the earlier connection"
		}
		cA.Close() // the application gives up on that peer in the middle of the round and dials again at once
	}
	t0 := time.Now()
	c, err := cli.NewConn(mc, "10.0.0.2:3868")
	if err != nil || c == nil {
		l.Note = "handshake failed: " + errStr(err)
		return l
	}
	tHS := time.Now()
	_ = t0
	// observe: until the connection is closed, or the required number of rounds was seen
	// (plus the time for the last round to be acknowledged)
	closes := sc.Kind == "stop_after" || sc.Kind == "multi_stop" || sc.Kind == "fail" || sc.Kind == "none" || sc.Kind == "noresult" || sc.Kind == "wfail_none"
	limit := time.Duration((sc.Rounds+2)*(sc.WI+(sc.Budget+2)*sc.RI))*time.Millisecond + 3*time.Second
	deadline := time.Now().Add(limit)
	for time.Now().Before(deadline) {
		if mc.Closed() {
			break
		}
		mu.Lock()
		nr := len(roundNo)
		mu.Unlock()
		if !closes && nr > sc.Rounds {
			break // the (Rounds+1)-th round has started: the first Rounds rounds are complete
		}
		time.Sleep(2 * time.Millisecond)
	}
	l.Obs.Closed = mc.Closed()
	mu.Lock()
	all := append([]dwrSeen(nil), seen...)
	mu.Unlock()
	// the log up to the point where the observation ends (the test's own Close is not part of it)
	for _, e := range lg.snapshot() {
		if strings.HasPrefix(e.Ev, "wd.") || strings.HasPrefix(e.Ev, "dwa.") || e.Ev == "dwr.rx" || e.Ev == "dwa.dup" {
			l.Events = append(l.Events, e)
		}
	}
	mc.Close()
	// group into rounds
	var order []uint32
	by := map[uint32][]dwrSeen{}
	for _, d := range all {
		if _, ok := by[d.hbh]; !ok {
			order = append(order, d.hbh)
		}
		by[d.hbh] = append(by[d.hbh], d)
	}
	if !closes && len(order) > sc.Rounds {
		order = order[:sc.Rounds]
	}
	prev := tHS
	mu.Lock()
	if !tCEA.IsZero() {
		prev = tCEA
	}
	mu.Unlock()
	for _, h := range order {
		ds := by[h]
		r := wdRound{NCopies: len(ds), Identical: true, MinGap: 1 << 30, StartGap: int(ds[0].t.Sub(prev) / time.Millisecond)}
		prev = ds[0].t
		for i := 1; i < len(ds); i++ {
			if string(ds[i].raw) != string(ds[0].raw) {
				r.Identical = false
			}
			if g := int(ds[i].t.Sub(ds[i-1].t) / time.Millisecond); g < r.MinGap {
				r.MinGap = g
			}
		}
		msgs, _ := splitMsgs(ds[0].raw)
		if len(msgs) == 1 {
			oh, or := "", ""
			for _, a := range msgs[0].AVPs {
				if a.Code == 264 {
					oh = string(a.Payload)
				}
				if a.Code == 296 {
					or = string(a.Payload)
				}
			}
			if oh != string(set.OriginHost) || or != string(set.OriginRealm) {
				l.Obs.Identity = false
			}
		}
		l.Obs.Rounds = append(l.Obs.Rounds, r)
	}
	return l
}

// server half: DWRs sent to a server state machine by a handshaken peer
type dwaLine struct {
	Ev       string `json:"ev"`
	ID       int    `json:"id"`
	Answered bool   `json:"answered"`
	RC       int    `json:"rc"`
	HbH      []int  `json:"hbh"`
	E2E      []int  `json:"e2e"`
	ReqHbH   []int  `json:"req_hbh"`
	ReqE2E   []int  `json:"req_e2e"`
	OH       string `json:"oh"`
	OR       string `json:"or"`
	WantOH   string `json:"want_oh"`
	WantOR   string `json:"want_or"`
	Closed   bool   `json:"closed"`
	OSID     bool   `json:"osid"`
	ReqOH    string `json:"req_oh"` // the Origin-Host the DWR carried (the CER's, another spelling of it, another name)
}

func runDWRs(out *Out, id *int) {
	ids := []uint32{0, 1, 1 << 31, 0xffffffff, 0x01020304}
	// Origin-State-Id absent, and present with an ordinary value, 0 (a peer that keeps no state across restarts)
	// and the largest value
	for mode, osidVal := range []uint32{0, 77, 0, 0xffffffff} {
		osid := mode > 0
		s := newSMServer(srvSettings, "", nil)
		s.Conn.Feed(gateMsg("cer_ok", 5))
		s.Conn.WaitOut(20, 3*time.Second)
		s.Conn.WaitReaderBlocked(2 * time.Second)
		for _, h := range ids {
			for k, e := range ids {
				off := len(s.Conn.Out())
				// the DWR names its sender as the CER did, in another spelling (names are
				// case-insensitive), or differently: it is a well-formed DWR all the same
				reqOH := []string{peerHost, strings.ToUpper(peerHost[:1]) + peerHost[1:], peerHost, "other." + peerHost, peerHost}[k]
				dwr := buildDWRv(h, e, osid, osidVal, reqOH, peerRealm)
				if k == 2 {
					dwr[4] |= 0x10 // the T bit: the peer marks the request as potentially retransmitted; it is a DWR all the same
				}
				s.Conn.Feed(dwr)
				s.Conn.WaitReaderBlocked(3 * time.Second)
				*id++
				l := dwaLine{Ev: "dwa", ID: *id, ReqHbH: abs.B4(h), ReqE2E: abs.B4(e), HbH: []int{}, E2E: []int{}, WantOH: string(srvSettings.OriginHost), WantOR: string(srvSettings.OriginRealm), OSID: osid, ReqOH: reqOH}
				msgs, _ := splitMsgs(s.Conn.Out()[off:])
				if len(msgs) == 1 && msgs[0].Cmd == 280 && msgs[0].Flags&0x80 == 0 {
					m := msgs[0]
					l.Answered = true
					rc, _ := m.u32(268)
					l.RC = int(rc)
					l.HbH, l.E2E = abs.B4(m.HbH), abs.B4(m.E2E)
					for _, a := range m.AVPs {
						if a.Code == 264 {
							l.OH = string(a.Payload)
						}
						if a.Code == 296 {
							l.OR = string(a.Payload)
						}
					}
				}
				l.Closed = s.Conn.Closed()
				out.Emit(l)
			}
		}
		s.shutdown()
	}
}

func Watchdog(a Args) error {
	installSMHook()
	out, err := NewOut(a.Out)
	if err != nil {
		return err
	}
	defer out.Close()
	var cases []wdScript
	err = ReadLines(a.Cases, func(line []byte) error {
		var c wdScript
		if err := json.Unmarshal(line, &c); err != nil {
			return err
		}
		cases = append(cases, c)
		return nil
	})
	if err != nil {
		return err
	}
	sem := make(chan struct{}, 8)
	var wg sync.WaitGroup
	for i := range cases {
		wg.Add(1)
		sem <- struct{}{}
		go func(i int) {
			defer wg.Done()
			defer func() { <-sem }()
			out.Emit(runWatchdog(i+1, &cases[i]))
		}(i)
	}
	wg.Wait()
	id := len(cases)
	if a.Extra["dwr"] != "no" {
		runDWRs(out, &id)
	}
	return nil
}
