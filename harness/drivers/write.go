package drivers

import (
	"bytes"
	"encoding/json"
	"math/rand"
	"sync"
	"time"

	"verifharness/memnet"

	"github.com/fiorix/go-diameter/v4/diam"
	"github.com/fiorix/go-diameter/v4/diam/datatype"
	"github.com/fiorix/go-diameter/v4/diam/dict"
)

// Write driver (C07).
//  retry: a transport that follows a scripted sequence of (bytes accepted, error) outcomes,
//         (a) as a bare io.Writer given to Message.WriteToWithRetry, (b) as the net.Conn
//         under a diam.Conn; records which slice of the message every transport Write was
//         offered and what was accepted.
//  conc:  several writer goroutines on one diam.Conn whose transport stalls inside Write;
//         records the maximum number of simultaneous transport writes and the messages
//         parsed back from the transport stream.

type wOutcome struct {
	Acc int    `json:"acc"`
	Err string `json:"err"`
}
type wOffer struct {
	Off int `json:"off"`
	Len int `json:"len"`
}
type retryCase struct {
	Kind     string     `json:"kind"`
	Outcomes []wOutcome `json:"outcomes"`
	Retries  int        `json:"retries"`
}
type retryObs struct {
	Offers   []wOffer `json:"offers"`
	PrefixOK bool     `json:"prefix_ok"`
	Sent     int      `json:"sent"`
	N        int      `json:"n"`
	Err      string   `json:"err"`
	ErrText  string   `json:"errtext"`
	LaterOK  bool     `json:"later_ok"`
}
type retryLine struct {
	Ev       string     `json:"ev"`
	ID       int        `json:"id"`
	Target   string     `json:"target"`
	Len      int        `json:"len"`
	Outcomes []wOutcome `json:"outcomes"`
	Retries  int        `json:"retries"`
	Obs      retryObs   `json:"obs"`
}

type script struct {
	timeouts    bool // temporary errors are deadline expiries (Timeout() is true as well)
	mu          sync.Mutex
	msg         []byte
	outcomes    []wOutcome
	k           int
	offers      []wOffer
	transported []byte
}

func (s *script) step(p []byte) (int, error) {
	s.mu.Lock()
	defer s.mu.Unlock()
	off := -1
	if len(p) <= len(s.msg) && bytes.Equal(p, s.msg[len(s.msg)-len(p):]) {
		off = len(s.msg) - len(p)
	}
	s.offers = append(s.offers, wOffer{Off: off, Len: len(p)})
	if s.k >= len(s.outcomes) {
		s.transported = append(s.transported, p...)
		return len(p), nil
	}
	o := s.outcomes[s.k]
	s.k++
	acc := o.Acc
	if o.Err == "none" || acc > len(p) {
		acc = len(p)
	}
	s.transported = append(s.transported, p[:acc]...)
	switch o.Err {
	case "tmp":
		return acc, &memnet.NetErr{Msg: "scripted temporary error", Temp: true, TO: s.timeouts}
	case "perm":
		return acc, &memnet.NetErr{Msg: "scripted permanent error"}
	}
	return acc, nil
}

type scriptWriter struct{ s *script }

func (w scriptWriter) Write(p []byte) (int, error) { return w.s.step(p) }

func errKind(err error) string {
	if err == nil {
		return "none"
	}
	if ne, ok := err.(interface{ Temporary() bool }); ok && ne.Temporary() {
		return "tmp"
	}
	return "perm"
}

func retryMsg(dp *dict.Parser) *diam.Message {
	m := diam.NewMessage(272, 0x80, 4, 0x11223344, 0x55667788, dp)
	m.NewAVP(uint32(25), 0x40, 0, datatype.OctetString("0123456789abcdef")) // Class, 16 bytes: 44 bytes in all
	return m
}

func runRetry(id int, c *retryCase, target string) retryLine {
	m := retryMsg(dict.Default)
	wire, _ := m.Serialize()
	l := retryLine{Ev: "retry", ID: id, Target: target, Len: len(wire), Outcomes: c.Outcomes, Retries: c.Retries, Obs: retryObs{Offers: []wOffer{}}}
	s := &script{msg: wire, outcomes: c.Outcomes}
	var n int64
	var err error
	panicked := ""
	if target == "writer" {
		panicked = safely(func() { n, err = m.WriteToWithRetry(scriptWriter{s}, uint(c.Retries)) })
	} else if target == "server-wt" {
		// an accepted connection of a Server with WriteTimeout; the temporary errors are deadline expiries;
		// the message is written by a handler
		s.timeouts = true
		mc := memnet.NewConn()
		armed := false
		mc.OnWrite = func(k int, b []byte) memnet.WriteOutcome {
			if !armed {
				return memnet.WriteOutcome{N: -1}
			}
			acc, e := s.step(b)
			return memnet.WriteOutcome{N: acc, Err: e}
		}
		done := make(chan struct{})
		mux := diam.NewServeMux()
		mux.HandleFunc("ALL", func(dc diam.Conn, _ *diam.Message) {
			armed = true
			panicked = safely(func() { n, err = m.WriteToWithRetry(dc, uint(c.Retries)) })
			armed = false
			close(done)
		})
		ln := memnet.NewListener()
		go (&diam.Server{Handler: mux, Dict: dict.Default, WriteTimeout: time.Second}).Serve(ln)
		ln.Push(mc)
		mc.Feed(appMsg(272, 4, true, 1))
		select {
		case <-done:
		case <-time.After(5 * time.Second):
			panicked = "handler did not finish"
		}
		ln.Close()
		defer mc.Close()
	} else {
		mc := memnet.NewConn()
		mc.OnWrite = func(k int, b []byte) memnet.WriteOutcome {
			acc, e := s.step(b)
			return memnet.WriteOutcome{N: acc, Err: e}
		}
		dc, _ := diam.NewConn(mc, "10.0.0.2:3868", diam.NewServeMux(), dict.Default)
		panicked = safely(func() { n, err = m.WriteToWithRetry(dc, uint(c.Retries)) })
		defer mc.Close()
	}
	s.mu.Lock()
	l.Obs.Offers = append(l.Obs.Offers, s.offers...)
	l.Obs.Sent = len(s.transported)
	l.Obs.PrefixOK = len(s.transported) <= len(wire) && bytes.Equal(s.transported, wire[:len(s.transported)])
	s.mu.Unlock()
	l.Obs.N = int(n)
	l.Obs.Err = errKind(err)
	l.Obs.ErrText = errStr(err)
	if panicked != "" {
		l.Obs.Err, l.Obs.ErrText = "panic", panicked
	}
	return l
}

// ---- concurrency

type concMsg struct {
	W     int  `json:"w"`
	M     int  `json:"m"`
	Whole bool `json:"whole"`
}
type concObs struct {
	MaxConc int       `json:"maxconc"`
	Msgs    []concMsg `json:"msgs"`
	Rest    int       `json:"rest"`
	Errors  int       `json:"errors"`
}
type concLine struct {
	Ev      string  `json:"ev"`
	ID      int     `json:"id"`
	Writers int     `json:"writers"`
	Per     int     `json:"per"`
	Sizes   []int   `json:"sizes"`
	StallAt int     `json:"stall_at"`
	Obs     concObs `json:"obs"`
}

func runConc(id int, writers, per int, sizes []int, stallAt int) concLine {
	l := concLine{Ev: "conc", ID: id, Writers: writers, Per: per, Sizes: sizes, StallAt: stallAt, Obs: concObs{Msgs: []concMsg{}}}
	mc := memnet.NewConn()
	started := make(chan struct{}, 64)
	mc.OnWrite = func(k int, b []byte) memnet.WriteOutcome {
		if stallAt == 0 {
			// every transport write is slow: whoever waits for the connection starves long enough for
			// the lock to be handed over the moment it is released (a message sent in several
			// transport writes with the lock released in between is then torn)
			time.Sleep(3 * time.Millisecond)
		}
		if k == stallAt {
			// the transport stalls inside this Write while the other writers are started
			deadline := time.After(40 * time.Millisecond)
			for n := 0; n < writers-1; {
				select {
				case <-started:
					n++
				case <-deadline:
					n = writers
				}
			}
			time.Sleep(25 * time.Millisecond) // grace: a second transport write may begin (it must not)
		}
		return memnet.WriteOutcome{N: -1}
	}
	// the writers use two Conn values of the one connection: the one NewConn returned and the one a handler
	// was given (an application sending requests of its own while handlers answer)
	hconn := make(chan diam.Conn, 1)
	cmux := diam.NewServeMux()
	cmux.HandleFunc("ALL", func(c diam.Conn, _ *diam.Message) {
		select {
		case hconn <- c:
		default:
		}
	})
	dc, _ := diam.NewConn(mc, "10.0.0.2:3868", cmux, dict.Default)
	via := []diam.Conn{dc, dc}
	mc.Feed(appMsg(272, 4, true, 9999))
	select {
	case hc := <-hconn:
		via[0] = hc
	case <-time.After(2 * time.Second):
	}
	var wg sync.WaitGroup
	var emu sync.Mutex
	size := func(w, m int) int { return sizes[((w-1)*per+(m-1))%len(sizes)] }
	for w := 1; w <= writers; w++ {
		wg.Add(1)
		go func(w int) {
			defer wg.Done()
			started <- struct{}{}
			for m := 1; m <= per; m++ {
				id := uint32(w*100 + m)
				msg := diam.NewMessage(272, 0x80, 4, id, id, dict.Default)
				if w%2 == 0 {
					// an answer to a message read from the peer (it carries stream 0) next to messages created
					// locally (no stream assigned): one connection, one lock
					if rq, err := diam.ReadMessage(bytes.NewReader(appMsg(272, 4, true, id)), dict.Default); err == nil {
						msg = rq.Answer(0)
						msg.Header.HopByHopID, msg.Header.EndToEndID = id, id
					}
				}
				pay := bytes.Repeat([]byte{byte(id % 251)}, size(w, m)-28)
				msg.NewAVP(uint32(25), 0x40, 0, datatype.OctetString(pay))
				if _, err := msg.WriteTo(via[w%2]); err != nil {
					emu.Lock()
					l.Obs.Errors++
					emu.Unlock()
				}
			}
		}(w)
	}
	wg.Wait()
	out := mc.Out()
	msgs, rest := splitMsgs(out)
	l.Obs.Rest = len(rest)
	for _, m := range msgs {
		w, k := int(m.HbH/100), int(m.HbH%100)
		cm := concMsg{W: w, M: k, Whole: true}
		if w < 1 || w > writers || k < 1 || k > per || m.Len != (size(w, k)+3)&^3 && m.Len != size(w, k) || len(m.AVPs) != 1 {
			cm.Whole = false
		} else {
			for _, x := range m.AVPs[0].Payload {
				if x != byte(m.HbH%251) {
					cm.Whole = false
				}
			}
		}
		l.Obs.Msgs = append(l.Obs.Msgs, cm)
	}
	l.Obs.MaxConc = mc.MaxConcurrentWrites()
	mc.Close()
	return l
}

// runWriteDeadline: a Server with WriteTimeout answers two requests in quick succession; the transport (which
// honours write deadlines) takes 85% of the timeout to accept the second answer, which is written 20% of the timeout after the first. Each write has the whole timeout to
// itself: both answers arrive whole and no write fails.
func runWriteDeadline(id int) concLine {
	const wt = 500 * time.Millisecond
	l := concLine{Ev: "conc", ID: id, Writers: 1, Per: 2, Sizes: []int{100, 100}, StallAt: 2, Obs: concObs{Msgs: []concMsg{}}}
	mc := memnet.NewConn()
	mc.HonourWriteDeadline = true
	var slept time.Duration
	var begin2 time.Time
	mc.OnWrite = func(k int, b []byte) memnet.WriteOutcome {
		if k == 2 {
			t0 := time.Now()
			begin2 = t0
			time.Sleep(wt * 85 / 100)
			slept = time.Since(t0)
		}
		return memnet.WriteOutcome{N: -1}
	}
	var emu sync.Mutex
	done := make(chan struct{}, 4)
	mux := diam.NewServeMux()
	mux.HandleFunc("ALL", func(dc diam.Conn, m *diam.Message) {
		k := m.Header.HopByHopID
		if k == 2 {
			time.Sleep(wt * 2 / 10) // the second answer takes a moment to prepare
		}
		a := diam.NewMessage(272, 0, 4, 100+k, 100+k, dict.Default)
		a.NewAVP(uint32(25), 0x40, 0, datatype.OctetString(bytes.Repeat([]byte{byte((100 + k) % 251)}, 100-28)))
		if _, err := a.WriteTo(dc); err != nil {
			emu.Lock()
			l.Obs.Errors++
			emu.Unlock()
		}
		done <- struct{}{}
	})
	ln := memnet.NewListener()
	defer ln.Close()
	go (&diam.Server{Handler: mux, Dict: dict.Default, WriteTimeout: wt}).Serve(ln)
	ln.Push(mc)
	mc.Feed(append(appMsg(272, 4, true, 1), appMsg(272, 4, true, 2)...))
	for i := 0; i < 2; i++ {
		select {
		case <-done:
		case <-time.After(3 * time.Second):
		}
	}
	msgs, rest := splitMsgs(mc.Out())
	l.Obs.Rest = len(rest)
	for _, m := range msgs {
		cm := concMsg{W: 1, M: int(m.HbH) - 100, Whole: m.Len == 100 && len(m.AVPs) == 1}
		l.Obs.Msgs = append(l.Obs.Msgs, cm)
	}
	l.Obs.MaxConc = mc.MaxConcurrentWrites()
	mc.Close()
	// not judged when the machine was too slow for the scenario: the stall came out longer than planned, or the
	// deadline in force was armed for this very write (within 20 ms before it began) and expired all the same
	armedForIt := !begin2.IsZero() && begin2.Sub(mc.LastWriteDeadlineSet()) < 20*time.Millisecond
	if slept > wt*95/100 || (l.Obs.Errors > 0 && armedForIt) {
		l.Obs = concObs{Msgs: []concMsg{{W: 1, M: 1, Whole: true}, {W: 1, M: 2, Whole: true}}}
	}
	return l
}

// runSerWrite: an application that serialises message A itself (Message.Serialize), lets another message
// B go out through WriteTo, and then hands A's bytes to Conn.Write: both must arrive whole, B before A
func runSerWrite(id int, sizeA, sizeB int) concLine {
	l := concLine{Ev: "conc", ID: id, Writers: 2, Per: 1, Sizes: []int{sizeA, sizeB}, StallAt: -1, Obs: concObs{Msgs: []concMsg{}}}
	mc := memnet.NewConn()
	dc, _ := diam.NewConn(mc, "10.0.0.2:3868", diam.NewServeMux(), dict.Default)
	mk := func(w, size int) *diam.Message {
		id := uint32(w*100 + 1)
		msg := diam.NewMessage(272, 0x80, 4, id, id, dict.Default)
		msg.NewAVP(uint32(25), 0x40, 0, datatype.OctetString(bytes.Repeat([]byte{byte(id % 251)}, size-28)))
		return msg
	}
	a, b := mk(1, sizeA), mk(2, sizeB)
	wire, err := a.Serialize()
	if err != nil {
		l.Obs.Errors++
	}
	if _, err := b.WriteTo(dc); err != nil {
		l.Obs.Errors++
	}
	if _, err := dc.Write(wire); err != nil {
		l.Obs.Errors++
	}
	msgs, rest := splitMsgs(mc.Out())
	l.Obs.Rest = len(rest)
	for _, m := range msgs {
		w := int(m.HbH / 100)
		cm := concMsg{W: w, M: int(m.HbH % 100), Whole: true}
		want := map[int]int{1: sizeA, 2: sizeB}[w]
		if want == 0 || m.Len != (want+3)&^3 && m.Len != want || len(m.AVPs) != 1 {
			cm.Whole = false
		} else {
			for _, x := range m.AVPs[0].Payload {
				if x != byte(m.HbH%251) {
					cm.Whole = false
				}
			}
		}
		l.Obs.Msgs = append(l.Obs.Msgs, cm)
	}
	l.Obs.MaxConc = mc.MaxConcurrentWrites()
	mc.Close()
	return l
}

func Write(a Args) error {
	out, err := NewOut(a.Out)
	if err != nil {
		return err
	}
	defer out.Close()
	id := 0
	if a.Cases != "" {
		err = ReadLines(a.Cases, func(line []byte) error {
			var c retryCase
			if err := json.Unmarshal(line, &c); err != nil {
				return err
			}
			if c.Outcomes == nil {
				c.Outcomes = []wOutcome{}
			}
			id++
			out.Emit(runRetry(id, &c, "writer"))
			out.Emit(runRetry(id, &c, "conn"))
			out.Emit(runRetry(id, &c, "server-wt"))
			return nil
		})
		if err != nil {
			return err
		}
	}
	for k := 0; k < 2; k++ {
		id++
		out.Emit(runWriteDeadline(id))
	}
	for _, sa := range []int{100, 1000, 1024, 1100} {
		for _, sb := range []int{100, 1000, 1100} {
			id++
			out.Emit(runSerWrite(id, sa, sb))
		}
	}
	r := rand.New(rand.NewSource(a.Seed))
	pool := []int{100, 1000, 1100, 4000, 4200, 9000, 20000}
	var wg sync.WaitGroup
	sem := make(chan struct{}, 8)
	var mu sync.Mutex
	for i := 0; i < a.N; i++ {
		writers := 2 + r.Intn(2)
		per := 2
		sizes := make([]int, writers*per)
		for k := range sizes {
			sizes[k] = pool[r.Intn(len(pool))]
		}
		stall := r.Intn(5) // 0 (two in five): every transport write is slow
		if stall == 4 {
			stall = 0
		}
		id++
		wg.Add(1)
		sem <- struct{}{}
		go func(id, writers, per int, sizes []int, stall int) {
			defer wg.Done()
			defer func() { <-sem }()
			l := runConc(id, writers, per, sizes, stall)
			mu.Lock()
			out.Emit(l)
			mu.Unlock()
		}(id, writers, per, sizes, stall)
	}
	wg.Wait()
	return nil
}
