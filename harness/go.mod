module verifharness

go 1.20

require github.com/fiorix/go-diameter/v4 v4.0.0

require github.com/ishidawataru/sctp v0.0.0-20230406120618-7ff4192f6ff2

replace github.com/fiorix/go-diameter/v4 => /repo
