// Package memnet provides in-memory net.Conn / net.Listener implementations whose
// delivery, stalls and faults are scripted by the test side, and which record every
// transport-level event with a sequence number taken under the connection's lock.
package memnet

import (
	"errors"
	"fmt"
	"io"
	"net"
	"sync"
	"sync/atomic"
	"time"
)

// Addr looks like a TCP address ("10.0.0.1:3868"): the state machine derives
// Host-IP-Address by parsing LocalAddr().String().
type Addr struct{ S string }

func (a Addr) Network() string { return "tcp" }
func (a Addr) String() string  { return a.S }

// NetErr is a net.Error with scripted Temporary().
type NetErr struct {
	Msg  string
	Temp bool
	TO   bool
}

func (e *NetErr) Error() string   { return e.Msg }
func (e *NetErr) Timeout() bool   { return e.TO }
func (e *NetErr) Temporary() bool { return e.Temp }

var ErrClosed = errors.New("memnet: use of closed connection")

var gseq int64

// Seq returns a process-wide monotonically increasing sequence number.
func Seq() int64 { return atomic.AddInt64(&gseq, 1) }

// Event is one transport-level observation.
type Event struct {
	Seq  int64
	T    time.Time
	Kind string // "read" "write.begin" "write.end" "close" "read.block"
	K    int    // call number (per kind)
	N    int    // bytes
	Err  string
	Data []byte
}

// WriteOutcome is what a scripted Write does: accept N bytes (-1 = all) and return Err;
// if Gate is non-nil the call blocks inside Write until the gate is closed.
type WriteOutcome struct {
	N    int
	Err  error
	Gate chan struct{}
}

// Conn is the library's side of an in-memory connection.
type Conn struct {
	mu   sync.Mutex
	cond *sync.Cond // readers waiting for data
	obs  *sync.Cond // the test side waiting for a fact (two conds: parked readers must not wake each other)

	id     int
	local  Addr
	remote Addr

	rdl         time.Time // read deadline (zero: none)
	in          [][]byte  // fragments not yet read
	inErr       error     // returned by Read once `in` is empty (io.EOF, read error)
	errWithLast bool      // the Read that returns the last queued bytes returns inErr with them (as crypto/tls may)
	closed      bool
	nclose      int
	blocked     int // goroutines currently parked in Read
	nread       int // Read calls that have returned
	nreadBeg    int // Read calls entered

	nwrite   int
	inWrite  int // transport Write calls in flight
	maxWrite int // max concurrent transport writes ever observed
	// NewestFirst: when several Read calls are parked at once (a library that reads one transport from two
	// goroutines), arriving data goes to the call that was made last; the others keep waiting (a legal schedule)
	HonourWriteDeadline bool
	wdl                 time.Time
	wdlSetAt            time.Time
	NewestFirst         bool
	parked              map[int]bool
	OnWrite             func(k int, b []byte) WriteOutcome
	OnReadRet           func(k int, n int, err error) // called after a Read returned, outside the lock (scheduler gate)
	out                 []byte
	events              []Event
	closeCh             chan struct{}
}

var connID int64

func NewConn() *Conn {
	id := int(atomic.AddInt64(&connID, 1))
	c := &Conn{id: id, local: Addr{"10.0.0.1:3868"}, remote: Addr{fmt.Sprintf("10.0.0.2:%d", 40000+id%20000)}, closeCh: make(chan struct{})}
	c.cond = sync.NewCond(&c.mu)
	c.obs = sync.NewCond(&c.mu)
	return c
}

func (c *Conn) ID() int { return c.id }

// SetLocal overrides the local address string.
func (c *Conn) SetLocal(s string) { c.local = Addr{s} }

func (c *Conn) ev(kind string, k, n int, err error, data []byte) {
	e := Event{Seq: Seq(), T: time.Now(), Kind: kind, K: k, N: n}
	if err != nil {
		e.Err = err.Error()
	}
	if data != nil {
		e.Data = append([]byte(nil), data...)
	}
	c.events = append(c.events, e)
}

// Feed queues one fragment for the library to read.
func (c *Conn) Feed(b []byte) {
	if len(b) == 0 {
		return
	}
	c.mu.Lock()
	c.in = append(c.in, append([]byte(nil), b...))
	c.cond.Broadcast()
	c.mu.Unlock()
}

// FeedLastWithErr queues b and makes the Read that returns its last byte also return err.
func (c *Conn) FeedLastWithErr(b []byte, err error) {
	c.mu.Lock()
	c.in = append(c.in, append([]byte(nil), b...))
	c.inErr = err
	c.errWithLast = true
	c.cond.Broadcast()
	c.mu.Unlock()
}

// FeedErr makes Read return err once the queued fragments are consumed (io.EOF = peer closed).
func (c *Conn) FeedErr(err error) {
	c.mu.Lock()
	c.inErr = err
	c.cond.Broadcast()
	c.mu.Unlock()
}

func (c *Conn) Read(p []byte) (int, error) {
	c.mu.Lock()
	c.nreadBeg++
	ticket := c.nreadBeg
	expired := func() bool { return !c.rdl.IsZero() && !time.Now().Before(c.rdl) }
	newer := func() bool {
		if !c.NewestFirst {
			return false
		}
		for t := range c.parked {
			if t > ticket {
				return true
			}
		}
		return false
	}
	if c.parked == nil {
		c.parked = map[int]bool{}
	}
	c.parked[ticket] = true
	defer func() {
		c.mu.Lock()
		delete(c.parked, ticket)
		c.cond.Broadcast()
		c.mu.Unlock()
	}()
	for ((len(c.in) == 0 && c.inErr == nil) || (newer() && c.inErr == nil)) && !c.closed && !expired() {
		c.blocked++
		c.obs.Broadcast() // wake WaitReaderBlocked
		if c.rdl.IsZero() {
			c.cond.Wait()
		} else {
			t := time.AfterFunc(time.Until(c.rdl)+time.Millisecond, func() {
				c.mu.Lock()
				c.cond.Broadcast()
				c.mu.Unlock()
			})
			c.cond.Wait()
			t.Stop()
		}
		c.blocked--
	}
	var n int
	var err error
	switch {
	case c.closed:
		err = ErrClosed
	case expired(): // like a socket: a passed deadline fails the call even if data has arrived meanwhile
		err = &NetErr{Msg: "memnet: i/o timeout", TO: true}
	case len(c.in) > 0:
		n = copy(p, c.in[0])
		if n == len(c.in[0]) {
			c.in = c.in[1:]
			if len(c.in) == 0 && c.errWithLast && c.inErr != nil {
				err = c.inErr
			}
		} else {
			c.in[0] = c.in[0][n:]
		}
	default:
		err = c.inErr
	}
	c.nread++
	k := c.nread
	c.ev("read", k, n, err, nil)
	hook := c.OnReadRet
	c.obs.Broadcast()
	c.mu.Unlock()
	if hook != nil {
		hook(k, n, err)
	}
	return n, err
}

func (c *Conn) Write(b []byte) (int, error) {
	c.mu.Lock()
	if c.closed {
		c.mu.Unlock()
		return 0, ErrClosed
	}
	c.nwrite++
	k := c.nwrite
	c.inWrite++
	if c.inWrite > c.maxWrite {
		c.maxWrite = c.inWrite
	}
	c.ev("write.begin", k, len(b), nil, nil)
	f := c.OnWrite
	c.mu.Unlock()
	o := WriteOutcome{N: -1}
	if f != nil {
		o = f(k, b)
	}
	if o.Gate != nil {
		<-o.Gate
	}
	n := o.N
	if n < 0 || n > len(b) {
		n = len(b)
	}
	c.mu.Lock()
	if c.HonourWriteDeadline && !c.wdl.IsZero() && time.Now().After(c.wdl) && o.Err == nil {
		n = len(b) / 2
		o.Err = &NetErr{Msg: "memnet: write i/o timeout", TO: true}
	}
	c.out = append(c.out, b[:n]...)
	c.inWrite--
	c.ev("write.end", k, n, o.Err, b[:n])
	c.obs.Broadcast()
	c.mu.Unlock()
	return n, o.Err
}

func (c *Conn) Close() error {
	c.mu.Lock()
	c.nclose++
	first := !c.closed
	c.closed = true
	c.ev("close", c.nclose, 0, nil, nil)
	c.cond.Broadcast()
	c.obs.Broadcast()
	c.mu.Unlock()
	if first {
		close(c.closeCh)
	}
	return nil
}

func (c *Conn) LocalAddr() net.Addr           { return c.local }
func (c *Conn) RemoteAddr() net.Addr          { return c.remote }
func (c *Conn) SetDeadline(t time.Time) error { return c.SetReadDeadline(t) }
func (c *Conn) SetReadDeadline(t time.Time) error {
	c.mu.Lock()
	c.rdl = t
	c.cond.Broadcast()
	c.mu.Unlock()
	return nil
}

// SetWriteDeadline: honoured only when HonourWriteDeadline is set: a Write that is still in the transport when the
// deadline passes accepts half of its bytes and fails with a timeout, as a socket does
func (c *Conn) SetWriteDeadline(t time.Time) error {
	c.mu.Lock()
	c.wdl = t
	c.wdlSetAt = time.Now()
	c.mu.Unlock()
	return nil
}

// LastWriteDeadlineSet: when SetWriteDeadline was last called
func (c *Conn) LastWriteDeadlineSet() time.Time {
	c.mu.Lock()
	defer c.mu.Unlock()
	return c.wdlSetAt
}

// ---- observation side

// Closed reports whether the library closed the transport.
func (c *Conn) Closed() bool {
	c.mu.Lock()
	defer c.mu.Unlock()
	return c.closed
}

func (c *Conn) CloseCh() <-chan struct{} { return c.closeCh }

func (c *Conn) CloseCount() int {
	c.mu.Lock()
	defer c.mu.Unlock()
	return c.nclose
}

// Out returns a copy of all bytes accepted by Write so far.
func (c *Conn) Out() []byte {
	c.mu.Lock()
	defer c.mu.Unlock()
	return append([]byte(nil), c.out...)
}

func (c *Conn) MaxConcurrentWrites() int {
	c.mu.Lock()
	defer c.mu.Unlock()
	return c.maxWrite
}

func (c *Conn) Events() []Event {
	c.mu.Lock()
	defer c.mu.Unlock()
	return append([]Event(nil), c.events...)
}

// Pending returns the number of unread inbound bytes.
func (c *Conn) Pending() int {
	c.mu.Lock()
	defer c.mu.Unlock()
	n := 0
	for _, f := range c.in {
		n += len(f)
	}
	return n
}

// Reads returns (entered, returned) Read call counts.
func (c *Conn) Reads() (int, int) {
	c.mu.Lock()
	defer c.mu.Unlock()
	return c.nreadBeg, c.nread
}

// WaitReaderBlocked waits until a goroutine is parked in Read with nothing to read
// (the library has consumed everything delivered so far), or the connection is closed.
func (c *Conn) WaitReaderBlocked(d time.Duration) bool {
	deadline := time.Now().Add(d)
	c.mu.Lock()
	defer c.mu.Unlock()
	for !(c.blocked > 0 && len(c.in) == 0 && c.inErr == nil) && !c.closed {
		if time.Now().After(deadline) {
			return false
		}
		c.timedWait(5 * time.Millisecond)
	}
	return true
}

// WaitWrites waits until at least n Write calls have completed.
func (c *Conn) WaitWrites(n int, d time.Duration) bool {
	deadline := time.Now().Add(d)
	c.mu.Lock()
	defer c.mu.Unlock()
	for c.nwrite-c.inWrite < n {
		if time.Now().After(deadline) {
			return false
		}
		c.timedWait(5 * time.Millisecond)
	}
	return true
}

// WaitOut waits until at least n bytes were written or the connection is closed.
func (c *Conn) WaitOut(n int, d time.Duration) bool {
	deadline := time.Now().Add(d)
	c.mu.Lock()
	defer c.mu.Unlock()
	for len(c.out) < n && !c.closed {
		if time.Now().After(deadline) {
			return false
		}
		c.timedWait(2 * time.Millisecond)
	}
	return len(c.out) >= n
}

// WaitClosed waits for the library to close the transport.
func (c *Conn) WaitClosed(d time.Duration) bool {
	select {
	case <-c.closeCh:
		return true
	case <-time.After(d):
		return false
	}
}

// timedWait releases the lock for at most d (cond.Wait has no timeout).
func (c *Conn) timedWait(d time.Duration) {
	t := time.AfterFunc(d, func() {
		c.mu.Lock()
		c.obs.Broadcast()
		c.mu.Unlock()
	})
	c.obs.Wait()
	t.Stop()
}

// ---- listener

type acceptItem struct {
	c   net.Conn
	err error
}

// Listener hands out scripted connections and errors.
type Listener struct {
	ch      chan acceptItem
	closed  chan struct{}
	once    sync.Once
	mu      sync.Mutex
	Accepts []string // log of Accept results
}

func NewListener() *Listener {
	return &Listener{ch: make(chan acceptItem, 64), closed: make(chan struct{})}
}

func (l *Listener) Push(c net.Conn)   { l.ch <- acceptItem{c: c} }
func (l *Listener) PushErr(err error) { l.ch <- acceptItem{err: err} }

func (l *Listener) Accept() (net.Conn, error) {
	select {
	case it := <-l.ch:
		l.mu.Lock()
		if it.err != nil {
			l.Accepts = append(l.Accepts, "err:"+it.err.Error())
		} else {
			l.Accepts = append(l.Accepts, "conn")
		}
		l.mu.Unlock()
		return it.c, it.err
	case <-l.closed:
		return nil, io.ErrClosedPipe
	}
}

func (l *Listener) Close() error {
	l.once.Do(func() { close(l.closed) })
	return nil
}
func (l *Listener) Addr() net.Addr { return Addr{"10.0.0.1:3868"} }

func (l *Listener) Log() []string {
	l.mu.Lock()
	defer l.mu.Unlock()
	return append([]string(nil), l.Accepts...)
}

// IsClosed reports whether the server closed the listener (Serve returned).
func (l *Listener) IsClosed() bool {
	select {
	case <-l.closed:
		return true
	default:
		return false
	}
}
