// Package sctpmem is an in-memory SCTP association for the `verif` backend hook of
// diam.SCTPConn: the inbound side is a test-chosen sequence of (stream, chunk); a read
// returns at most len(buf) bytes of the head chunk and the rest of that chunk stays at
// the head (kernel behaviour without I-DATA); outbound writes are recorded with their
// stream number.
package sctpmem

import (
	"io"
	"net"
	"sync"
	"time"

	"github.com/ishidawataru/sctp"
)

type Chunk struct {
	Stream uint16
	Data   []byte
}

type OutRec struct {
	Stream uint16
	Data   []byte
}

type addr string

func (a addr) Network() string { return "sctp" }
func (a addr) String() string  { return string(a) }

type Assoc struct {
	mu      sync.Mutex
	cond    *sync.Cond // readers waiting for data
	obs     *sync.Cond // the test side waiting for a fact (parked readers must not wake each other)
	in      []Chunk
	eof     bool
	closed  bool
	blocked int
	out     []OutRec
	closeCh chan struct{}
	NoInfo  bool // deliver reads without SndRcvInfo (socket not subscribed to data io events)
	// FailWrite, if set, is asked before every write (k = 1, 2, ...): true = the write fails with a
	// temporary error and nothing is accepted
	FailWrite func(k int) bool
	nwrite    int
	// OnWriteEnter, if set, is called when a write call enters the backend, before anything of the call is looked
	// at (scheduler gate: it may block; k counts the entries)
	OnWriteEnter func(k int)
	nenter       int
}

type tempErr struct{}

func (tempErr) Error() string   { return "sctpmem: scripted temporary write error" }
func (tempErr) Timeout() bool   { return false }
func (tempErr) Temporary() bool { return true }

func New() *Assoc {
	a := &Assoc{closeCh: make(chan struct{})}
	a.cond = sync.NewCond(&a.mu)
	a.obs = sync.NewCond(&a.mu)
	return a
}

func (a *Assoc) Feed(stream uint16, b []byte) {
	if len(b) == 0 {
		return
	}
	a.mu.Lock()
	a.in = append(a.in, Chunk{Stream: stream, Data: append([]byte(nil), b...)})
	a.cond.Broadcast()
	a.mu.Unlock()
}

func (a *Assoc) FeedEOF() {
	a.mu.Lock()
	a.eof = true
	a.cond.Broadcast()
	a.mu.Unlock()
}

func (a *Assoc) SCTPRead(b []byte) (int, *sctp.SndRcvInfo, error) {
	a.mu.Lock()
	defer a.mu.Unlock()
	for len(a.in) == 0 && !a.eof && !a.closed {
		a.blocked++
		a.obs.Broadcast()
		a.cond.Wait()
		a.blocked--
	}
	if a.closed {
		return 0, nil, io.ErrClosedPipe
	}
	if len(a.in) == 0 {
		return 0, nil, io.EOF
	}
	c := &a.in[0]
	n := copy(b, c.Data)
	info := &sctp.SndRcvInfo{Stream: c.Stream}
	if n == len(c.Data) {
		a.in = a.in[1:]
	} else {
		c.Data = c.Data[n:]
	}
	a.obs.Broadcast()
	if a.NoInfo {
		return n, nil, nil
	}
	return n, info, nil
}

func (a *Assoc) SCTPWrite(b []byte, info *sctp.SndRcvInfo) (int, error) {
	a.mu.Lock()
	a.nenter++
	k, gate := a.nenter, a.OnWriteEnter
	a.mu.Unlock()
	if gate != nil {
		gate(k)
	}
	a.mu.Lock()
	defer a.mu.Unlock()
	if a.closed {
		return 0, io.ErrClosedPipe
	}
	a.nwrite++
	if a.FailWrite != nil && a.FailWrite(a.nwrite) {
		return 0, tempErr{}
	}
	var s uint16
	if info != nil {
		s = info.Stream
	}
	a.out = append(a.out, OutRec{Stream: s, Data: append([]byte(nil), b...)})
	a.obs.Broadcast()
	return len(b), nil
}

func (a *Assoc) Close() error {
	a.mu.Lock()
	first := !a.closed
	a.closed = true
	a.cond.Broadcast()
	a.obs.Broadcast()
	a.mu.Unlock()
	if first {
		close(a.closeCh)
	}
	return nil
}

func (a *Assoc) LocalAddr() net.Addr  { return addr("10.0.0.1:3868") }
func (a *Assoc) RemoteAddr() net.Addr { return addr("10.0.0.2:3868") }

func (a *Assoc) Out() []OutRec {
	a.mu.Lock()
	defer a.mu.Unlock()
	return append([]OutRec(nil), a.out...)
}

func (a *Assoc) Closed() bool {
	a.mu.Lock()
	defer a.mu.Unlock()
	return a.closed
}

// WaitReaderBlocked waits until a reader is parked with nothing to read, or the association is closed.
func (a *Assoc) WaitReaderBlocked(d time.Duration) bool {
	deadline := time.Now().Add(d)
	a.mu.Lock()
	defer a.mu.Unlock()
	for !(a.blocked > 0 && len(a.in) == 0) && !a.closed {
		if time.Now().After(deadline) {
			return false
		}
		t := time.AfterFunc(2*time.Millisecond, func() {
			a.mu.Lock()
			a.obs.Broadcast()
			a.mu.Unlock()
		})
		a.obs.Wait()
		t.Stop()
	}
	return true
}
