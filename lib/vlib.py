"""Shared driver library for /verif/bin/check.

Roles of TLC (see DESIGN.md section 1):
  R1  model checking of a spec/cfg pair            -> tlc_check()
  R2  generation of abstract cases from a spec     -> tlc_generate()
  R3  validation of NDJSON traces recorded from the real code against a
      *Trace spec                                   -> tlc_validate()
Only R3 rejections of behaviour recorded on the real code produce verdicts.
"""
import json, os, re, shutil, signal, subprocess, sys, tempfile, time, fcntl, hashlib
from concurrent.futures import ThreadPoolExecutor

VERIF = os.path.dirname(os.path.dirname(os.path.abspath(__file__)))
REPO = os.environ.get("VERIF_REPO", "/repo")
OUT = os.environ.get("VERIF_OUT", "")   # mutant sweeps redirect evidence / replays away from the committed ones
SPEC = os.path.join(VERIF, "spec")
HARNESS = os.path.join(VERIF, "harness")
BUILD = os.path.join(VERIF, ".build")
TLA_CP = "/opt/veriftools/tla/tla2tools.jar:/opt/veriftools/tla/CommunityModules-deps.jar"
NCPU = os.cpu_count() or 4


class Infra(Exception):
    """Infrastructure failure: exit 2, never a violation."""


def goenv():
    e = dict(os.environ)
    e.update(GOFLAGS="-mod=mod", GOPROXY="off", GOSUMDB="off", GOTOOLCHAIN="local")
    e.setdefault("GOCACHE", os.path.join(BUILD, "gocache"))
    return e


def build_harness(log):
    """Rebuild the harness against /repo's current working tree with hooks on."""
    os.makedirs(BUILD, exist_ok=True)
    lock = open(os.path.join(BUILD, "build.lock"), "w")
    fcntl.flock(lock, fcntl.LOCK_EX)
    try:
        shutil.copyfile(os.path.join(REPO, "go.sum"), os.path.join(HARNESS, "go.sum"))
        out = os.path.join(BUILD, "vharness")
        modflag = []
        if os.path.realpath(REPO) != "/repo":
            # a copy of the repository (VERIF_REPO): build against it through an alternative go.mod
            tag = hashlib.sha1(os.path.realpath(REPO).encode()).hexdigest()[:8]
            alt = os.path.join(BUILD, "alt-%s.mod" % tag)
            with open(alt, "w") as f:
                f.write(open(os.path.join(HARNESS, "go.mod")).read().replace("=> /repo", "=> " + os.path.realpath(REPO)))
            shutil.copyfile(os.path.join(REPO, "go.sum"), alt[:-4] + ".sum")
            modflag = ["-modfile=" + alt]
            out = os.path.join(BUILD, "vharness-" + tag)
        tmp = out + ".%d" % os.getpid()
        t0 = time.time()
        cover = ["-cover", "-coverpkg=verifharness/...,github.com/fiorix/go-diameter/v4/..."] if os.environ.get("VERIF_COVER") else []   # with GOCOVERDIR: which library code the checks execute
        p = subprocess.run(["go", "build"] + modflag + cover + ["-tags", "verif", "-o", tmp, "./cmd/vharness"],
                           cwd=HARNESS, env=goenv(), stdout=subprocess.PIPE, stderr=subprocess.STDOUT, text=True)
        if p.returncode != 0:
            raise Infra("harness build failed:\n" + p.stdout)
        os.replace(tmp, out)
        log("harness built in %.1fs" % (time.time() - t0))
        return out
    finally:
        fcntl.flock(lock, fcntl.LOCK_UN)
        lock.close()


class Scratch:
    def __init__(self, name):
        base = os.path.join(VERIF, ".scratch")
        os.makedirs(base, exist_ok=True)
        self.dir = tempfile.mkdtemp(prefix=name + "-", dir=base)

    def sub(self, name):
        d = os.path.join(self.dir, name)
        os.makedirs(d, exist_ok=True)
        return d

    def specdir(self, name):
        """A fresh directory holding a copy of all spec modules (TLC litters its cwd)."""
        d = self.sub(name)
        for f in os.listdir(SPEC):
            if f.endswith(".tla") or f.endswith(".cfg"):
                shutil.copyfile(os.path.join(SPEC, f), os.path.join(d, f))
        return d

    def cleanup(self):
        shutil.rmtree(self.dir, ignore_errors=True)


def _java(heap_mb, tmpdir=None):
    # java.io.tmpdir: TLC leaves an empty tlc-<n> directory per run; keep it in the scratch directory of the run
    return ["java", "-XX:+UseParallelGC", "-Xmx%dm" % heap_mb, "-Xss64m"] + (["-Djava.io.tmpdir=" + tmpdir] if tmpdir else []) + ["-cp", TLA_CP, "tlc2.TLC"]


_STATS = re.compile(r"(\d+) states generated, (\d+) distinct states found, (\d+) states left on queue")


def run_tlc(cwd, module, cfg, workers=1, heap_mb=4096, timeout=600, extra=(), stdout_path=None):
    """Run TLC; returns dict(rc, out, generated, distinct, violated, error)."""
    cmd = _java(heap_mb, cwd) + ["-workers", str(workers), "-metadir", os.path.join(cwd, "md-" + module + "-" + cfg.replace(".cfg", "")),
                            "-config", cfg, "-lncheck", "final"] + list(extra) + [module + ".tla"]
    t0 = time.time()
    try:
        if stdout_path:
            with open(stdout_path, "w") as fo:
                p = subprocess.run(cmd, cwd=cwd, stdout=fo, stderr=subprocess.STDOUT, timeout=timeout)
            out = open(stdout_path, errors="replace").read()
        else:
            p = subprocess.run(cmd, cwd=cwd, stdout=subprocess.PIPE, stderr=subprocess.STDOUT, timeout=timeout, text=True, errors="replace")
            out = p.stdout
    except subprocess.TimeoutExpired:
        raise Infra("TLC timeout (%ds) on %s/%s" % (timeout, module, cfg))
    r = dict(rc=p.returncode, out=out, wall=time.time() - t0, generated=0, distinct=0, violated=None, error=None)
    m = None
    for m in _STATS.finditer(out):
        pass
    if m:
        r["generated"], r["distinct"] = int(m.group(1)), int(m.group(2))
    mv = re.search(r"Error: Invariant (\S+) is violated", out) or re.search(r"Error: Action property (\S+) is violated", out)
    if mv:
        r["violated"] = mv.group(1)
    elif "Error:" in out and "Model checking completed. No error has been found" not in out:
        me = re.search(r"Error: (.*)", out)
        r["error"] = me.group(1) if me else "unknown"
    return r


def tlc_check(scratch, module, cfg, workers=None, heap_mb=6144, timeout=900, expect_violation=None, extra=()):
    """R1. Exhaustive model checking; the run must finish without error
    (or, for a vacuity / sensitivity config, violate exactly `expect_violation`)."""
    d = scratch.specdir("r1-%s-%s" % (module, cfg.replace(".cfg", "")))
    r = run_tlc(d, module, cfg, workers=workers or min(NCPU, 8), heap_mb=heap_mb, timeout=timeout, extra=extra)
    if r["error"]:
        raise Infra("TLC error in %s/%s: %s\n%s" % (module, cfg, r["error"], r["out"][-3000:]))
    if expect_violation:
        if r["violated"] != expect_violation:
            raise Infra("sensitivity config %s/%s: expected violation of %s, got %s" % (module, cfg, expect_violation, r["violated"]))
    elif r["violated"]:
        raise Infra("model %s/%s violates %s (the specification itself is inconsistent; not a verdict on the code)\n%s"
                    % (module, cfg, r["violated"], r["out"][-4000:]))
    return r


def tlc_generate(scratch, module, cfg, workers=4, heap_mb=6144, timeout=900, extra=(), tag="CASE"):
    """R2. Run a generator spec whose invariant PrintT's ToJson(<<tag, case>>) for every distinct state."""
    d = scratch.specdir("r2-%s-%s" % (module, cfg.replace(".cfg", "")))
    outp = os.path.join(d, "tlc.out")
    r = run_tlc(d, module, cfg, workers=workers, heap_mb=heap_mb, timeout=timeout, extra=extra, stdout_path=outp)
    if r["error"] or r["violated"]:
        raise Infra("generator %s/%s failed: %s %s\n%s" % (module, cfg, r["error"], r["violated"], r["out"][-3000:]))
    cases = []
    with open(outp, errors="replace") as f:
        for line in f:
            if line.startswith('"{') or line.startswith('"['):
                try:
                    v = json.loads(json.loads(line))
                except Exception:
                    continue
                cases.append(v)
    r["cases"] = cases
    r["out"] = ""
    return r


def write_ndjson(path, objs):
    with open(path, "w") as f:
        for o in objs:
            f.write(json.dumps(o, separators=(",", ":")))
            f.write("\n")


def read_ndjson(path):
    out = []
    with open(path) as f:
        for line in f:
            line = line.strip()
            if line:
                out.append(json.loads(line))
    return out


_BAD = re.compile(r'<<\s*"BADLINE",\s*(\d+),\s*<<\s*([^<>]*?)\s*>>\s*>>')


def _validate_one(args):
    d, module, cfg, nlines, heap_mb, timeout = args
    r = run_tlc(d, module, cfg, workers=1, heap_mb=heap_mb, timeout=timeout)
    bad = []
    flat = r["out"].replace("\n", " ")
    for m in _BAD.finditer(flat):
        bad.append((int(m.group(1)), re.sub(r"\s+", " ", (m.group(2) or "").strip())))
    if len(bad) != flat.count('"BADLINE"'):
        raise Infra("trace validator %s/%s: %d BADLINE reports printed but %d parsed" % (module, cfg, flat.count('"BADLINE"'), len(bad)))
    if r["error"] or r["violated"]:
        raise Infra("trace validator %s/%s failed: %s %s\n%s" % (module, cfg, r["error"], r["violated"], r["out"][-3000:]))
    if r["distinct"] != nlines + 1:
        raise Infra("trace validator %s/%s consumed %d of %d lines\n%s" % (module, cfg, r["distinct"] - 1, nlines, r["out"][-2000:]))
    return bad, r


def tlc_validate(scratch, module, cfg, lines, chunk=None, procs=None, heap_mb=1500, timeout=900, reset_key=None):
    """R3. Validate recorded trace lines (list of dicts) against a *Trace spec.
    The spec consumes every line, printing <<"BADLINE", l, reason>> for rejected ones.
    Lines are split into chunks validated by parallel TLC processes; when the spec is
    stateful, chunks are cut only at lines where reset_key(line) is true.
    Returns (bad, stats) with bad = list of (global line index (0-based), reason)."""
    n = len(lines)
    if n == 0:
        return [], dict(generated=0, distinct=0, procs=0)
    procs = procs or NCPU
    chunk = chunk or max(200, (n + procs - 1) // procs)
    cuts = [0]
    i = chunk
    while i < n:
        if reset_key is not None:
            while i < n and not reset_key(lines[i]):
                i += 1
            if i >= n:
                break
        cuts.append(i)
        i += chunk
    cuts.append(n)
    jobs = []
    for k in range(len(cuts) - 1):
        d = scratch.specdir("r3-%s-%d" % (module, k))
        part = lines[cuts[k]:cuts[k + 1]]
        write_ndjson(os.path.join(d, "trace.ndjson"), part)
        jobs.append((d, module, cfg, len(part), heap_mb, timeout))
    bad = []
    gen = dist = 0
    with ThreadPoolExecutor(max_workers=procs) as ex:
        for k, (b, r) in enumerate(ex.map(_validate_one, jobs)):
            gen += r["generated"]
            dist += r["distinct"]
            for (l, why) in b:
                bad.append((cuts[k] + l - 1, why))
    return bad, dict(generated=gen, distinct=dist, procs=len(jobs))


def apalache_check(scratch, module, init, inv, length, cinit, expect_violation=False, timeout=600, next_=None):
    """Symbolic check with Apalache (bounded by `length`): used for inductive invariants
    (--init=<arbitrary state satisfying the invariant> --length=1). Returns seconds taken.
    Infra if Apalache cannot be run or the outcome is not the expected one... the latter is a broken
    model, not a verdict about the code."""
    d = scratch.specdir("apa-%s-%s-%s-%s-%d" % (module, inv, cinit, next_, length))
    t0 = time.time()
    try:
        p = subprocess.run(["apalache-mc", "check", "--init=" + init, "--inv=" + inv, "--length=%d" % length]
                           + (["--cinit=" + cinit] if cinit else []) + (["--next=" + next_] if next_ else [])
                           + ["--out-dir=" + os.path.join(d, "_apalache-out"), module + ".tla"],
                           cwd=d, stdout=subprocess.PIPE, stderr=subprocess.STDOUT, text=True, timeout=timeout)
    except (OSError, subprocess.TimeoutExpired) as e:
        raise Infra("apalache-mc could not be run to completion: %s" % e)
    out = p.stdout
    ok = "The outcome is: NoError" in out
    bad = "The outcome is: Error" in out and "violated" in out
    if not ok and not bad:
        raise Infra("apalache-mc: no outcome for %s %s: %s" % (module, inv, out[-600:]))
    if ok == expect_violation:
        raise Infra("apalache-mc: %s/%s with %s was expected to %s" % (module, inv, cinit, "be violated" if expect_violation else "hold"))
    return time.time() - t0


def run_harness(binary, args, timeout=900, env=None, stdin=None):
    e = dict(os.environ)
    if env:
        e.update(env)
    p = subprocess.Popen([binary] + list(args), stdout=subprocess.PIPE, stderr=subprocess.PIPE, stdin=subprocess.PIPE if stdin is not None else None,
                         env=e, text=True, errors="replace")
    try:
        out, err = p.communicate(input=stdin, timeout=timeout)
    except subprocess.TimeoutExpired:
        # ask the Go runtime for a goroutine dump before giving up: says where the driver is stuck
        p.send_signal(signal.SIGQUIT)
        try:
            out, err = p.communicate(timeout=20)
        except subprocess.TimeoutExpired:
            p.kill()
            out, err = p.communicate()
        dump = os.path.join(VERIF, ".scratch", "harness-timeout-%d.txt" % os.getpid())
        try:
            os.makedirs(os.path.dirname(dump), exist_ok=True)
            with open(dump, "w") as f:
                f.write(err)
        except OSError:
            dump = "(not written)"
        raise Infra("harness timeout: %s (goroutine dump: %s)" % (" ".join(args), dump))
    return subprocess.CompletedProcess([binary] + list(args), p.returncode, out, err)


# ---------------------------------------------------------------- findings

def load_known():
    p = os.path.join(VERIF, "known_findings.json")
    if not os.path.exists(p):
        return []
    return json.load(open(p)).get("findings", [])


class Verdict:
    """Collects discrepancies observed on the real code, classifies them against
    known_findings.json (read-only) and prints the interface lines."""

    def __init__(self, prop):
        self.prop = prop
        self.known = [k for k in load_known() if k["property"] == prop and k.get("status") == "known"]
        self.hits = {}        # signature -> count (known)
        self.viol = []        # (signature, replay path)
        self.sigs = {}        # violation signature -> occurrences
        self.nviol = 0

    def report(self, signature, replay_obj, detail=""):
        """signature: stable string naming the failing input class / call site / history."""
        for k in self.known:
            if re.fullmatch(k["signature"], signature):
                self.hits.setdefault(k["signature"], [0, k.get("what", "")])
                self.hits[k["signature"]][0] += 1
                return False
        self.nviol += 1
        if signature in self.sigs:
            self.sigs[signature] += 1
            return True
        self.sigs[signature] = 1
        if len(self.viol) < 25:
            os.makedirs(os.path.join(OUT or VERIF, "replays"), exist_ok=True)
            h = hashlib.sha1((signature + json.dumps(replay_obj, sort_keys=True)).encode()).hexdigest()[:10]
            path = os.path.join(OUT or VERIF, "replays", "%s-%s.json" % (self.prop, h))
            with open(path, "w") as f:
                json.dump(dict(property=self.prop, signature=signature, detail=detail, case=replay_obj), f, indent=1)
            self.viol.append((signature, path, detail))
        return True

    def finish(self):
        for sig, (n, what) in sorted(self.hits.items()):
            print("KNOWN-FINDING: property=%s %s [%s] (%d occurrences this run)" % (self.prop, what, sig, n))
        for sig, path, detail in self.viol:
            print("VIOLATION property=%s replay=%s  # %s (x%d) %s" % (self.prop, path, sig, self.sigs.get(sig, 1), detail[:300]))
        return 1 if self.viol else 0


def write_evidence(prop, tier, seed, coverage, wall, violations, assumptions):
    edir = os.path.join(OUT or VERIF, "evidence")
    os.makedirs(edir, exist_ok=True)
    ev = dict(property_id=prop, tier=tier, seed=int(seed), level="model_checking", coverage=coverage,
              assumptions=assumptions, wall_s=round(wall, 2), violations=int(violations))
    tmp = os.path.join(edir, ".%s.%d.tmp" % (prop, os.getpid()))
    with open(tmp, "w") as f:
        json.dump(ev, f, indent=1)
    os.replace(tmp, os.path.join(edir, prop + ".json"))


class Ctx:
    def __init__(self, **kw):
        self.__dict__.update(kw)
        self.harness = None

    def wall(self):
        return time.time() - self.t0


def impl_conformance(ctx, module, cfg_text, scenarios, fields, tag):
    """Hook-level conformance (nondeterministic trace validation): the merged log of test actions
    and internal events of every scenario must be a behaviour of the implementation-shaped model.
    The trace spec <module> consumes lines with event actions and silent steps; it is accepted when
    its invariant NotDone is violated (every line consumed), else the high-water mark names the
    stuck line. Rejected scenarios are removed and the rest re-validated (at most 6 rounds).
    A rejection is model drift: reported in the evidence, never a verdict."""
    drift, todo, states = [], list(scenarios), 0
    for rnd in range(6):
        if not todo:
            break
        tl, starts = [], []
        blank = dict((f, d) for f, d in fields)
        for l in todo:
            starts.append(len(tl) + 1)
            tl.append(dict(blank, ev="reset"))
            for e in l["events"]:
                row = dict(blank)
                row.update((k, e[k]) for k in blank if k in e)
                tl.append(row)
        d = ctx.scratch.specdir("conf-%s-%d" % (tag, rnd))
        write_ndjson(os.path.join(d, "trace.ndjson"), tl)
        with open(os.path.join(d, "conf.cfg"), "w") as f:
            f.write(cfg_text)
        r = run_tlc(d, module, "conf.cfg", workers=1, heap_mb=3000, timeout=900)
        states += r["distinct"]
        if r["violated"] == "NotDone":
            todo = []
            break
        m = re.search(r'"HIGHWATER",\s*(\d+)', r["out"])
        if m and not r["error"] and not r["violated"] and int(m.group(1)) == len(tl) + 1:
            todo = []   # a cfg without the NotDone invariant (no error trace to print): every line was consumed
            break
        if r["error"] or not m:
            return dict(status="inconclusive", detail=(r["error"] or r["out"][-300:])[:300], scenarios=len(scenarios))
        hw = int(m.group(1))
        k = max(i for i, s0 in enumerate(starts) if s0 <= max(hw, 1))
        drift.append(dict(case=todo[k].get("case"), stuck_at=tl[hw - 1] if 0 < hw <= len(tl) else None, stuck_index=hw - starts[k],
                          events=[e["ev"] + "".join(":" + str(e[f]) for f, _ in fields if f != "ev" and e.get(f) not in ("", None, False, 0)) for e in todo[k]["events"]]))
        todo = todo[:k] + todo[k + 1:]
    return dict(status="conforms" if not drift else "drift", scenarios=len(scenarios), tlc_states=states, drift=drift[:5])
