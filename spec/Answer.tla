------------------------------- MODULE Answer -------------------------------
(***************************************************************************)
(* Request -> answer mirroring (C16).  A header is [flags : 0..255, cmd :  *)
(* 3 bytes, app, hbh, e2e : 4 bytes].  AnswerOK(req, rc, ans) holds when    *)
(* the answer has the request's command, application and both identifiers  *)
(* (zero included), the request bit cleared and every other flag bit       *)
(* (proxiable included) unchanged, exactly one leading Result-Code AVP     *)
(* (code 268, M flag, Unsigned32 rc) when rc # 0 and none otherwise, and   *)
(* the request's stream.                                                   *)
(***************************************************************************)
EXTENDS Integers, Sequences, TLC

ClearR(f) == IF f >= 128 THEN f - 128 ELSE f
AnswerHdr(req) == [flags |-> ClearR(req.flags), cmd |-> req.cmd, app |-> req.app, hbh |-> req.hbh, e2e |-> req.e2e]
Limbs(rc) == <<rc \div 65536, rc % 65536>>

SetE(f) == IF (f \div 32) % 2 = 1 THEN f ELSE f + 32
\* the error bit may accompany a failure result code; nothing else may change
FlagsOK(req, rc, ans) == \/ ans.hdr.flags = ClearR(req.flags)
                         \/ (rc >= 3000 /\ ans.hdr.flags = SetE(ClearR(req.flags)))

\* `only`: the answer must consist of the Result-Code AVP alone (Message.Answer); the state
\* machine's CEA / DWA carry further AVPs after it
ReasonsX(req, rc, stream, ans, only) ==
     (IF ans.hdr.cmd # req.cmd \/ ans.hdr.app # req.app THEN <<"command">> ELSE <<>>)
  \o (IF ans.hdr.hbh # req.hbh \/ ans.hdr.e2e # req.e2e THEN <<"ids">> ELSE <<>>)
  \o (IF ~FlagsOK(req, rc, ans) THEN <<"flags">> ELSE <<>>)
  \o (IF rc # 0 /\ ~((only => ans.navps = 1) /\ ans.navps >= 1 /\ ans.first.code = 268 /\ ans.first.flags = 64 /\ ans.first.sem = Limbs(rc)) THEN <<"resultcode">> ELSE <<>>)
  \o (IF rc = 0 /\ only /\ ans.navps # 0 THEN <<"resultcode">> ELSE <<>>)
  \o (IF ans.stream # stream THEN <<"stream">> ELSE <<>>)
Reasons(req, rc, stream, ans) == ReasonsX(req, rc, stream, ans, TRUE)
=============================================================================
