----------------------------- MODULE AnswerGen -----------------------------
(* R2 for C16: boundary-exhaustive request headers x result codes. One state = one case. *)
EXTENDS Answer, Json
CONSTANTS FlagSet, RCs
VARIABLE c
Ids == { <<0, 0, 0, 0>>, <<0, 0, 0, 1>>, <<128, 0, 0, 0>>, <<255, 255, 255, 255>> }
Cmds == { [cmd |-> <<0, 1, 1>>, app |-> <<0, 0, 0, 0>>],          \* CER, base
          [cmd |-> <<0, 1, 16>>, app |-> <<0, 0, 0, 4>>],         \* Credit-Control, application 4
          [cmd |-> <<0, 1, 60>>, app |-> <<1, 0, 0, 35>>] }       \* Update-Location, S6a 16777251
Init == c \in {[req |-> [flags |-> f, cmd |-> k.cmd, app |-> k.app, hbh |-> h, e2e |-> e], rc |-> rc]
                : f \in FlagSet, k \in Cmds, h \in Ids, e \in Ids, rc \in RCs}
Next == UNCHANGED c
AllFlags == 0..255
\* R1: the reference answer satisfies the observation predicate (no reasons)
RefAnswerOK == Reasons(c.req, c.rc, 7, [hdr |-> AnswerHdr(c.req), navps |-> IF c.rc = 0 THEN 0 ELSE 1,
                        first |-> [code |-> 268, flags |-> 64, sem |-> Limbs(c.rc)], stream |-> 7]) = <<>>
Emit == PrintT(ToJson(c))
=============================================================================
