CONSTANTS FlagSet = {0, 128, 64, 192, 32, 160, 16, 144, 240, 255, 127, 129, 1, 208}
  RCs = {0, 2001, 5012}
INIT Init
NEXT Next
INVARIANTS RefAnswerOK Emit
CHECK_DEADLOCK FALSE
