CONSTANTS FlagSet <- AllFlags
  RCs = {0, 2001, 3001, 5012}
INIT Init
NEXT Next
INVARIANTS RefAnswerOK Emit
CHECK_DEADLOCK FALSE
