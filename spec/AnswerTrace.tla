----------------------------- MODULE AnswerTrace -----------------------------
(* R3 for C16: the answer the library built for a request, against Answer!Reasons. *)
EXTENDS Answer, Json
Trace == ndJsonDeserialize("trace.ndjson")
VARIABLE l
Init == l = 1
Next == /\ l <= Len(Trace)
        /\ l' = l + 1
        /\ LET e == Trace[l]  r == ReasonsX(e.req, e.rc, e.stream, e.ans, e.via = "api") IN
           r = <<>> \/ PrintT(<<"BADLINE", l, r>>)
=============================================================================
