------------------------------- MODULE Bytes -------------------------------
(***************************************************************************)
(* Byte-sequence arithmetic.  TLC integers are 32-bit, so every 32/64-bit  *)
(* protocol quantity is a sequence of bytes (most significant first) or of *)
(* 16-bit limbs.  Nothing here knows about Diameter.                       *)
(***************************************************************************)
EXTENDS Integers, Sequences, SequencesExt

Byte == 0..255
IsBytes(s) == \A i \in 1..Len(s) : s[i] \in Byte

Pad4(n)  == ((n + 3) \div 4) * 4
PadLen(n) == Pad4(n) - n
Zeros(n) == [i \in 1..n |-> 0]

U16(b, i) == b[i] * 256 + b[i+1]
U24(b, i) == b[i] * 65536 + b[i+1] * 256 + b[i+2]
Enc16(n) == << (n \div 256) % 256, n % 256 >>
Enc24(n) == << (n \div 65536) % 256, (n \div 256) % 256, n % 256 >>
\* only for 0 <= n < 2^31 (TLC integer range)
Enc32(n) == << (n \div 16777216) % 256, (n \div 65536) % 256, (n \div 256) % 256, n % 256 >>

\* 16-bit limbs (most significant first) -> bytes
LimbsToBytes(ls) == FlattenSeq([i \in 1..Len(ls) |-> Enc16(ls[i])])
BytesToLimbs(b)  == [i \in 1..(Len(b) \div 2) |-> U16(b, 2*i - 1)]

\* big-endian addition of equal-length byte sequences modulo 2^(8n)
RECURSIVE AddCarry(_, _, _, _)
AddCarry(a, b, i, c) ==
  IF i = 0 THEN <<>>
  ELSE LET s == a[i] + b[i] + c IN Append(AddCarry(a, b, i - 1, s \div 256), s % 256)
AddBytes(a, b) == AddCarry(a, b, Len(a), 0)
Neg(b) == \* two's complement
  AddBytes([i \in 1..Len(b) |-> 255 - b[i]], [i \in 1..Len(b) |-> IF i = Len(b) THEN 1 ELSE 0])
SubBytes(a, b) == AddBytes(a, Neg(b))

\* sign / zero extension and truncation
Low(b, n)   == SubSeq(b, Len(b) - n + 1, Len(b))
ZeroExt(b, n) == Zeros(n - Len(b)) \o b
SignExt(b, n) == [i \in 1..(n - Len(b)) |-> IF b[1] >= 128 THEN 255 ELSE 0] \o b

\* lexicographic (= numeric, for equal lengths) comparison of unsigned big-endian byte sequences
RECURSIVE LessEq(_, _)
LessEq(a, b) == IF Len(a) = 0 THEN TRUE
                ELSE IF a[1] < b[1] THEN TRUE
                ELSE IF a[1] > b[1] THEN FALSE
                ELSE LessEq(Tail(a), Tail(b))
=============================================================================
