------------------------------- MODULE Capab -------------------------------
(***************************************************************************)
(* Capabilities exchange, server side (C11), from the property statement   *)
(* and RFC 6733 section 5.3.                                               *)
(*                                                                         *)
(* CER: [oh, or : "absent"|"empty"|"present", inband : "absent"|"zero"|    *)
(*       "nonzero", items : sequence of application items, hbh, e2e]       *)
(* item: [t |-> "acct"|"auth", id] or [t |-> "vsa", vpos, inner] where     *)
(*       inner is a sequence of acct / auth items.                         *)
(* D   : set of [t, id] the local dictionary supports (typed apps).        *)
(***************************************************************************)
EXTENDS Integers, Sequences, SequencesExt, FiniteSets, TLC

Relay == <<255, 255, 255, 255>>

\* all application ids the request advertises, with their type, in order
AppItems(items) ==
  FlattenSeq([i \in 1..Len(items) |->
     IF items[i].t = "vsa" THEN [j \in 1..Len(items[i].inner) |-> [t |-> items[i].inner[j].t, id |-> items[i].inner[j].id]]
     ELSE << [t |-> items[i].t, id |-> items[i].id] >>])


\* advertised applications shared with the local node: relay, or supported with the same type
Common(cer, D) == {a \in ToSet(AppItems(cer.items)) : a.id = Relay \/ a \in D}

IdentityOK(cer) == cer.oh = "present" /\ cer.or = "present"
SecurityOK(cer) == cer.inband \in {"absent", "zero"}
Accept(cer, D)  == IdentityOK(cer) /\ SecurityOK(cer) /\ Common(cer, D) # {}

\* admissible failure result codes: every cause that applies
Causes(cer, D) == (IF ~IdentityOK(cer) THEN {5012} ELSE {})
             \cup (IF ~SecurityOK(cer) THEN {5017} ELSE {})
             \cup (IF Common(cer, D) = {} THEN {5010} ELSE {})

(* CapabObs: reasons why an observed exchange violates C11.                 *)
(* obs: [cea : [present, rc, oh, or, hostips, hbh, e2e, apps], closed,      *)
(*       meta : [present, oh, or, apps]]                                    *)
(* settings: [oh, or, hostips (configured, possibly empty), localips]       *)
\* settings.cananswer = FALSE: no CEA can reach the peer (no address to put into it, or the transport
\* refuses the write): nothing is observed on the wire, an unacceptable CER still closes the
\* connection, and an acceptable one does not open the gate (no success CEA was written)
Reasons(cer, D, settings, peer, obs) ==
  IF ~settings.cananswer THEN
       (IF obs.cea.present THEN <<"cea-from-nowhere">> ELSE <<>>)
    \o (IF ~Accept(cer, D) /\ ~obs.closed THEN <<"not-closed">> ELSE <<>>)
    \o (IF obs.meta.present THEN <<"metadata-without-cea">> ELSE <<>>)
  ELSE IF ~obs.cea.present THEN <<"no-cea">>
  ELSE
     (IF obs.cea.hbh # cer.hbh \/ obs.cea.e2e # cer.e2e THEN <<"ids">> ELSE <<>>)
  \o (IF obs.cea.oh # settings.oh \/ obs.cea.or # settings.or THEN <<"identity">> ELSE <<>>)
  \o (IF obs.cea.hostips = <<>>
         \/ (settings.hostips # <<>> /\ obs.cea.hostips # settings.hostips)
         \/ (settings.hostips = <<>> /\ ~(ToSet(obs.cea.hostips) \subseteq ToSet(settings.localips)))
      THEN <<"hostip">> ELSE <<>>)
  \o (IF Accept(cer, D)
      THEN (IF obs.cea.rc # 2001 THEN <<"rejected-acceptable">> ELSE
              (IF obs.closed THEN <<"closed-after-success">> ELSE <<>>)
           \o (IF ~({a \in Common(cer, D) : a.id # Relay} \subseteq ToSet(obs.cea.apps)) THEN <<"cea-apps">> ELSE <<>>)
           \o (IF ~obs.meta.present THEN <<"no-metadata">>
               ELSE IF obs.meta.oh # peer.oh \/ obs.meta.or # peer.or THEN <<"metadata-identity">>
               ELSE IF ToSet(obs.meta.apps) # {a.id : a \in Common(cer, D)} THEN <<"metadata-apps">> ELSE <<>>))
      ELSE (IF obs.cea.rc = 2001 THEN <<"accepted-unacceptable">>
            ELSE (IF obs.cea.rc \notin Causes(cer, D) THEN <<"wrong-cause">> ELSE <<>>)
              \o (IF ~obs.closed THEN <<"not-closed">> ELSE <<>>)
              \o (IF obs.meta.present THEN <<"metadata-after-failure">> ELSE <<>>)))
=============================================================================
