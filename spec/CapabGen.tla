------------------------------ MODULE CapabGen ------------------------------
(***************************************************************************)
(* R1/R2 for C11: CERs as a state machine - AddItem appends an application *)
(* item (Acct, Auth, or a Vendor-Specific-Application-Id group with the    *)
(* Vendor-Id first / last / absent and inner Acct / Auth / both / none)    *)
(* over the id classes supported-auth, supported-acct, unsupported,        *)
(* wrong-type, relay.  Presence combinations of Origin-Host, Origin-Realm  *)
(* and Inband-Security-Id are chosen in Init.  Every state is a case.      *)
(***************************************************************************)
EXTENDS Capab, Json
CONSTANTS MaxItems, FullPresenceMaxItems
VARIABLE cer
D == {[t |-> "auth", id |-> <<0, 0, 0, 4>>], [t |-> "auth", id |-> <<0, 0, 0, 1>>], [t |-> "acct", id |-> <<0, 0, 0, 3>>],
      [t |-> "auth", id |-> <<1, 0, 0, 35>>]}
SAuth == <<0, 0, 0, 4>>   SAcct == <<0, 0, 0, 3>>   Unsup == <<0, 0, 48, 57>>   \* 12345
IdsFor(t) == IF t = "acct" THEN {SAcct, Unsup, SAuth, Relay}      \* SAuth under Acct = wrong type
                           ELSE {SAuth, Unsup, SAcct, Relay}      \* SAcct under Auth = wrong type
Plain == {[t |-> t, id |-> i, vpos |-> "", inner |-> <<>>] : t \in {"acct", "auth"}, i \in {SAuth, SAcct, Unsup, Relay}}
In(t, i) == [t |-> t, id |-> i, vpos |-> "", inner |-> <<>>]
Inners == {<<>>} \cup {<<In(t, i)>> : t \in {"acct", "auth"}, i \in {SAuth, SAcct, Unsup, Relay}}
          \cup {<<In("acct", SAcct), In("auth", Unsup)>>, <<In("acct", Unsup), In("auth", SAuth)>>,
                <<In("auth", Unsup), In("acct", Unsup)>>, <<In("auth", Unsup), In("auth", SAuth)>>}
VSAs == {[t |-> "vsa", id |-> <<0, 0, 0, 0>>, vpos |-> v, inner |-> x] : v \in {"first", "last", "absent"}, x \in Inners}
Items == Plain \cup VSAs
P3 == {"absent", "empty", "present"}
I3 == {"absent", "zero", "nonzero"}
AllGood(c) == c.oh = "present" /\ c.or = "present" /\ c.inband = "zero"
Init == cer \in {[oh |-> a, or |-> b, inband |-> s, items |-> <<>>, hbh |-> h, e2e |-> e] :
                    a \in P3, b \in P3, s \in I3, h \in {<<0, 0, 0, 0>>}, e \in {<<255, 255, 255, 255>>}}
             \cup {[oh |-> "present", or |-> "present", inband |-> "zero", items |-> <<>>, hbh |-> <<128, 0, 0, 0>>, e2e |-> <<0, 0, 0, 0>>]}
Next == /\ Len(cer.items) < (IF AllGood(cer) THEN MaxItems ELSE FullPresenceMaxItems)
        /\ \E it \in Items : cer' = [cer EXCEPT !.items = Append(@, it)]
\* R1: acceptance and causes are consistent: rejected <=> at least one cause applies
Consistent == (Accept(cer, D) <=> Causes(cer, D) = {}) /\ Causes(cer, D) \subseteq {5010, 5012, 5017}
Emit == PrintT(ToJson(cer))
=============================================================================
