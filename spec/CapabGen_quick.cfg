CONSTANTS MaxItems = 2
  FullPresenceMaxItems = 1
INIT Init
NEXT Next
INVARIANTS Consistent Emit
CHECK_DEADLOCK FALSE
