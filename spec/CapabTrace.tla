----------------------------- MODULE CapabTrace -----------------------------
(* R3 for C11: the CEA, Close and metadata observed for a CER, against Capab!Reasons. *)
EXTENDS Capab, Json
Trace == ndJsonDeserialize("trace.ndjson")
VARIABLE l
Init == l = 1
Next == /\ l <= Len(Trace)
        /\ l' = l + 1
        /\ LET e == Trace[l]  r == Reasons(e.cer, ToSet(e.dictapps), e.settings, e.peer, e.obs) IN
           r = <<>> \/ PrintT(<<"BADLINE", l, r>>)
=============================================================================
