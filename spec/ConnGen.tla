------------------------------- MODULE ConnGen -------------------------------
(* R2 for C14: every ordering of the schedule events up to MaxLen with exactly one terminator, *)
(* CloseNotify requests before and after it.                                                   *)
EXTENDS ConnObs, Json
CONSTANTS MaxLen, MaxAfter
VARIABLES sched, term, half, nafter
vars == <<sched, term, half, nafter>>
Init == sched = <<>> /\ term = FALSE /\ half = FALSE /\ nafter = 0
Pre == {"m", "mh", "mm", "m1", "cn", "mw"}
\* "idle" needs a server with ReadTimeout: those few schedules are fixed in the driver, not generated here
GenTerm == Terminators \ {"idle"}
Step(ev) == /\ sched' = Append(sched, ev)
            /\ term' = (term \/ ev \in Terminators)
            /\ half' = IF ev = "m1" THEN TRUE ELSE IF ev = "m2" THEN FALSE ELSE half
            /\ nafter' = IF term THEN nafter + 1 ELSE nafter
Next == /\ Len(sched) < MaxLen
        /\ \E ev \in Pre \cup {"m2"} \cup GenTerm :
             /\ term => (ev = "cn" /\ nafter < MaxAfter)
             \* at most one per schedule, right after the first request (there is a channel to watch)
             /\ ev = "mw" => (Len(sched) = 1 /\ sched[1] \in {"mh", "cn"})
             /\ ~term => ((half => ev \in {"m2", "cn", "eof", "rerr", "lclose"}) /\ (~half => ev # "m2"))
             /\ Step(ev)
HasRequest == \E i \in 1..Len(sched) : sched[i] \in {"mh", "mm", "cn", "mhp"}
Emit == ~(term /\ HasRequest) \/ PrintT(ToJson([sched |-> sched]))
=============================================================================
