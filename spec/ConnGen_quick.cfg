CONSTANTS MaxLen = 5
  MaxAfter = 2
INIT Init
NEXT Next
INVARIANTS Emit
CHECK_DEADLOCK FALSE
