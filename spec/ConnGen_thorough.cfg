CONSTANTS MaxLen = 7
  MaxAfter = 2
INIT Init
NEXT Next
INVARIANTS Emit
CHECK_DEADLOCK FALSE
