------------------------------ MODULE ConnImpl ------------------------------
(***************************************************************************)
(* Implementation-shaped model of a connection's reader and the            *)
(* CloseNotify reader switch (C14): diam/server.go conn.serve,             *)
(* liveSwitchReader.Read, conn.closeNotify, the pipe copier closure and    *)
(* notifyClientGone.  One action per blocking point; "read returned" and   *)
(* "decode failed, close" are separate actions (the copier leak is         *)
(* invisible otherwise).                                                   *)
(*                                                                         *)
(* Fixed = TRUE models the repaired exit path of conn.serve: it closes the *)
(* pipe, marks the connection gone and fires a requested notification;     *)
(* closeNotify on a connection that is already gone returns a closed       *)
(* channel.  Fixed = FALSE is the original code (the exit path only closes *)
(* the transport) and is kept as a sensitivity configuration.              *)
(***************************************************************************)
EXTENDS Integers, Sequences, FiniteSets, TLC
CONSTANTS MaxChunks,      \* chunks the peer may send ("m" = one whole good message, "x" = undecodable)
          MaxCN,          \* CloseNotify requests
          Fixed
VARIABLES net,        \* chunks in flight on the transport
          netEnd,     \* "open" | "eof" | "err": how the peer side ended
          rwcClosed,  \* transport closed locally (rwc.Close)
          srMode,     \* "raw" | "pipe"
          srPending,  \* pipe installed, switch not yet performed
          rd,         \* reader (serve) goroutine: "idle","inRaw","inPipe","failing","handler","handler_p","closing","finishing","exited"
          cp,         \* copier goroutine: "none","inRaw","inWrite","closing","notifying","done"
          pipe,       \* <<>> or <<chunk>>: chunk offered by the copier, not yet consumed
          pipeEnd,    \* pw.CloseWithError called (copier finished)
          prClosed,   \* pipe reader closed by the serve exit path (Fixed)
          cn,         \* "nil" | "open" | "closed"
          gone,       \* clientGone flag
          sent, got,  \* history: chunks sent by the peer / messages handed to the handler
          ncn, nsent
vars == <<net, netEnd, rwcClosed, srMode, srPending, rd, cp, pipe, pipeEnd, prClosed, cn, gone, sent, got, ncn, nsent>>

Init == /\ net = <<>> /\ netEnd = "open" /\ rwcClosed = FALSE
        /\ srMode = "raw" /\ srPending = FALSE /\ rd = "idle" /\ cp = "none"
        /\ pipe = <<>> /\ pipeEnd = FALSE /\ prClosed = FALSE /\ cn = "nil" /\ gone = FALSE
        /\ sent = <<>> /\ got = <<>> /\ ncn = 0 /\ nsent = 0

\* ---------- environment ----------
PeerSend(k) == /\ netEnd = "open" /\ nsent < MaxChunks
               /\ net' = Append(net, k) /\ sent' = Append(sent, k) /\ nsent' = nsent + 1
               /\ UNCHANGED <<netEnd, rwcClosed, srMode, srPending, rd, cp, pipe, pipeEnd, prClosed, cn, gone, got, ncn>>
PeerEnd(how) == /\ netEnd = "open" /\ netEnd' = how
                /\ UNCHANGED <<net, rwcClosed, srMode, srPending, rd, cp, pipe, pipeEnd, prClosed, cn, gone, sent, got, ncn, nsent>>
LocalClose == /\ ~rwcClosed /\ rwcClosed' = TRUE
              /\ UNCHANGED <<net, netEnd, srMode, srPending, rd, cp, pipe, pipeEnd, prClosed, cn, gone, sent, got, ncn, nsent>>
\* conn.closeNotify(): from a handler (rd = "handler"), from another goroutine, or after termination
CloseNotify ==
  /\ ncn < MaxCN /\ ncn' = ncn + 1
  /\ IF cn # "nil" THEN UNCHANGED <<cn, srPending>>
     ELSE IF Fixed /\ gone THEN cn' = "closed" /\ UNCHANGED srPending       \* already gone: a closed channel
     ELSE cn' = "open" /\ srPending' = TRUE
  /\ UNCHANGED <<net, netEnd, rwcClosed, srMode, rd, cp, pipe, pipeEnd, prClosed, gone, sent, got, nsent>>

\* ---------- reader (serve goroutine) ----------
RdEnter == /\ rd = "idle"
           /\ IF srPending
                THEN /\ srMode' = "pipe" /\ srPending' = FALSE /\ cp' = "inRaw" /\ rd' = "inPipe"
                ELSE /\ UNCHANGED <<srMode, srPending, cp>>
                     /\ rd' = IF srMode = "raw" THEN "inRaw" ELSE "inPipe"
           /\ UNCHANGED <<net, netEnd, rwcClosed, pipe, pipeEnd, prClosed, cn, gone, sent, got, ncn, nsent>>
\* chunk kinds: "m" a good message, "p" a good message whose handler panics, "x" undecodable bytes
Deliver(k) == IF k = "m" THEN rd' = "handler" /\ got' = Append(got, k)
              ELSE IF k = "p" THEN rd' = "handler_p" /\ got' = Append(got, k)
              ELSE rd' = "failing" /\ UNCHANGED got        \* read returned; the decode error comes next
\* the exit path of conn.serve, in two steps as in the code: the loop closes the transport when a
\* read fails (CloseRwc, part of the Rd*End / RdFail actions); the deferred function then closes it
\* again and runs finish() (RdFinish).  The copier can run to completion in between.
Exit == rd' = "closing" /\ rwcClosed' = TRUE /\ UNCHANGED <<prClosed, gone, cn>>
\* finish() itself is two steps as well: it closes the read end of the pipe (RdFinish), then calls
\* notifyClientGone (RdFinished) - a CloseNotify request can fall in between and still gets an open
\* channel, which RdFinished then closes.  The original code has no finish(): the loop just ends.
NotifyGone == gone' = TRUE /\ cn' = IF cn = "open" THEN "closed" ELSE cn
RdFinish == /\ rd = "closing"
            /\ IF Fixed THEN rd' = "finishing" /\ prClosed' = TRUE ELSE rd' = "exited" /\ UNCHANGED prClosed
            /\ UNCHANGED <<net, netEnd, rwcClosed, srMode, srPending, cp, pipe, pipeEnd, cn, gone, sent, got, ncn, nsent>>
RdFinished == /\ rd = "finishing" /\ rd' = "exited" /\ NotifyGone
              /\ UNCHANGED <<net, netEnd, rwcClosed, srMode, srPending, cp, pipe, pipeEnd, prClosed, sent, got, ncn, nsent>>
RdFail == /\ rd = "failing" /\ Exit
          /\ UNCHANGED <<net, netEnd, srMode, srPending, cp, pipe, pipeEnd, sent, got, ncn, nsent>>
RdRawData == /\ rd = "inRaw" /\ ~rwcClosed /\ net # <<>>
             /\ Deliver(Head(net)) /\ net' = Tail(net)
             /\ UNCHANGED <<netEnd, rwcClosed, srMode, srPending, cp, pipe, pipeEnd, prClosed, cn, gone, sent, ncn, nsent>>
RdRawEnd == /\ rd = "inRaw" /\ (rwcClosed \/ (net = <<>> /\ netEnd # "open")) /\ Exit
            /\ UNCHANGED <<net, netEnd, srMode, srPending, cp, pipe, pipeEnd, sent, got, ncn, nsent>>
RdPipeData == /\ rd = "inPipe" /\ pipe # <<>>
              /\ Deliver(Head(pipe)) /\ pipe' = <<>>
              /\ cp' = IF cp = "inWrite" THEN "inRaw" ELSE cp
              /\ UNCHANGED <<net, netEnd, rwcClosed, srMode, srPending, pipeEnd, prClosed, cn, gone, sent, ncn, nsent>>
RdPipeEnd == /\ rd = "inPipe" /\ pipe = <<>> /\ pipeEnd /\ Exit
             /\ UNCHANGED <<net, netEnd, srMode, srPending, cp, pipe, pipeEnd, sent, got, ncn, nsent>>
\* a handler panic is recovered by the deferred function of conn.serve, which closes the transport and
\* runs finish() like every other exit
HandlerPanic == /\ rd = "handler_p" /\ Exit
                /\ UNCHANGED <<net, netEnd, srMode, srPending, cp, pipe, pipeEnd, sent, got, ncn, nsent>>
HandlerReturn == /\ rd = "handler" /\ rd' = "idle"
                 /\ UNCHANGED <<net, netEnd, rwcClosed, srMode, srPending, cp, pipe, pipeEnd, prClosed, cn, gone, sent, got, ncn, nsent>>

\* ---------- copier goroutine (pipeCopyF: io.Copy(pw, raw); pw.CloseWithError; notifyClientGone) ----------
CpRead == /\ cp = "inRaw" /\ ~rwcClosed /\ net # <<>>
          /\ pipe' = <<Head(net)>> /\ net' = Tail(net) /\ cp' = "inWrite"
          /\ UNCHANGED <<netEnd, rwcClosed, srMode, srPending, rd, pipeEnd, prClosed, cn, gone, sent, got, ncn, nsent>>
\* io.Copy returned: pw.CloseWithError (the reader may now see the end of the pipe) ...
CpEnd == /\ cp = "inRaw" /\ (rwcClosed \/ (net = <<>> /\ netEnd # "open"))
         /\ cp' = "closing" /\ pipeEnd' = TRUE
         /\ UNCHANGED <<net, netEnd, rwcClosed, srMode, srPending, rd, pipe, prClosed, cn, gone, sent, got, ncn, nsent>>
\* a pipe write fails once the read end has been closed (Fixed): the copier finishes
CpWriteFails == /\ cp = "inWrite" /\ prClosed
                /\ cp' = "closing" /\ pipeEnd' = TRUE /\ pipe' = <<>>
                /\ UNCHANGED <<net, netEnd, rwcClosed, srMode, srPending, rd, prClosed, cn, gone, sent, got, ncn, nsent>>
\* ... and then notifyClientGone: the call (CpNotify) and its effect under the connection's lock
\* (CpNotified) are separate steps
CpNotify == /\ cp = "closing" /\ cp' = "notifying"
            /\ UNCHANGED <<net, netEnd, rwcClosed, srMode, srPending, rd, pipe, pipeEnd, prClosed, cn, gone, sent, got, ncn, nsent>>
CpNotified == /\ cp = "notifying" /\ cp' = "done" /\ NotifyGone
              /\ UNCHANGED <<net, netEnd, rwcClosed, srMode, srPending, rd, pipe, pipeEnd, prClosed, sent, got, ncn, nsent>>

LibNext == RdEnter \/ RdRawData \/ RdRawEnd \/ RdPipeData \/ RdPipeEnd \/ RdFail \/ RdFinish \/ RdFinished \/ HandlerReturn \/ HandlerPanic \/ CpRead \/ CpEnd \/ CpWriteFails \/ CpNotify \/ CpNotified
Next == \/ \E k \in {"m", "x", "p"} : PeerSend(k)
        \/ \E h \in {"eof", "err"} : PeerEnd(h)
        \/ LocalClose \/ CloseNotify \/ LibNext
Spec == Init /\ [][Next]_vars

\* ---------- CloseNotifyObs at design level ----------
Terminated == rd = "exited"
Quiescent  == ~ENABLED LibNext
OnlyAfter  == cn = "closed" => (rwcClosed \/ netEnd # "open")
NoLoss     == \E i \in 0..Len(sent) : got = SelectSeq(SubSeq(sent, 1, i), LAMBDA k : k \in {"m", "p"})
NoBadDelivered == \A i \in 1..Len(got) : got[i] \in {"m", "p"}
FiresWhenGone == (Terminated /\ Quiescent /\ cn # "nil") => cn = "closed"
NoLeak        == (Terminated /\ Quiescent) => cp \in {"none", "done"}
=============================================================================
