CONSTANTS MaxChunks = 12
  MaxCN = 12
  Fixed = TRUE
INIT TInit
NEXT TNext
CONSTRAINT HW
POSTCONDITION Post
CHECK_DEADLOCK FALSE
