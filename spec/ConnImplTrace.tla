---------------------------- MODULE ConnImplTrace ----------------------------
(***************************************************************************)
(* Conformance of recorded executions to the implementation-shaped model   *)
(* ConnImpl (C14): the merged log of what the test did to a connection     *)
(* (feed / end / lclose / cnreq, logged before the action) and of the      *)
(* library's internal events (verif hook, logged at the state change:      *)
(* sr.switch, cn.create, cp.end, cn.gone, serve.msg, serve.ret,            *)
(* serve.exit) must be a behaviour of ConnImpl.  Each logged event is one  *)
(* ConnImpl action (or a stutter with an assertion on the model state);    *)
(* steps the log does not show (entering Read without a switch, reading an *)
(* undecodable chunk, the copier moving a chunk, the loop closing the     *)
(* transport, the copier closing the pipe) are silent.  A trace is   *)
(* accepted when some interleaving of silent steps consumes every line;    *)
(* `hw` keeps the furthest line reached for diagnosis.                     *)
(***************************************************************************)
EXTENDS ConnImpl, Json
Trace == ndJsonDeserialize("trace.ndjson")
VARIABLE l
tvars == <<vars, l>>
Ev(name) == l <= Len(Trace) /\ Trace[l].ev = name /\ l' = l + 1
Stutter == UNCHANGED vars

TReset  == /\ Ev("reset")
           /\ net' = <<>> /\ netEnd' = "open" /\ rwcClosed' = FALSE /\ srMode' = "raw" /\ srPending' = FALSE /\ rd' = "idle"
           /\ cp' = "none" /\ pipe' = <<>> /\ pipeEnd' = FALSE /\ prClosed' = FALSE /\ cn' = "nil" /\ gone' = FALSE
           /\ sent' = <<>> /\ got' = <<>> /\ ncn' = 0 /\ nsent' = 0
TFeed   == Ev("feed") /\ PeerSend(Trace[l].k)
TEnd    == Ev("end") /\ PeerEnd(Trace[l].how)
TLClose == Ev("lclose") /\ (LocalClose \/ (rwcClosed /\ Stutter))
TCnReq  == Ev("cnreq") /\ CloseNotify
TCreate == Ev("cn.create") /\ cn # "nil" /\ (Trace[l].gone <=> gone) /\ Stutter
TSwitch == Ev("sr.switch") /\ srPending /\ RdEnter
TMsg    == Ev("serve.msg") /\ (RdRawData \/ RdPipeData) /\ rd' \in {"handler", "handler_p"}
TRet    == Ev("serve.ret") /\ HandlerReturn
TExit   == Ev("serve.exit") /\ RdFinish
TCpEnd  == Ev("cp.end") /\ CpNotify
\* cn.gone is logged under the connection's lock by the first notifyClientGone that finds the flag clear
TGone   == Ev("cn.gone") /\ ~gone /\ (CpNotified \/ RdFinished)
\* steps the log does not show
Silent  == /\ l <= Len(Trace) /\ UNCHANGED l
           /\ \/ (~srPending /\ RdEnter)
              \/ ((RdRawData \/ RdPipeData) /\ rd' = "failing")
              \/ RdRawEnd \/ RdPipeEnd \/ RdFail          \* the loop closes the transport; finish() comes later
              \/ HandlerPanic                             \* recovered: no serve.ret, the exit path follows
              \/ CpRead \/ CpEnd \/ CpWriteFails           \* pw.CloseWithError; the notification comes later
              \/ (gone /\ (CpNotified \/ RdFinished))       \* a notification that finds the flag set logs nothing
TNext == TReset \/ TFeed \/ TEnd \/ TLClose \/ TCnReq \/ TCreate \/ TSwitch \/ TMsg \/ TRet \/ TExit \/ TCpEnd \/ TGone \/ Silent
TInit == Init /\ l = 1 /\ TLCSet(1, 0)
\* accepted <=> a state with l = Len(Trace) + 1 is reachable, i.e. this "invariant" is violated
NotDone == l <= Len(Trace)
\* furthest line consumed (workers 1): printed when the search ends without reaching the end
HW == TLCSet(1, IF TLCGet(1) < l THEN l ELSE TLCGet(1))
Post == PrintT(<<"HIGHWATER", TLCGet(1)>>)
=============================================================================
