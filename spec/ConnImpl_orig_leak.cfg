CONSTANTS MaxChunks = 3
  MaxCN = 2
  Fixed = FALSE
INIT Init
NEXT Next
INVARIANTS OnlyAfter NoLoss NoLeak
CHECK_DEADLOCK FALSE
