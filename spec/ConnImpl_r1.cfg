CONSTANTS MaxChunks = 3
  MaxCN = 2
  Fixed = TRUE
INIT Init
NEXT Next
INVARIANTS OnlyAfter NoLoss NoBadDelivered FiresWhenGone NoLeak
CHECK_DEADLOCK FALSE
