------------------------------- MODULE ConnObs -------------------------------
(***************************************************************************)
(* CloseNotifyObs (C14) over harness-level schedules.  A schedule is a     *)
(* sequence of events the test performs, waiting for quiescence after each:*)
(*   "m"   deliver one whole good message                                  *)
(*   "mh"  a good message whose handler requests CloseNotify               *)
(*   "mm"  two good messages in one fragment, the first handler requests   *)
(*         CloseNotify (later bytes are already buffered)                  *)
(*   "m1" / "m2"  first / second half of a good message                    *)
(*   "cn"  CloseNotify requested from another goroutine (the reader is     *)
(*         blocked, or the connection has already terminated)              *)
(*   terminators: "x" undecodable message, "xt" undecodable message with   *)
(*         trailing data in a separate fragment, "xbig" undecodable        *)
(*         message followed in the SAME fragment by more trailing bytes    *)
(*         than the read buffer holds, "eof" peer close, "rerr"            *)
(*         transport read error, "lclose" local Close, "mp" a good message *)
(*         whose handler panics, "mhp" a good message whose handler        *)
(*         requests CloseNotify and then panics, "heof" the peer closes    *)
(*         while the handler of a good message is still running (the step  *)
(*         is recorded after the handler was released; `held` is the state *)
(*         of the channels while it was still running: they must have      *)
(*         fired by then if the reader had switched to the pipe)           *)
(* After each step the harness records the state of every channel obtained *)
(* so far and the number of messages handed to handlers; at the end the    *)
(* number of library goroutines left over.                                 *)
(***************************************************************************)
EXTENDS Integers, Sequences, TLC

\* "eofd": one more good message arrives in the same read as the peer's close
\* "idle": (server with ReadTimeout) nothing arrives for longer than the timeout; the library gives the
\* connection up: the transport must be closed by the end of the step, and the channels with it
\* "mw": a good message whose handler answers it, the transport refusing the first write attempt with a temporary
\* error (the retry succeeds): the connection is as alive as before
\* "heofd": as "heof", with one more good message in the same fragment behind the one whose handler is running:
\* it was received before the peer closed and is delivered once the handler returns
\* "lclosew": local Close while another goroutine is blocked in a Write the transport does not accept
Terminators == {"x", "xt", "xbig", "eof", "eofd", "rerr", "lclose", "lclosew", "mp", "mhp", "heof", "heofd", "idle"}
Requests(ev) == IF ev \in {"mh", "mm", "cn", "mhp"} THEN 1 ELSE 0
Delivers(ev) == CASE ev \in {"m", "mh", "mw", "m2", "mp", "mhp", "heof", "eofd"} -> 1 [] ev \in {"mm", "heofd"} -> 2 [] OTHER -> 0

\* has the reader switched to the pipe (is the copier running) when message k is read?  A request made
\* by a handler takes effect at the next read; one made from another goroutine while the reader is
\* parked takes effect at the read after the one in progress, i.e. once something was read in between.
ReadsSomething(ev) == ev \in {"m", "mh", "mw", "mm", "m1", "m2"}
Switched(sched, k) == \E i \in 1..(k - 1) :
                         \/ sched[i] \in {"mh", "mm"}
                         \/ sched[i] = "cn" /\ \E j \in (i + 1)..(k - 1) : ReadsSomething(sched[j])
RECURSIVE Check(_, _, _, _, _, _)
Check(sched, steps, k, nreq, ndel, term) ==
  IF k > Len(sched) THEN <<>>
  ELSE LET ev == sched[k]
           nreq2 == nreq + Requests(ev)
           ndel2 == IF term THEN ndel ELSE ndel + Delivers(ev)
           term2 == term \/ ev \in Terminators
           o == steps[k]
       IN IF o.panic THEN <<"panic">>
          ELSE IF o.hung THEN <<IF ev = "lclosew" THEN "close-did-not-return" ELSE "closenotify-call-did-not-return">>
          ELSE IF ev = "idle" /\ ~o.tclosed THEN <<"not-terminated-after-read-timeout">>
          ELSE IF ev \in {"heof", "heofd"} /\ Switched(sched, k) /\ (\E i \in 1..Len(o.held) : ~o.held[i]) THEN <<"not-closed-while-handler-runs">>
          ELSE IF Len(o.chans) # nreq2 THEN <<"harness-channel-count">>
          ELSE IF ~term2 /\ (\E i \in 1..Len(o.chans) : o.chans[i]) THEN <<"closed-before-termination">>
          ELSE IF term2 /\ (\E i \in 1..Len(o.chans) : ~o.chans[i]) THEN
                  <<IF term /\ ev = "cn" /\ (\A i \in 1..(Len(o.chans) - 1) : o.chans[i]) THEN "not-closed-when-requested-after-termination"
                    ELSE "not-closed-after-termination">>
          ELSE IF o.delivered # ndel2 THEN <<IF o.delivered < ndel2 THEN "message-lost" ELSE "message-duplicated-or-bad-delivered">>
          ELSE Check(sched, steps, k + 1, nreq2, ndel2, term2)

Reasons(e) ==
  LET r == Check(e.sched, e.steps, 1, 0, 0, FALSE) IN
  IF r # <<>> THEN r
  ELSE IF ~e.inorder THEN <<"reordered">>
  ELSE IF e.goroutines > 0 THEN <<"goroutine-left">>
  ELSE <<>>
=============================================================================
