----------------------------- MODULE CorruptGen -----------------------------
(***************************************************************************)
(* R2 for C03: model-guided structured corruption.  Base messages are      *)
(* reference encodings (Wire!Enc) of small abstract messages including     *)
(* nested groups; the specification knows where every length field and     *)
(* flag byte is, and produces every single mutation (MaxMut = 1) or pair   *)
(* (MaxMut = 2) from:                                                      *)
(*   set length field i (message, each AVP at each depth) to each boundary *)
(*   value; truncate at every offset; flip each flag bit.                  *)
(* A state = base number + applied mutations; Mutate = one transition.     *)
(***************************************************************************)
EXTENDS Wire, VDict, Json
CONSTANTS MaxMut
VARIABLES base, muts, bytes
vars == <<base, muts, bytes>>
C4(n) == Enc32(n)
V0 == NoVendor
VV == C4(VVendor)
Leaf(code, flags, vendor, kind, sem) == [code |-> C4(code), flags |-> flags, vendor |-> vendor, kind |-> kind, sem |-> sem, kids |-> <<>>]
Group(code, flags, vendor, kids) == [code |-> C4(code), flags |-> flags, vendor |-> vendor, kind |-> "grouped", sem |-> <<>>, kids |-> kids]
L1 == Leaf(VCode("octets"), MFlag, V0, "octets", <<1, 2, 3>>)
L2 == Leaf(VCode("u32"), MFlag, V0, "u32", <<0, 7>>)
L3 == Leaf(VVCode("addr"), VFlag + MFlag, VV, "addr", <<1, 10, 0, 0, 1>>)
L4 == Leaf(VCode("time"), MFlag, V0, "time", <<0, 0, 31829, 33152>>)
L5 == Leaf(VVCode("u64"), VFlag, VV, "u64", <<1, 2, 3, 4>>)
U1 == [code |-> C4(7777), flags |-> VFlag, vendor |-> C4(4242), kind |-> "unknown", sem |-> <<9, 8, 7>>, kids |-> <<>>]
H == [version |-> 1, flags |-> 128, cmd |-> Enc24(VCmd), app |-> C4(VApp), hbh |-> <<1, 2, 3, 4>>, e2e |-> <<5, 6, 7, 8>>]
Bases == << [hdr |-> H, avps |-> <<L2, L1>>],
            [hdr |-> H, avps |-> <<Group(VCode("grouped"), MFlag, V0, <<L1, Group(VGroup2, MFlag, V0, <<Group(VVCode("grouped"), VFlag + MFlag, VV, <<L4, U1>>)>>)>>)>>],
            [hdr |-> H, avps |-> <<L3, L4, L5>>],
            [hdr |-> H, avps |-> <<>>],
            [hdr |-> H, avps |-> <<U1, Group(VCode("grouped"), MFlag, V0, <<>>), L2>>] >>

\* offsets (1-based, in the whole message) of every AVP header, at every depth
RECURSIVE AVPOffsets(_, _)
AVPOffsets(as, start) ==
  IF as = <<>> THEN {}
  ELSE LET a == as[1]  inner == IF a.kind = "grouped" THEN AVPOffsets(a.kids, start + HdrLen(a.flags)) ELSE {}
       IN {start} \cup inner \cup AVPOffsets(Tail(as), start + SizeAVP(a))
Offsets(m) == AVPOffsets(m.avps, MsgHdrLen + 1)
\* length fields: message (offset 2) and each AVP (offset + 5); flag bytes: message 5, AVP offset + 4
LenFields(m) == {2} \cup {o + 5 : o \in Offsets(m)}
FlagBytes(m) == {5} \cup {o + 4 : o \in Offsets(m)}
SetAt(b, off, vals) == [i \in 1..Len(b) |-> IF i >= off /\ i < off + Len(vals) THEN vals[i - off + 1] ELSE b[i]]
Cur24(b, off) == U24(b, off)
Boundaries(b, off) == {0, 1, 7, 8, 9, 11, 12, 13, 19, 20, 16777215} \cup
                      {x \in {Cur24(b, off) - 1, Cur24(b, off) + 1, Cur24(b, off) + 4, Len(b) - off, Len(b) + 1} : x >= 0 /\ x <= 16777215}
Bit(k) == 2 ^ k
FlipBit(v, k) == IF (v \div Bit(k)) % 2 = 1 THEN v - Bit(k) ELSE v + Bit(k)

Init == base \in 1..Len(Bases) /\ muts = <<>> /\ bytes = Enc(Bases[base])
Mutate == /\ Len(muts) < MaxMut /\ Len(bytes) >= 8
          /\ \/ \E off \in LenFields(Bases[base]) : off + 2 <= Len(bytes) /\ \E v \in Boundaries(bytes, off) :
                  /\ bytes' = SetAt(bytes, off, Enc24(v)) /\ muts' = Append(muts, <<"len", off, v>>)
             \/ \E off \in FlagBytes(Bases[base]) : off <= Len(bytes) /\ \E k \in 0..7 :
                  /\ bytes' = SetAt(bytes, off, <<FlipBit(bytes[off], k)>>) /\ muts' = Append(muts, <<"flag", off, k>>)
          /\ UNCHANGED base
Truncate == /\ Len(muts) < MaxMut /\ (IF muts = <<>> THEN TRUE ELSE muts[Len(muts)][1] # "cut")
            /\ \E n \in 0..(Len(bytes) - 1) : bytes' = SubSeq(bytes, 1, n) /\ muts' = Append(muts, <<"cut", n, 0>>)
            /\ UNCHANGED base
Next == Mutate \/ Truncate
\* R1: the length fields the generator mutates are really length fields of the reference encoding
OffsetsSound == muts # <<>> \/ (\A o \in Offsets(Bases[base]) : o + 7 <= Len(bytes) /\ U24(bytes, o + 5) >= 8)
Emit == muts = <<>> \/ PrintT(ToJson([bytes |-> bytes, recipe |-> ToString(<<base, muts>>)]))
=============================================================================
