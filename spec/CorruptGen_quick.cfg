CONSTANT MaxMut = 1
INIT Init
NEXT Next
INVARIANTS OffsetsSound Emit
CHECK_DEADLOCK FALSE
