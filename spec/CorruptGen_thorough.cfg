CONSTANT MaxMut = 2
INIT Init
NEXT Next
INVARIANTS OffsetsSound Emit
CHECK_DEADLOCK FALSE
