-------------------------------- MODULE Dict --------------------------------
(***************************************************************************)
(* Dictionary resolution (C17), from the property statement.               *)
(* A dictionary state is the SEQUENCE of definitions loaded so far, in     *)
(* load order: AVP defs [app, code, name, vendor, kind], command defs      *)
(* [app, code, short], application defs [id, type].                        *)
(*                                                                         *)
(* ResolveAVP(defs, app, key, vendor): the definition for the application, *)
(* otherwise for its parent applications, otherwise for base (0); at each  *)
(* level the exact vendor id, or any vendor when the query uses the        *)
(* wildcard; the most recently loaded definition wins.  An undefined       *)
(* numeric code yields the opaque placeholder, an undefined name nothing.  *)
(***************************************************************************)
EXTENDS Integers, Sequences, FiniteSets, TLC

Wild == -1        \* the any-vendor wildcard of a query (dict.UndefinedVendorID)
\* the library's application hierarchy: S6a and Gx refine Credit-Control (4), which refines NAS (1)
ParentOf(a) == CASE a = 16777251 -> 4 [] a = 16777238 -> 4 [] a = 4 -> 1 [] OTHER -> 0
RECURSIVE Chain(_)
Chain(a) == IF a = 0 THEN <<0>> ELSE <<a>> \o Chain(ParentOf(a))

KeyMatches(d, key) == IF key.byname THEN d.name = key.name ELSE d.code = key.code
VendorMatches(d, v) == v = Wild \/ d.vendor = v
\* index of the last matching definition at level a, 0 if none
LastAt(defs, a, key, v) ==
  LET S == {i \in 1..Len(defs) : defs[i].app = a /\ KeyMatches(defs[i], key) /\ VendorMatches(defs[i], v)}
  IN IF S = {} THEN 0 ELSE CHOOSE i \in S : \A j \in S : j <= i
RECURSIVE AlongChain(_, _, _, _)
AlongChain(defs, chain, key, v) ==
  IF chain = <<>> THEN 0
  ELSE LET i == LastAt(defs, Head(chain), key, v) IN IF i # 0 THEN i ELSE AlongChain(defs, Tail(chain), key, v)
NotFound == [found |-> FALSE, placeholder |-> FALSE, app |-> 0, code |-> 0, name |-> "", vendor |-> 0, kind |-> ""]
ResolveAVP(defs, app, key, v) ==
  LET i == AlongChain(defs, Chain(app), key, v) IN
  IF i # 0 THEN [found |-> TRUE, placeholder |-> FALSE, app |-> defs[i].app, code |-> defs[i].code, name |-> defs[i].name,
                 vendor |-> defs[i].vendor, kind |-> defs[i].kind]
  ELSE IF ~key.byname THEN [NotFound EXCEPT !.placeholder = TRUE, !.code = key.code, !.kind = "Unknown"]
  ELSE NotFound

\* commands: the application's own, otherwise base
ResolveCmd(cmds, app, code) ==
  LET own  == {i \in 1..Len(cmds) : cmds[i].app = app /\ cmds[i].code = code}
      base == {i \in 1..Len(cmds) : cmds[i].app = 0 /\ cmds[i].code = code}
      pick(S) == cmds[CHOOSE i \in S : \A j \in S : j <= i].short
  IN IF own # {} THEN pick(own) ELSE IF base # {} THEN pick(base) ELSE ""

\* applications: by (id, type) when a type is asked for, else by id; an untyped application matches any type
SupportsApp(apps, id, typ) ==
  LET byid == {i \in 1..Len(apps) : apps[i].id = id} IN
  IF typ = "" THEN byid # {}
  ELSE \/ \E i \in byid : apps[i].type = typ
       \/ (byid # {} /\ LET last == apps[CHOOSE i \in byid : \A j \in byid : j <= i] IN last.type = "")
=============================================================================
