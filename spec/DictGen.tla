------------------------------- MODULE DictGen -------------------------------
(***************************************************************************)
(* R1/R2 for C17: dictionary files loaded one after another (Load = one    *)
(* transition), every sequence of up to MaxFiles distinct files from a     *)
(* pool with redefinitions across applications, vendors and base.  R1:     *)
(* loading a further file never makes a resolvable (application, key,      *)
(* vendor) unresolvable (Monotone, an action property).                    *)
(***************************************************************************)
EXTENDS Dict, Json, SequencesExt
CONSTANT MaxFiles
VARIABLE loaded          \* sequence of file numbers
A(app, code, name, vendor, kind) == [app |-> app, code |-> code, name |-> name, vendor |-> vendor, kind |-> kind]
C(app, code, short) == [app |-> app, code |-> code, short |-> short]
P(id, type) == [id |-> id, type |-> type]
Files == <<
  [apps |-> <<P(0, "")>>, avps |-> <<A(0, 5001, "X-A", 0, "Unsigned32"), A(0, 5002, "X-B", 10, "OctetString")>>, cmds |-> <<C(0, 600, "XA")>>],
  [apps |-> <<P(4, "auth")>>, avps |-> <<A(4, 5001, "X-A", 0, "UTF8String"), A(4, 5002, "X-B", 20, "Unsigned32")>>, cmds |-> <<C(4, 600, "XZ")>>],
  [apps |-> <<P(16777251, "auth")>>, avps |-> <<A(16777251, 5001, "X-C", 10, "Time")>>, cmds |-> <<C(16777251, 601, "XB")>>],
  [apps |-> <<P(0, ""), P(77, "acct")>>, avps |-> <<A(0, 5001, "X-A", 0, "OctetString"), A(77, 5002, "X-B", 0, "Address")>>, cmds |-> <<>>],
  [apps |-> <<P(4, "acct"), P(1, "auth")>>, avps |-> <<A(4, 5003, "X-D", 0, "Unsigned32"), A(1, 5002, "X-B", 10, "Float32")>>, cmds |-> <<C(1, 602, "XC")>>],
  \* a corrected vendor dictionary: the vendor-specific X-B of base redefined (same application, code, name and
  \* vendor, another type), and the same code under a second vendor
  [apps |-> <<P(0, "")>>, avps |-> <<A(0, 5002, "X-B", 10, "Unsigned64"), A(0, 5002, "X-E", 20, "Integer32")>>, cmds |-> <<>>],
  \* application 1 alone (its child 4 may not be loaded: S6a -> 4 -> 1 must still reach it); it gives code 5001, which base
  \* defines without a vendor, to a vendor-specific AVP of its own: a lookup for any vendor stops at the nearest application
  [apps |-> <<P(1, "auth")>>, avps |-> <<A(1, 5004, "X-D", 0, "Unsigned32"), A(1, 5001, "X-V", 30, "Unsigned64")>>, cmds |-> <<>>],
  \* a renaming dictionary: base code 5001 / vendor 0 (X-A) and application 4's code 5002 / vendor 20 (X-B) under
  \* new names: the code now resolves to the new definition, the old names keep resolving
  [apps |-> <<P(0, ""), P(4, "auth")>>, avps |-> <<A(0, 5001, "X-R", 0, "Unsigned32"), A(4, 5002, "X-S", 20, "Unsigned32")>>, cmds |-> <<>>],
  \* a "messages" file: an application and its command, no AVP at all (the vendor's AVPs come in another file)
  [apps |-> <<P(77, "acct")>>, avps |-> <<>>, cmds |-> <<C(77, 602, "XM")>>] >>
Defs(ld) == FlattenSeq([i \in 1..Len(ld) |-> Files[ld[i]].avps])
Cmds(ld) == FlattenSeq([i \in 1..Len(ld) |-> Files[ld[i]].cmds])
Apps(ld) == FlattenSeq([i \in 1..Len(ld) |-> Files[ld[i]].apps])

Init == loaded = <<>>
Load(n) == /\ Len(loaded) < MaxFiles /\ \A i \in 1..Len(loaded) : loaded[i] # n
           /\ loaded' = Append(loaded, n)
Next == \E n \in 1..Len(Files) : Load(n)

QApps == {0, 1, 4, 16777251, 77, 99}
QKeys == {[byname |-> FALSE, code |-> c, name |-> ""] : c \in {5001, 5002, 5003, 5004}}
         \cup {[byname |-> TRUE, code |-> 0, name |-> n] : n \in {"X-A", "X-B", "X-C", "X-D", "X-Z"}}
QVendors == {0, 10, 20, 30, Wild}
Resolvable(ld) == {<<a, k, v>> \in QApps \X QKeys \X QVendors : ResolveAVP(Defs(ld), a, k, v).found}
Monotone == [][Resolvable(loaded) \subseteq Resolvable(loaded')]_loaded
CmdMonotone == [][\A a \in QApps, c \in {600, 601, 602} : ResolveCmd(Cmds(loaded), a, c) # "" => ResolveCmd(Cmds(loaded'), a, c) # ""]_loaded
Emit == loaded = <<>> \/ PrintT(ToJson([loaded |-> loaded, files |-> [i \in 1..Len(loaded) |-> Files[loaded[i]]]]))
=============================================================================
