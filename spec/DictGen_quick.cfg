CONSTANT MaxFiles = 3
INIT Init
NEXT Next
INVARIANT Emit
PROPERTIES Monotone CmdMonotone
CHECK_DEADLOCK FALSE
