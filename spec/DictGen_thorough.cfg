CONSTANT MaxFiles = 4
INIT Init
NEXT Next
INVARIANT Emit
PROPERTIES Monotone CmdMonotone
CHECK_DEADLOCK FALSE
