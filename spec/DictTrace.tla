------------------------------ MODULE DictTrace ------------------------------
(***************************************************************************)
(* R3 for C17.                                                             *)
(*  "dict"   results of every lookup after each Load of a generated file   *)
(*           sequence, against Dict!ResolveAVP / ResolveCmd / SupportsApp, *)
(*           and monotone across the loads                                 *)
(*  "lookup" one lookup in the embedded dictionaries; cands = the          *)
(*           definitions with the same code or name, in load order (the    *)
(*           harness's own XML reading)                                    *)
(*  "const"  an exported Go constant against the dictionary codes          *)
(*  "type"   a type name the loader accepts can be encoded and decoded     *)
(***************************************************************************)
EXTENDS Dict, Json, SequencesExt
Trace == ndJsonDeserialize("trace.ndjson")
VARIABLE l
Init == l = 1

Prefix(files, k, f(_)) == FlattenSeq([i \in 1..k |-> f(files[i])])
AvpsOf(f) == f.avps
CmdsOf(f) == f.cmds
AppsOf(f) == f.apps
StepReasons(e, k) ==
  LET defs == Prefix(e.files, k, AvpsOf)  cmds == Prefix(e.files, k, CmdsOf)  apps == Prefix(e.files, k, AppsOf)  st == e.steps[k] IN
     (IF \E i \in 1..Len(st.avp) : st.avp[i].res # ResolveAVP(defs, st.avp[i].app, st.avp[i].key, st.avp[i].vendor) THEN <<"avp-lookup">> ELSE <<>>)
  \o (IF \E i \in 1..Len(st.cmd) : st.cmd[i].short # ResolveCmd(cmds, st.cmd[i].app, st.cmd[i].code) THEN <<"command-lookup">> ELSE <<>>)
  \o (IF \E i \in 1..Len(st.apps) : st.apps[i].ok # SupportsApp(apps, st.apps[i].id, st.apps[i].typ) THEN <<"application-lookup">> ELSE <<>>)
  \o (IF k > 1 /\ \E i \in 1..Len(st.avp) : e.steps[k - 1].avp[i].res.found /\ ~st.avp[i].res.found THEN <<"load-hid-avp">> ELSE <<>>)
  \o (IF k > 1 /\ \E i \in 1..Len(st.cmd) : e.steps[k - 1].cmd[i].short # "" /\ st.cmd[i].short = "" THEN <<"load-hid-command">> ELSE <<>>)
  \o (IF k > 1 /\ \E i \in 1..Len(st.apps) : e.steps[k - 1].apps[i].ok /\ ~st.apps[i].ok THEN <<"load-hid-application">> ELSE <<>>)
Reasons(e) ==
  CASE e.ev = "dict" -> IF ~e.loaded_ok THEN <<"load-failed">> ELSE FlattenSeq([k \in 1..Len(e.steps) |-> StepReasons(e, k)])
    [] e.ev = "lookup" -> IF e.res # ResolveAVP(e.cands, e.app, e.key, e.vendor) THEN <<"embedded-avp-lookup">> ELSE <<>>
    [] e.ev = "cmdlookup" -> IF e.short # ResolveCmd(e.cands, e.app, e.code) THEN <<"embedded-command-lookup">> ELSE <<>>
    [] e.ev = "const" -> IF e.value \in {e.dict[i] : i \in 1..Len(e.dict)} THEN <<>> ELSE <<"constant-differs">>
    [] e.ev = "type" -> IF e.loads => (e.enc /\ e.dec) THEN <<>> ELSE <<"type-not-codable">>
    \* an AVP of an undefined code is carried as an opaque placeholder (decoding proceeds, the bytes come back)
    [] e.ev = "undef" -> IF e.ok THEN <<>> ELSE <<"undefined-code-not-carried">>
Next == /\ l <= Len(Trace)
        /\ l' = l + 1
        /\ LET r == Reasons(Trace[l]) IN r = <<>> \/ PrintT(<<"BADLINE", l, r>>)
=============================================================================
