------------------------------- MODULE ErrRep -------------------------------
(***************************************************************************)
(* The error-report channel of a ServeMux, implementation-shaped           *)
(* (diam/server.go): NewServeMux makes `e` with capacity Cap = 1;          *)
(* ServeMux.Error offers a report with `select { case e <- r: default: }`  *)
(* and therefore never waits; serveIdx calls it when neither the index,    *)
(* nor the name, nor the catch-all has a handler; sm.StateMachine.Error    *)
(* forwards to it.  The application reads ErrorReports() whenever it       *)
(* likes - or never.                                                       *)
(*                                                                         *)
(* Operations (one history = one mux):                                     *)
(*   "U"  dispatch of a message no handler matches  (offers a report)      *)
(*   "M"  dispatch of a message with a handler      (offers nothing)       *)
(*   "E"  a direct Error() call (what diam/sm does) (offers a report)      *)
(*   "D"  one non-blocking receive on ErrorReports()                       *)
(* Reports are numbered in the order they are offered (the harness puts    *)
(* the number in the message's hop-by-hop id).  Result of an operation:    *)
(* U / E -> 0 (returned), M -> 1 (handler fired once), D -> report number  *)
(* received or 0 when the channel was empty.                               *)
(* Blocking = TRUE is the sensitivity variant `e <- r` without `default`.  *)
(***************************************************************************)
EXTENDS Naturals, Sequences, Json, TLC
CONSTANTS Cap, MaxOps, Blocking
VARIABLES q,      \* the channel buffer: sequence of report numbers
          n,      \* reports offered so far
          ops,    \* history of operations
          res,    \* their results
          lost    \* report numbers dropped
vars == <<q, n, ops, res, lost>>

Init == q = <<>> /\ n = 0 /\ ops = <<>> /\ res = <<>> /\ lost = {}

\* the abstract step function, shared with ErrRepTrace
Offer(qq, k) == IF Len(qq) < Cap THEN Append(qq, k) ELSE qq
StepQ(qq, nn, op) == CASE op \in {"U", "E"} -> Offer(qq, nn + 1)
                       [] op = "D" -> IF qq = <<>> THEN qq ELSE Tail(qq)
                       [] OTHER -> qq
StepN(nn, op) == IF op \in {"U", "E"} THEN nn + 1 ELSE nn
StepR(qq, op) == CASE op = "D" -> IF qq = <<>> THEN 0 ELSE Head(qq)
                   [] op = "M" -> 1
                   [] OTHER -> 0

CanOffer == ~Blocking \/ Len(q) < Cap
Do(op) == /\ Len(ops) < MaxOps
          /\ (op \in {"U", "E"} => CanOffer)
          /\ q' = StepQ(q, n, op) /\ n' = StepN(n, op)
          /\ ops' = Append(ops, op) /\ res' = Append(res, StepR(q, op))
          /\ lost' = IF op \in {"U", "E"} /\ Len(q) >= Cap THEN lost \cup {n + 1} ELSE lost
Next == \E op \in {"U", "M", "E", "D"} : Do(op)
Spec == Init /\ [][Next]_vars

\* ---- properties (R1)
Bounded == Len(q) <= Cap
\* a dispatch or an Error() call can always complete, reader or no reader
NeverWaits == Len(ops) < MaxOps => (ENABLED Do("U") /\ ENABLED Do("E"))
\* what is received was offered, in the order offered, each at most once
Received == [i \in 1..Len(ops) |-> IF ops[i] = "D" THEN res[i] ELSE 0]
InOrder == \A i, j \in 1..Len(ops) : (i < j /\ Received[i] # 0 /\ Received[j] # 0) => Received[i] < Received[j]
\* a report is lost only when the buffer was full when it was offered; nothing vanishes otherwise
Accounted == \A k \in 1..n : \/ k \in lost
                             \/ \E i \in 1..Len(q) : q[i] = k
                             \/ \E i \in 1..Len(ops) : Received[i] = k
\* with an empty buffer the next report is delivered: after a successful or empty receive that leaves the buffer empty,
\* an offer followed by a receive yields that very report
FreshDelivered == \A i \in 1..Len(ops) : (i >= 3 /\ ops[i] = "D" /\ ops[i-1] \in {"U", "E"} /\ ops[i-2] = "D" /\ Cap = 1) => res[i] # 0

Emit == Len(ops) < 1 \/ PrintT(ToJson([ops |-> ops]))
=============================================================================
