CONSTANTS
  Cap = 1
  MaxOps = 100
  Blocking = FALSE
INIT TInit
NEXT TNext
CHECK_DEADLOCK FALSE
