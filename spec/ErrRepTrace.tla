---------------------------- MODULE ErrRepTrace ----------------------------
(* R3 for the error-report channel: the results a real ServeMux gave for a history of operations,      *)
(* against ErrRep's step function (capacity 1, offers never wait, first offer wins, FIFO).             *)
EXTENDS ErrRep
Trace == ndJsonDeserialize("trace.ndjson")
VARIABLE l
RECURSIVE Run(_, _, _, _, _)
\* index of the first operation whose result differs from the model's (0: none)
Run(o, r, i, qq, nn) == IF i > Len(o) THEN 0
                        ELSE IF r[i] # StepR(qq, o[i]) THEN i
                        ELSE Run(o, r, i + 1, StepQ(qq, nn, o[i]), StepN(nn, o[i]))
TInit == l = 1 /\ q = <<>> /\ n = 0 /\ ops = <<>> /\ res = <<>> /\ lost = {}
TNext == /\ l <= Len(Trace)
         /\ l' = l + 1
         /\ UNCHANGED vars
         /\ LET e == Trace[l] IN
            \/ (Len(e.res) = Len(e.ops) /\ e.stuck = 0 /\ Run(e.ops, e.res, 1, <<>>, 0) = 0)
            \/ PrintT(<<"BADLINE", l, IF e.stuck # 0 THEN <<"stuck">> ELSE <<"result">>>>)
=============================================================================
