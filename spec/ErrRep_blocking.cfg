CONSTANTS
  Cap = 1
  MaxOps = 4
  Blocking = TRUE
INIT Init
NEXT Next
INVARIANTS NeverWaits
CHECK_DEADLOCK FALSE
