CONSTANTS
  Cap = 2
  MaxOps = 5
  Blocking = FALSE
INIT Init
NEXT Next
INVARIANTS Bounded NeverWaits InOrder Accounted
CHECK_DEADLOCK FALSE
