CONSTANTS
  Cap = 1
  MaxOps = 6
  Blocking = FALSE
INIT Init
NEXT Next
INVARIANTS Bounded NeverWaits InOrder Accounted FreshDelivered Emit
CHECK_DEADLOCK FALSE
