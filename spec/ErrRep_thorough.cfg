CONSTANTS
  Cap = 1
  MaxOps = 7
  Blocking = FALSE
INIT Init
NEXT Next
INVARIANTS Bounded NeverWaits InOrder Accounted FreshDelivered Emit
CHECK_DEADLOCK FALSE
