------------------------------ MODULE FrameGen ------------------------------
(***************************************************************************)
(* R2 for C04: bodies assembled from arbitrary (code, flags, vendor,       *)
(* declared length, payload) records.  In particular every fixed-width     *)
(* type carrying a payload of every length 0..20 whose bytes themselves    *)
(* look like AVP headers (the smuggling shape), Address payloads of every  *)
(* family class and length, each followed by a second AVP, at nesting      *)
(* depth 0..2; declared lengths below the AVP header size or beyond the    *)
(* container.  One state = one body; R1 checks Frame against the intended  *)
(* record list on every state.                                             *)
(***************************************************************************)
EXTENDS Wire, VDict, Json
CONSTANT MaxLen     \* payload lengths 0..MaxLen
VARIABLE c          \* [body, want (record list or "bad"), note]
vars == <<c>>

C4(n) == Enc32(n)
V0 == NoVendor
VV == C4(VVendor)

\* raw AVP: the declared length is whatever the case says
Raw(code, flags, vendor, declared, payload) ==
  C4(code) \o <<flags>> \o Enc24(declared) \o (IF HasV(flags) THEN vendor ELSE <<>>) \o payload
Padded(b) == b \o Zeros(PadLen(Len(b)))
Honest(code, flags, vendor, payload) ==
  Padded(Raw(code, flags, vendor, HdrLen(flags) + Len(payload), payload))
Rec(code, flags, vendor, payload, kids) ==
  [code |-> C4(code), flags |-> flags, vendor |-> IF HasV(flags) THEN vendor ELSE V0,
   len |-> HdrLen(flags) + Len(payload), payload |-> payload, kids |-> kids]

\* bytes that parse as two valid AVPs: Unsigned32(7) then OctetString(1,2,3)
Smuggle == Honest(VCode("u32"), MFlag, V0, <<0, 0, 0, 7>>) \o Honest(VCode("octets"), MFlag, V0, <<1, 2, 3>>)
Prefix(s, n) == SubSeq(s, 1, n)
FixedKinds == {"u32", "i32", "enum", "f32", "u64", "i64", "f64", "time", "ipv4", "ipv6"}
PayloadFor(k, n) == Prefix(Zeros(Width(k)) \o Smuggle \o Smuggle, n)
AddrFams == {0, 1, 2, 8, 65535, 258}
AddrPayload(f, n) == Prefix(Enc16(f) \o Smuggle \o Smuggle, n)

FollowerB == Honest(VCode("utf8"), 0, V0, <<97, 98>>)
FollowerR == Rec(VCode("utf8"), 0, V0, <<97, 98>>, <<>>)

\* a unit = one AVP under test (bytes + its record), placed before a follower
Units ==
  {[b |-> Honest(VCode(k), MFlag, V0, PayloadFor(k, n)), r |-> Rec(VCode(k), MFlag, V0, PayloadFor(k, n), <<>>),
    note |-> ToString(<<k, n>>)] : k \in FixedKinds, n \in 0..MaxLen}
  \cup {[b |-> Honest(VVCode(k), MFlag + VFlag, VV, PayloadFor(k, n)), r |-> Rec(VVCode(k), MFlag + VFlag, VV, PayloadFor(k, n), <<>>),
    note |-> ToString(<<"vendor", k, n>>)] : k \in {"u32", "u64", "time"}, n \in 0..MaxLen}
  \cup {[b |-> Honest(VCode("addr"), MFlag, V0, AddrPayload(f, n)), r |-> Rec(VCode("addr"), MFlag, V0, AddrPayload(f, n), <<>>),
    note |-> ToString(<<"addr", f, n>>)] : f \in AddrFams, n \in 0..MaxLen}
  \cup {[b |-> Honest(7777, 0, V0, PayloadFor("u32", n)), r |-> Rec(7777, 0, V0, PayloadFor("u32", n), <<>>),
    note |-> ToString(<<"unknown", n>>)] : n \in 0..MaxLen}
  \* the code of a vendor-specific GROUPED definition sent without the V flag: another, undefined AVP,
  \* whose payload is opaque (it must not be read as members)
  \cup {[b |-> Honest(VVCode("grouped"), 0, V0, PayloadFor("u32", n)), r |-> Rec(VVCode("grouped"), 0, V0, PayloadFor("u32", n), <<>>),
    note |-> ToString(<<"vendorless-grouped-code", n>>)] : n \in 0..MaxLen}

Wrap(code, flags, vendor, innerB, innerR) ==
  [b |-> Honest(code, flags, vendor, innerB), r |-> Rec(code, flags, vendor, innerB, innerR)]

Good ==
  \* depth 0: unit then follower; follower then unit
  {[body |-> u.b \o FollowerB, want |-> <<u.r, FollowerR>>, bad |-> FALSE, note |-> ToString(<<"d0", u.note>>)] : u \in Units}
  \cup {[body |-> FollowerB \o u.b, want |-> <<FollowerR, u.r>>, bad |-> FALSE, note |-> ToString(<<"d0r", u.note>>)] : u \in Units}
  \* depth 1: inside a grouped AVP, followed by a top-level follower
  \cup {LET g == Wrap(VCode("grouped"), MFlag, V0, u.b \o FollowerB, <<u.r, FollowerR>>)
        IN [body |-> g.b \o FollowerB, want |-> <<g.r, FollowerR>>, bad |-> FALSE, note |-> ToString(<<"d1", u.note>>)] : u \in Units}
  \* depth 2: vendor grouped inside grouped
  \cup {LET g2 == Wrap(VVGroup2, MFlag + VFlag, VV, u.b \o FollowerB, <<u.r, FollowerR>>)
            g1 == Wrap(VCode("grouped"), MFlag, V0, FollowerB \o g2.b, <<FollowerR, g2.r>>)
        IN [body |-> g1.b, want |-> <<g1.r>>, bad |-> FALSE, note |-> ToString(<<"d2", u.note>>)] : u \in Units}
  \* a group of the BASE dictionary (Failed-AVP) holding a group that only the message's application defines:
  \* members are resolved in the message's application at every depth
  \cup {LET g2 == Wrap(VCode("grouped"), MFlag, V0, u.b \o FollowerB, <<u.r, FollowerR>>)
            g1 == Wrap(279, MFlag, V0, FollowerB \o g2.b, <<FollowerR, g2.r>>)
        IN [body |-> g1.b, want |-> <<g1.r>>, bad |-> FALSE, note |-> ToString(<<"db", u.note>>)] : u \in Units}
  \* last AVP's padding cut by the end of the container: accepted by Frame
  \cup {[body |-> FollowerB \o Raw(VCode("octets"), 0, V0, 8 + n, Prefix(<<1, 2, 3>>, n)),
         want |-> <<FollowerR, Rec(VCode("octets"), 0, V0, Prefix(<<1, 2, 3>>, n), <<>>)>>, bad |-> FALSE, note |-> ToString(<<"nopad", n>>)] : n \in 1..3}

\* declared length below the header size, or beyond the container: must be an error
Bad ==
  {[body |-> FollowerB \o Padded(Raw(VCode("octets"), 0, V0, d, <<1, 2, 3, 4>>)) \o FollowerB, want |-> <<>>, bad |-> TRUE, note |-> ToString(<<"short", d>>)] : d \in 0..7}
  \cup {[body |-> FollowerB \o Padded(Raw(VVCode("octets"), VFlag, VV, d, <<1, 2, 3, 4>>)) \o FollowerB, want |-> <<>>, bad |-> TRUE, note |-> ToString(<<"shortV", d>>)] : d \in 0..11}
  \cup {[body |-> FollowerB \o Raw(VCode("octets"), 0, V0, 12 + d, <<1, 2, 3, 4>>), want |-> <<>>, bad |-> TRUE, note |-> ToString(<<"long", d>>)] : d \in {1, 2, 4, 100, 65536}}
  \cup {[body |-> Honest(VCode("grouped"), MFlag, V0, Raw(VCode("octets"), 0, V0, 12 + d, <<1, 2, 3, 4>>)) \o FollowerB \o FollowerB,
         want |-> <<>>, bad |-> TRUE, note |-> ToString(<<"long-in-group", d>>)] : d \in {1, 4, 12, 13}}
  \cup {[body |-> Honest(VCode("grouped"), MFlag, V0, Padded(Raw(VCode("octets"), 0, V0, d, <<1, 2, 3, 4>>))) \o FollowerB,
         want |-> <<>>, bad |-> TRUE, note |-> ToString(<<"short-in-group", d>>)] : d \in 0..7}
  \cup {[body |-> Prefix(FollowerB \o FollowerB, 12 + d), want |-> <<>>, bad |-> TRUE, note |-> ToString(<<"truncated-header", d>>)] : d \in 1..7}

Init == c \in Good \cup Bad
Next == UNCHANGED c

GSet == {<<C4(VCode("grouped")), V0>>, <<C4(VGroup2), V0>>, <<C4(VVCode("grouped")), VV>>, <<C4(VVGroup2), VV>>, <<C4(279), V0>>}

\* R1: the reference framer finds exactly the records the body was assembled from
FrameAgrees == LET f == Frame(c.body, GSet) IN
               IF c.bad THEN ~f.ok ELSE f.ok /\ f.recs = c.want

Emit == PrintT(ToJson([body |-> c.body, note |-> c.note]))
=============================================================================
