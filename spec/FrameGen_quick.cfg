CONSTANT MaxLen = 20
INIT Init
NEXT Next
INVARIANTS FrameAgrees Emit
CHECK_DEADLOCK FALSE
