----------------------------- MODULE FrameTrace -----------------------------
(***************************************************************************)
(* R3 for C04: what the real decoder reported for a body, against          *)
(* Wire!Frame.  FrameObs:                                                  *)
(*   - Frame says malformed  => the decoder returned an error    ("accept")*)
(*   - decoder succeeded     => same count, order, code, flags, vendor,    *)
(*     declared length at every depth ("shape"), and the same payload      *)
(*     bytes wherever the payload length is admissible for the type        *)
(*     ("payload")                                                         *)
(*   - Frame finds a well-framed AVP list => the decoder may refuse it    *)
(*     only for a payload its data type cannot represent: an Address of    *)
(*     fewer than 3 bytes, of family 0 / 65535, or of family 1 / 2 with a  *)
(*     length other than 4 / 16 ("reject" otherwise)                       *)
(***************************************************************************)
EXTENDS Wire, VDict, Json, TLC

Trace == ndJsonDeserialize("trace.ndjson")
VARIABLE l
Init == l = 1

C4(n) == Enc32(n)
VV == C4(VVendor)
GSet == {<<C4(VCode("grouped")), NoVendor>>, <<C4(VGroup2), NoVendor>>, <<C4(VVCode("grouped")), VV>>, <<C4(VVGroup2), VV>>, <<C4(279), NoVendor>>}

\* payload comparison: g = record reported by the library, f = reference record
PayloadOK(g, f) ==
  CASE g.kind = "grouped" -> TRUE                                   \* compared through kids
    [] Width(g.kind) > 0  -> Len(f.payload) # Width(g.kind) \/ g.raw = f.payload
    [] g.kind = "addr"    -> g.raw = f.payload \/ g.raw = SubSeq(f.payload, 3, Len(f.payload))
    [] OTHER              -> g.raw = f.payload

RECURSIVE ShapeOK(_, _), PayOK(_, _)
ShapeOK(gs, fs) ==
  /\ Len(gs) = Len(fs)
  /\ \A i \in 1..Len(gs) :
       /\ gs[i].code = fs[i].code /\ gs[i].flags = fs[i].flags /\ gs[i].vendor = fs[i].vendor /\ gs[i].len = fs[i].len
       /\ (gs[i].kind = "grouped") = (fs[i].kids # <<>> \/ <<fs[i].code, fs[i].vendor>> \in GSet)
       /\ ShapeOK(gs[i].kids, fs[i].kids)
PayOK(gs, fs) ==
  \A i \in 1..Len(gs) : PayloadOK(gs[i], fs[i]) /\ PayOK(gs[i].kids, fs[i].kids)

AddrKeys == {<<C4(VCode("addr")), NoVendor>>, <<C4(VVCode("addr")), VV>>}
BadAddr(p) == \/ Len(p) < 3
              \/ U16(p, 1) \in {0, 65535}
              \/ (U16(p, 1) = 1 /\ Len(p) # 6) \/ (U16(p, 1) = 2 /\ Len(p) # 18)
RECURSIVE MayReject(_)
MayReject(fs) == \E i \in 1..Len(fs) :
                   \/ (<<fs[i].code, fs[i].vendor>> \in AddrKeys /\ BadAddr(fs[i].payload))
                   \/ MayReject(fs[i].kids)

Reasons(e) ==
  LET f == Frame(e.body, GSet) IN
  IF ~f.ok THEN (IF e.ok THEN <<"accept">> ELSE <<>>)
  ELSE IF ~e.ok THEN (IF MayReject(f.recs) THEN <<>> ELSE <<"reject">>)
  ELSE IF ~ShapeOK(e.recs, f.recs) THEN <<"shape">>
  ELSE IF ~PayOK(e.recs, f.recs) THEN <<"payload">>
  ELSE <<>>

Next == /\ l <= Len(Trace)
        /\ l' = l + 1
        /\ LET r == Reasons(Trace[l]) IN r = <<>> \/ PrintT(<<"BADLINE", l, r>>)
=============================================================================
