-------------------------------- MODULE Gate --------------------------------
(***************************************************************************)
(* The capabilities gate of the state machine (C10), implementation-shaped *)
(* (diam/sm/sm.go, cer.go, cea.go): per-connection metadata flag `hs`,     *)
(* built-in CER / CEA / DWR processing, handshakeOK wrapper around every   *)
(* handler the application registered, refusal of the CER / CEA / DWR keys.*)
(*                                                                         *)
(* A peer message is one of                                                *)
(*   server side: cer_ok cer_bad cer_noid cer_sec dwr ccr cca ulr rar      *)
(*                cer_ok_wfail (acceptable CER, the CEA write fails)       *)
(*   client side: cea_ok cea_fail dwr ccr cca ulr rar cer_ok (the peer     *)
(*                sends a CER of its own on the connection the client      *)
(*                dialled: processed by nothing)                           *)
(*   both: ccr_e raa_e = application messages with the E bit set           *)
(* Step(side, regs, s, m) gives the next state and what must be observed   *)
(* while the message is processed: application handlers fired, answers     *)
(* written (command, result code), transport closed.                       *)
(***************************************************************************)
EXTENDS Mux

\* application registrations (by name, by index, catch-all) and attempted overrides
RegCCR == [t |-> "name", app |-> 0, code |-> 0, req |-> FALSE, name |-> "CCR", hid |-> 1]
RegCCA == [t |-> "name", app |-> 0, code |-> 0, req |-> FALSE, name |-> "CCA", hid |-> 2]
RegULR == [t |-> "idx", app |-> 16777251, code |-> 316, req |-> TRUE, name |-> "", hid |-> 3]
RegALL == [t |-> "all", app |-> 0, code |-> 0, req |-> FALSE, name |-> "", hid |-> 4]
\* "DWA" is not a reserved key: with the watchdog off the application's own handler for watchdog answers stays
RegDWA == [t |-> "name", app |-> 0, code |-> 0, req |-> FALSE, name |-> "DWA", hid |-> 5]
\* the same handlers registered by index only (answer index and catch-all index included)
RegCCRi == [t |-> "idx", app |-> 4, code |-> 272, req |-> TRUE, name |-> "", hid |-> 1]
RegCCAi == [t |-> "idx", app |-> 4, code |-> 272, req |-> FALSE, name |-> "", hid |-> 2]
\* the watchdog answer by index: {0, 280, answer} is not one of the reserved keys either
RegDWAi == [t |-> "idx", app |-> 0, code |-> 280, req |-> FALSE, name |-> "", hid |-> 5]
RegsOf(cfg) == CASE cfg \in {"all", "noaddr"} -> <<RegCCR, RegCCA, RegULR, RegDWA, RegALL>>
                 [] cfg = "idx"    -> <<RegCCRi, RegCCAi, RegULR, RegDWAi, RegALL>>
                 [] cfg = "noall"  -> <<RegCCR, RegCCA, RegULR, RegDWA>>
                 [] cfg = "onlyall" -> <<RegALL>>
\* handler ids of the override attempts ("CER","CEA","DWR" by name; base CER/CEA/DWR by index): must never fire
OverrideHids == {91, 92, 93, 94, 95, 96}

AppMsg(m) == CASE m = "ccr" -> [msg |-> [app |-> 4, code |-> 272, req |-> TRUE], short |-> "CC"]
               [] m = "cca" -> [msg |-> [app |-> 4, code |-> 272, req |-> FALSE], short |-> "CC"]
               [] m = "ulr" -> [msg |-> [app |-> 16777251, code |-> 316, req |-> TRUE], short |-> "UL"]
               [] m = "rar" -> [msg |-> [app |-> 0, code |-> 258, req |-> TRUE], short |-> "RA"]
               \* the same with the E (error) bit set: an error answer, and a request carrying R+E
               [] m = "ccr_e" -> [msg |-> [app |-> 4, code |-> 272, req |-> TRUE], short |-> "CC"]
               [] m = "raa_e" -> [msg |-> [app |-> 0, code |-> 258, req |-> FALSE], short |-> "RA"]
               \* a watchdog answer: an application message like any other unless the client runs the watchdog
               [] m = "dwa" -> [msg |-> [app |-> 0, code |-> 280, req |-> FALSE], short |-> "DW"]
IsApp(m) == m \in {"ccr", "cca", "ulr", "rar", "ccr_e", "raa_e", "dwa"}
CerKinds == {"cer_ok", "cer_bad", "cer_bad_nom", "cer_noid", "cer_sec", "cer_ok_wfail", "cer_sec_ccr"}
\* cer_sec_ccr: a CER that is refused (in-band security) with an application request right behind it in the
\* same fragment: the request is already buffered when the connection is closed and must not reach a handler
FailCode(m) == CASE m \in {"cer_bad", "cer_bad_nom"} -> 5010 [] m = "cer_noid" -> 5012 [] m \in {"cer_sec", "cer_sec_ccr"} -> 5017

\* wbroken: reserved for a transport whose write side stays broken (never set since messages are
\* handed to the transport directly: a failed write no longer poisons later writes)
Init0 == [hs |-> FALSE, closed |-> FALSE, wbroken |-> FALSE]
\* can the answer to a CER be delivered?  cfg "noaddr": no host address configured and the local
\* endpoint has no numeric port, so no CEA can be built at all
CanAnswer(cfg, s) == cfg # "noaddr" /\ ~s.wbroken
Quiet(s) == [s |-> s, fired |-> <<>>, wrote |-> <<>>, anydwa |-> FALSE]

Step1(side, cfg, s, m) ==
  IF s.closed THEN Quiet(s)                                             \* nothing is read from a closed transport
  \* (client) the peer of ANOTHER, established connection of the same Client repeats its CEA there: nothing happens here
  ELSE IF m = "dup_other" THEN Quiet(s)
  ELSE IF IsApp(m) THEN
       IF ~s.hs THEN Quiet(s)                                           \* gated: no application handler before the handshake
       ELSE LET d == Dispatch(RegsOf(cfg), AppMsg(m).msg, AppMsg(m).short) IN
            [s |-> s, fired |-> IF d = 0 THEN <<>> ELSE <<d>>, wrote |-> <<>>, anydwa |-> FALSE]
  ELSE IF m = "dwr" THEN
       IF s.hs THEN [s |-> s, fired |-> <<>>, wrote |-> IF s.wbroken THEN <<>> ELSE <<[cmd |-> 280, rc |-> 2001]>>, anydwa |-> FALSE]
       ELSE [s |-> s, fired |-> <<>>, wrote |-> <<>>, anydwa |-> TRUE]   \* before the handshake a DWA may or may not be written
  ELSE IF side = "client" /\ m \in CerKinds THEN Quiet(s)                  \* a CER from the peer it dialled: the client's built-in no-op
  ELSE IF side = "server" THEN
       IF s.hs THEN Quiet(s)                                            \* any CER after the handshake is ignored
       ELSE IF m = "cer_ok_wfail" THEN \* acceptable CER whose CEA the transport refuses: no exchange has succeeded
            Quiet(s)
       ELSE IF m = "cer_ok" THEN
            IF CanAnswer(cfg, s) THEN [s |-> [s EXCEPT !.hs = TRUE], fired |-> <<>>, wrote |-> <<[cmd |-> 257, rc |-> 2001]>>, anydwa |-> FALSE]
            ELSE Quiet(s)                                               \* no success CEA was written: the gate stays shut
       ELSE [s |-> [s EXCEPT !.closed = TRUE], fired |-> <<>>,
             wrote |-> IF CanAnswer(cfg, s) THEN <<[cmd |-> 257, rc |-> FailCode(m)]>> ELSE <<>>, anydwa |-> FALSE]
  ELSE \* client: cea_ok / cea_fail / cea_2002 (a success-class code other than 2001 is not DIAMETER_SUCCESS); at most one per history
       IF m = "cea_ok" THEN [s |-> [s EXCEPT !.hs = TRUE], fired |-> <<>>, wrote |-> <<>>, anydwa |-> FALSE]
       ELSE [s |-> [s EXCEPT !.closed = TRUE], fired |-> <<>>, wrote |-> <<>>, anydwa |-> FALSE]

\* a fragment carrying two messages is processed as the two in turn (what the second does depends on what the
\* first left behind: after a refusal the connection is closed and the request goes nowhere; after the
\* handshake a further CER is ignored and the request is served)
Step(side, cfg, s, m) ==
  IF m = "cer_sec_ccr" THEN
       LET x == Step1(side, cfg, s, "cer_sec")  y == Step1(side, cfg, x.s, "ccr") IN
       [s |-> y.s, fired |-> x.fired \o y.fired, wrote |-> x.wrote \o y.wrote, anydwa |-> FALSE]
  ELSE Step1(side, cfg, s, m)

\* GateObs on one observed step
StepOK(x, o) ==
  /\ o.fired = x.fired
  /\ (x.anydwa /\ (o.wrote = <<>> \/ o.wrote = <<[cmd |-> 280, rc |-> 2001]>>)) \/ (~x.anydwa /\ o.wrote = x.wrote)
  /\ o.closed = x.s.closed

RECURSIVE Check(_, _, _, _, _, _)
Check(side, cfg, s, hist, obs, k) ==
  IF k > Len(hist) THEN <<>>
  ELSE LET x == Step(side, cfg, s, hist[k]) IN
       IF StepOK(x, obs[k]) THEN Check(side, cfg, x.s, hist, obs, k + 1)
       ELSE <<IF obs[k].fired # x.fired
                THEN (IF ~x.s.hs /\ obs[k].fired # <<>> THEN "fired-before-handshake"
                      ELSE IF \E i \in 1..Len(obs[k].fired) : obs[k].fired[i] \in OverrideHids THEN "override-fired"
                      ELSE IF obs[k].fired = <<>> THEN "not-fired-after-handshake" ELSE "wrong-handler")
              ELSE IF obs[k].closed # x.s.closed THEN "closed" ELSE "answer">>
=============================================================================
