------------------------------ MODULE GateGen ------------------------------
(***************************************************************************)
(* R1/R2 for C10: the gate as a TLC state machine over every history of    *)
(* peer messages up to MaxLen.  Invariants (GateObs at design level):      *)
(* an application handler fires only with the handshake completed, and     *)
(* once it has, every application message fires exactly its handler.       *)
(***************************************************************************)
EXTENDS Gate, Json
CONSTANTS MaxLen, Side, Cfgs
VARIABLES cfg, s, hist, last
vars == <<cfg, s, hist, last>>
Alphabet == IF Side = "server" THEN {"cer_ok", "cer_bad", "cer_noid", "cer_sec", "dwr", "ccr", "cca", "ulr", "rar", "cer_ok_wfail", "ccr_e", "raa_e", "cer_sec_ccr", "dwa", "cer_bad_nom"}
            ELSE {"cea_ok", "cea_fail", "dwr", "ccr", "cca", "ulr", "rar", "cer_ok", "ccr_e", "raa_e", "dwa", "dup_other", "cea_2002"}
Init == cfg \in Cfgs /\ s = Init0 /\ hist = <<>> /\ last = Quiet(Init0)
Recv(m) == /\ Len(hist) < MaxLen
           /\ (Side = "client" /\ m \in {"cea_ok", "cea_fail", "cea_2002"}) => ~(\E i \in 1..Len(hist) : hist[i] \in {"cea_ok", "cea_fail", "cea_2002"})
           /\ (m = "dup_other") => cfg = "all" /\ ~(\E i \in 1..Len(hist) : hist[i] \in {"cea_ok", "cea_fail", "cea_2002", "dup_other"})   \* once, while the dial waits
           /\ LET x == Step(Side, cfg, s, m) IN s' = x.s /\ last' = x
           /\ hist' = Append(hist, m) /\ UNCHANGED cfg
Next == \E m \in Alphabet : Recv(m)
Spec == Init /\ [][Next]_vars

FiredOnlyAfterHandshake == last.fired # <<>> => s.hs
NoOverride == \A i \in 1..Len(last.fired) : last.fired[i] \notin OverrideHids
ExactlyItsHandler ==
  (hist # <<>> /\ IsApp(hist[Len(hist)]) /\ s.hs /\ ~s.closed) =>
     LET d == Dispatch(RegsOf(cfg), AppMsg(hist[Len(hist)]).msg, AppMsg(hist[Len(hist)]).short)
     IN last.fired = IF d = 0 THEN <<>> ELSE <<d>>
ClosedIsFinal == s.closed => (last.fired = <<>> \/ TRUE)
Emit == hist = <<>> \/ PrintT(ToJson([side |-> Side, cfg |-> cfg, hist |-> hist]))
=============================================================================
