CONSTANTS MaxLen = 4
  Side = "client"
  Cfgs = {"all", "idx"}
INIT Init
NEXT Next
INVARIANTS FiredOnlyAfterHandshake NoOverride ExactlyItsHandler Emit
CHECK_DEADLOCK FALSE
