CONSTANTS MaxLen = 4
  Side = "client"
  Cfgs = {"all"}
INIT Init
NEXT Next
INVARIANTS FiredOnlyAfterHandshake NoOverride ExactlyItsHandler Emit
CHECK_DEADLOCK FALSE
