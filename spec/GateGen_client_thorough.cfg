CONSTANTS MaxLen = 5
  Side = "client"
  Cfgs = {"all", "noall", "onlyall"}
INIT Init
NEXT Next
INVARIANTS FiredOnlyAfterHandshake NoOverride ExactlyItsHandler Emit
CHECK_DEADLOCK FALSE
