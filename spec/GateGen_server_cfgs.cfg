CONSTANTS MaxLen = 3
  Side = "server"
  Cfgs = {"noall", "onlyall", "idx", "noaddr"}
INIT Init
NEXT Next
INVARIANTS FiredOnlyAfterHandshake NoOverride ExactlyItsHandler Emit
CHECK_DEADLOCK FALSE
