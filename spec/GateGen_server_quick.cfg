CONSTANTS MaxLen = 4
  Side = "server"
  Cfgs = {"all"}
INIT Init
NEXT Next
INVARIANTS FiredOnlyAfterHandshake NoOverride ExactlyItsHandler Emit
CHECK_DEADLOCK FALSE
