CONSTANTS MaxLen = 5
  Side = "server"
  Cfgs = {"all", "noall", "onlyall", "idx"}
INIT Init
NEXT Next
INVARIANTS FiredOnlyAfterHandshake NoOverride ExactlyItsHandler Emit
CHECK_DEADLOCK FALSE
