------------------------------ MODULE GateTrace ------------------------------
(* R3 for C10: observed handler invocations / answers / close per peer message, against Gate!Step. *)
EXTENDS Gate, Json
Trace == ndJsonDeserialize("trace.ndjson")
VARIABLE l
Init == l = 1
Next == /\ l <= Len(Trace)
        /\ l' = l + 1
        /\ LET e == Trace[l]  r == Check(e.side, e.cfg, Init0, e.hist, e.obs, 1) IN
           r = <<>> \/ PrintT(<<"BADLINE", l, r>>)
=============================================================================
