------------------------------ MODULE Handshake ------------------------------
(***************************************************************************)
(* HandshakeObs (C12): what must be observed from outside when a client    *)
(* with retransmission budget B dials a peer that follows a count-driven   *)
(* script [kind, at, extras]:                                              *)
(*   kind = "ok"        success CEA sharing an application, in reply to    *)
(*                      the at-th CER                                      *)
(*          "fail"      CEA with a failing Result-Code                     *)
(*          "noresult" / "nooh"   malformed CEA (no Result-Code / host)    *)
(*          "noapps" / "unsupapps" success CEA sharing no application      *)
(*          "silence"   no answer at all                                   *)
(*          "eof"       the peer disconnects after the at-th CER           *)
(*   extras: CEAs sent after a completed handshake ("dupok", "latefail",   *)
(*           "latemalformed"), followed by an application answer.          *)
(* Observation: ncer, identical, mingap (ms), dial_ok, errclass,           *)
(* closed_at_return, closed_end, app_dispatched, cer content.              *)
(***************************************************************************)
EXTENDS Integers, Sequences, FiniteSets, TLC

Answers(s) == s.kind # "silence" /\ s.at <= s.budget + 1
\* privok / defonly (client with its own dictionary, cfg "owndict"): the only application of the success CEA is one
\* that only the client's dictionary defines / one that dict.Default defines and the client's dictionary does not
ExpectOK(s) == s.kind \in {"ok", "vsaok", "relayok", "privok"} /\ Answers(s)
\* CERs seen when the peer answers: the at-th; with `during`, the answer arrives while the next one is being written
\* wfail: the transport refuses the at-th transmission (the read side stays healthy, the peer keeps the
\* connection): the peer has seen at-1 CERs, the dial returns the transport's error and has closed the transport
NCer(s) == IF s.kind = "wfail" THEN s.at - 1 ELSE IF s.during THEN s.at + 1 ELSE s.at
ErrClasses(s) ==
  CASE ~Answers(s) /\ s.kind # "eof" -> {"timeout"}
    [] s.kind \in {"fail", "failok"}   -> {"failed"}     \* failok: a failing CEA with a success CEA pipelined behind it
    [] s.kind \in {"noresult", "nooh"} -> {"malformed"}
    [] s.kind \in {"noapps", "unsupapps", "vsaunsup", "defonly"} -> {"malformed", "noapp", "failed"}
    [] s.kind = "eof"                 -> {"transport", "timeout"}
    [] s.kind = "wfail"               -> {"transport"}
    [] OTHER -> {}

Reasons(s, o, want) ==
  \* cfg: the client was told to advertise one more application, which its own dictionary lacks.  It may
  \* refuse to dial (the code does for acct / auth applications); if it dials, the CER carries that
  \* application too (it is part of `want`) and everything else holds as usual.
  IF s.cfg \in {"acct", "auth", "vsa"} /\ ~o.dial_ok /\ o.ncer = 0 THEN <<>>
  ELSE
     (IF o.ncer > s.budget + 1 \/ (o.ncer < 1 /\ s.kind # "wfail") THEN <<"too-many-cer">> ELSE <<>>)
  \o (IF Answers(s) /\ s.kind # "eof" /\ o.ncer # NCer(s) THEN <<"cer-count">> ELSE <<>>)
  \o (IF ~Answers(s) /\ s.kind # "eof" /\ o.ncer # s.budget + 1 THEN <<"cer-count">> ELSE <<>>)
  \o (IF s.kind = "eof" /\ o.ncer < (IF s.at <= s.budget + 1 THEN s.at ELSE s.budget + 1) THEN <<"cer-count">> ELSE <<>>)
  \o (IF ~o.identical THEN <<"cer-differs">> ELSE <<>>)
  \o (IF o.ncer > 1 /\ o.mingap < s.interval THEN <<"spacing">> ELSE <<>>)
  \o (IF o.cer # want /\ ~(s.kind = "wfail" /\ s.at = 1) THEN <<"cer-content">> ELSE <<>>)
  \o (IF s.shared /\ ~o.other_open THEN <<"other-connection-closed">> ELSE <<>>)
  \o (IF ExpectOK(s)
      THEN (IF ~o.dial_ok THEN <<"dial-failed">> ELSE
              (IF o.closed_end THEN <<"closed-after-success">> ELSE <<>>)
           \o (IF ~o.app_dispatched THEN <<"not-dispatched-after-success">> ELSE <<>>))
      ELSE (IF o.dial_ok THEN <<"dial-succeeded">>
            ELSE (IF o.errclass \notin ErrClasses(s) THEN <<"wrong-error">> ELSE <<>>)
              \o (IF ~o.closed_at_return THEN <<"not-closed-on-error">> ELSE <<>>)))
=============================================================================
