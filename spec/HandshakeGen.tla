----------------------------- MODULE HandshakeGen -----------------------------
(* R2 for C12: every retransmission budget x every peer behaviour x extras after completion. *)
EXTENDS Handshake, Json
CONSTANTS MaxBudget, MaxExtras
VARIABLE s
Kinds == {"wfail", "ok", "fail", "noresult", "nooh", "noapps", "unsupapps", "vsaunsup", "vsaok", "relayok", "failok", "silence", "eof"}
Extras == {"dupok", "latefail", "latemalformed"}
Seqs(S, n) == UNION {[1..k -> S] : k \in 0..n}
\* stall: milliseconds the transport takes to accept each CER (back-pressure); the spacing is
\* measured between the ends of the writes.  redial: the same client / state machine has
\* completed an earlier dial from another local address.
S(b, k, a) == [budget |-> b, interval |-> 40, kind |-> k, at |-> a, extras |-> <<>>, stall |-> 0, redial |-> FALSE, shared |-> FALSE,
               cfg |-> "", local |-> "", during |-> FALSE]
Init == s \in {S(b, k, a) : b \in 0..MaxBudget, k \in Kinds, a \in 1..(MaxBudget + 1)}
         \cup {[S(b, k, b + 1) EXCEPT !.stall = 25, !.redial = r] : b \in 1..MaxBudget, k \in {"ok", "silence", "fail"}, r \in BOOLEAN}
         \* shared: another connection of the same client (and state machine) is up, and its peer repeats
         \* its CEA there while this dial is waiting: this dial's outcome depends on its own peer only
         \cup {[S(b, k, a) EXCEPT !.shared = TRUE] : b \in 0..1, k \in {"ok", "fail", "silence", "unsupapps"}, a \in 1..2}
         \* cfg: the client was told to advertise one more application, of that type, which its dictionary lacks
         \cup {[S(b, "ok", 1) EXCEPT !.cfg = c] : b \in 0..1, c \in {"acct", "auth", "vsa"}}
         \* both: an application the dictionary supports, told to be advertised in both forms (plain and vendor-specific)
         \cup {[S(b, k, 1) EXCEPT !.cfg = "both"] : b \in 0..1, k \in {"ok", "vsaok"}}
         \cup {[S(0, "ok", 1) EXCEPT !.redial = TRUE]}
         \* owndict: the client works with a dictionary of its own (base, credit control, a private application)
         \cup {[S(b, k, 1) EXCEPT !.cfg = "owndict"] : b \in 0..1, k \in {"privok", "defonly", "ok", "fail"}}
         \* local: the only local address of the transport is link-local (IPv4 169.254/16, IPv6 fe80::/10 with a zone)
         \cup {[S(b, k, 1) EXCEPT !.local = x] : b \in 0..1, k \in {"ok", "fail"}, x \in {"ll4", "ll6"}}
         \* during: the answer to the at-th CER is delivered while the transport is still busy (80 ms) accepting
         \* the next transmission, i.e. it is handled before the dialling goroutine is back in its select
         \cup {[S(b, k, a) EXCEPT !.during = TRUE] : b \in 1..MaxBudget, k \in {"ok", "fail", "noresult", "unsupapps"}, a \in 1..MaxBudget}
Next == /\ s.kind = "ok" /\ Answers(s) /\ s.cfg = "" /\ Len(s.extras) < MaxExtras
        /\ \E x \in Extras : s' = [s EXCEPT !.extras = Append(@, x)]
Canon == (s.kind = "silence" => (s.at = 1 \/ s.stall > 0)) /\ s.at <= s.budget + 1 /\ (s.during => s.at <= s.budget)
\* R1: the expectation is well defined: a script either succeeds or names at least one admissible error
WellDefined == ExpectOK(s) \/ ErrClasses(s) # {}
Emit == ~Canon \/ PrintT(ToJson(s))
=============================================================================
