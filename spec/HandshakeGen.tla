----------------------------- MODULE HandshakeGen -----------------------------
(* R2 for C12: every retransmission budget x every peer behaviour x extras after completion. *)
EXTENDS Handshake, Json
CONSTANTS MaxBudget, MaxExtras
VARIABLE s
Kinds == {"ok", "fail", "noresult", "nooh", "noapps", "unsupapps", "silence", "eof"}
Extras == {"dupok", "latefail", "latemalformed"}
Seqs(S, n) == UNION {[1..k -> S] : k \in 0..n}
Init == s \in {[budget |-> b, interval |-> 40, kind |-> k, at |-> a, extras |-> <<>>] :
                  b \in 0..MaxBudget, k \in Kinds, a \in 1..(MaxBudget + 1)}
Next == /\ s.kind = "ok" /\ Answers(s) /\ Len(s.extras) < MaxExtras
        /\ \E x \in Extras : s' = [s EXCEPT !.extras = Append(@, x)]
Canon == (s.kind = "silence" => s.at = 1) /\ s.at <= s.budget + 1
\* R1: the expectation is well defined: a script either succeeds or names at least one admissible error
WellDefined == ExpectOK(s) \/ ErrClasses(s) # {}
Emit == ~Canon \/ PrintT(ToJson(s))
=============================================================================
