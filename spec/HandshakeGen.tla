----------------------------- MODULE HandshakeGen -----------------------------
(* R2 for C12: every retransmission budget x every peer behaviour x extras after completion. *)
EXTENDS Handshake, Json
CONSTANTS MaxBudget, MaxExtras
VARIABLE s
Kinds == {"ok", "fail", "noresult", "nooh", "noapps", "unsupapps", "vsaunsup", "vsaok", "silence", "eof"}
Extras == {"dupok", "latefail", "latemalformed"}
Seqs(S, n) == UNION {[1..k -> S] : k \in 0..n}
\* stall: milliseconds the transport takes to accept each CER (back-pressure); the spacing is
\* measured between the ends of the writes.  redial: the same client / state machine has
\* completed an earlier dial from another local address.
Init == s \in {[budget |-> b, interval |-> 40, kind |-> k, at |-> a, extras |-> <<>>, stall |-> 0, redial |-> FALSE, shared |-> FALSE, cfg |-> ""] :
                  b \in 0..MaxBudget, k \in Kinds, a \in 1..(MaxBudget + 1)}
         \cup {[budget |-> b, interval |-> 40, kind |-> k, at |-> b + 1, extras |-> <<>>, stall |-> 25, redial |-> r, shared |-> FALSE, cfg |-> ""] :
                  b \in 1..MaxBudget, k \in {"ok", "silence", "fail"}, r \in BOOLEAN}
         \* shared: another connection of the same client (and state machine) is up, and its peer repeats
         \* its CEA there while this dial is waiting: this dial's outcome depends on its own peer only
         \cup {[budget |-> b, interval |-> 40, kind |-> k, at |-> a, extras |-> <<>>, stall |-> 0, redial |-> FALSE, shared |-> TRUE, cfg |-> ""] :
                  b \in 0..1, k \in {"ok", "fail", "silence", "unsupapps"}, a \in 1..2}
         \* cfg: the client was told to advertise an application of that type which its dictionary does not
         \* support: the dial fails at once, nothing is sent
         \cup {[budget |-> b, interval |-> 40, kind |-> "ok", at |-> 1, extras |-> <<>>, stall |-> 0, redial |-> FALSE, shared |-> FALSE, cfg |-> c] :
                  b \in 0..1, c \in {"acct", "auth", "vsa"}}
         \cup {[budget |-> 0, interval |-> 40, kind |-> "ok", at |-> 1, extras |-> <<>>, stall |-> 0, redial |-> TRUE, shared |-> FALSE, cfg |-> ""]}
Next == /\ s.kind = "ok" /\ Answers(s) /\ s.cfg = "" /\ Len(s.extras) < MaxExtras
        /\ \E x \in Extras : s' = [s EXCEPT !.extras = Append(@, x)]
Canon == (s.kind = "silence" => (s.at = 1 \/ s.stall > 0)) /\ s.at <= s.budget + 1
\* R1: the expectation is well defined: a script either succeeds or names at least one admissible error
WellDefined == ExpectOK(s) \/ ErrClasses(s) # {}
Emit == ~Canon \/ PrintT(ToJson(s))
=============================================================================
