CONSTANTS MaxBudget = 2
  MaxExtras = 2
INIT Init
NEXT Next
INVARIANTS WellDefined Emit
CHECK_DEADLOCK FALSE
