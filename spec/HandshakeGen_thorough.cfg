CONSTANTS MaxBudget = 4
  MaxExtras = 3
INIT Init
NEXT Next
INVARIANTS WellDefined Emit
CHECK_DEADLOCK FALSE
