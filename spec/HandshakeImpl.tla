--------------------------- MODULE HandshakeImpl ---------------------------
(***************************************************************************)
(* Implementation-shaped model of the client handshake (C12):              *)
(* diam/sm/client.go handshake() and diam/sm/cea.go handleCEA with the     *)
(* errc channel.  One action per blocking point:                           *)
(*   client goroutine : WriteCER (the CER is on the wire, loop head),      *)
(*                      EnterSelect (the goroutine reaches its select: the *)
(*                      peer may already have answered in between),        *)
(*                      RecvClosed / RecvErr (select on errc), Timer       *)
(*                      (select on time.After)                             *)
(*   serve goroutine  : HandleCEA (read + dispatch a CEA), SendOnClosed    *)
(*                      (a blocked sender whose channel is closed panics;  *)
(*                      conn.serve recovers and closes the transport)      *)
(*   peer             : Peer(k) answers any CER already received, or sends *)
(*                      extra CEAs afterwards; AppAnswer = an application  *)
(*                      answer sent after the handshake                    *)
(* IgnoreAfterDone = TRUE models handleCEA returning at once when the      *)
(* connection already carries peer metadata (the repaired code); FALSE is  *)
(* the original behaviour and is kept as a sensitivity configuration: TLC  *)
(* must then find the duplicate-CEA close and the wedged serve loop.       *)
(***************************************************************************)
EXTENDS Integers, Sequences, TLC
\* (the @type comments are for Apalache, see HandshakeInd.tla; TLC ignores them)
CONSTANTS
  \* @type: Int;
  MaxRetx,
  \* @type: Int;
  MaxPeerMsgs,
  \* @type: Bool;
  IgnoreAfterDone,
  \* @type: Bool;
  OnceClose
VARIABLES
  \* @type: Str;
  cli,      \* "start","written","sent","wfailed","failing","done_ok","done_err"
  \* @type: Int;
  i,        \* loop counter
  \* @type: Str;
  errc,     \* "open","closed"
  \* @type: Str;
  srv,      \* serve goroutine: "idle","sendErr","panicked"
  \* @type: Bool;
  meta,     \* peer metadata stored on the connection
  \* @type: Seq(Str);
  inq,      \* CEAs in flight to the client: seq of "ok" | "fail"
  \* @type: Int;
  ncer,     \* CERs written
  \* @type: Bool;
  closed,   \* transport closed by the library
  \* @type: Int;
  npeer,    \* answers produced so far
  \* @type: Bool;
  appOK,    \* an application answer sent after the handshake was dispatched
  \* @type: Bool;
  crashed   \* the dialling goroutine panicked (close of a closed channel): nothing recovers that
vars == <<cli, i, errc, srv, meta, inq, ncer, closed, npeer, appOK, crashed>>

Init == /\ cli = "start" /\ i = 0 /\ errc = "open" /\ srv = "idle" /\ meta = FALSE /\ inq = <<>>
        /\ ncer = 0 /\ closed = FALSE /\ npeer = 0 /\ appOK = FALSE /\ crashed = FALSE

WriteCER == /\ cli = "start" /\ i <= MaxRetx /\ ~closed
            /\ ncer' = ncer + 1 /\ cli' = "written"
            /\ UNCHANGED <<i, errc, srv, meta, inq, closed, npeer, appOK, crashed>>
EnterSelect == /\ cli = "written" /\ cli' = "sent"
               /\ UNCHANGED <<i, errc, srv, meta, inq, ncer, closed, npeer, appOK, crashed>>
\* a write on a transport that has meanwhile been closed fails: handshake returns the error
SendFails == /\ cli = "start" /\ i <= MaxRetx /\ closed
             /\ cli' = "done_err" /\ UNCHANGED <<i, errc, srv, meta, inq, ncer, closed, npeer, appOK, crashed>>
\* a write the transport refuses while the connection is otherwise healthy (the read side keeps working, the peer
\* keeps the connection): handshake logs the failure, closes the transport itself and returns the error
WriteFails == /\ cli = "start" /\ i <= MaxRetx /\ ~closed
              /\ cli' = "wfailed" /\ UNCHANGED <<i, errc, srv, meta, inq, ncer, closed, npeer, appOK, crashed>>
CloseAfterWFail == /\ cli = "wfailed" /\ cli' = "done_err" /\ closed' = TRUE
                   /\ UNCHANGED <<i, errc, srv, meta, inq, ncer, npeer, appOK, crashed>>
\* sensitivity only (NextNoClose): returning the write error without closing
ReturnAfterWFail == /\ cli = "wfailed" /\ cli' = "done_err"
                    /\ UNCHANGED <<i, errc, srv, meta, inq, ncer, closed, npeer, appOK, crashed>>
RecvClosed == /\ cli = "sent" /\ errc = "closed" /\ cli' = "done_ok"
              /\ UNCHANGED <<i, errc, srv, meta, inq, ncer, closed, npeer, appOK, crashed>>
\* the failing CEA's error is received (the sender, handleCEA, is released and the serve goroutine goes on
\* with whatever is already buffered) ...
RecvErr == /\ cli = "sent" /\ srv = "sendErr" /\ errc = "open"
           /\ cli' = "failing" /\ srv' = "idle"
           /\ UNCHANGED <<i, errc, meta, inq, ncer, closed, npeer, appOK, crashed>>
\* ... and only then does the dialling goroutine close errc and the transport.  If a success CEA that was
\* pipelined behind the failing one has been handled in between, errc is closed already: unless the close
\* is guarded (OnceClose, the repaired code) the dialling goroutine panics, which nothing recovers.
CloseErrc == /\ cli = "failing"
             /\ cli' = "done_err" /\ closed' = TRUE
             /\ IF errc = "closed" THEN crashed' = ~OnceClose /\ UNCHANGED errc
                ELSE errc' = "closed" /\ UNCHANGED crashed
             /\ UNCHANGED <<i, srv, meta, inq, ncer, npeer, appOK>>
Timer == /\ cli = "sent" /\ i' = i + 1
         /\ IF i + 1 > MaxRetx THEN cli' = "done_err" /\ closed' = TRUE ELSE cli' = "start" /\ UNCHANGED closed
         /\ UNCHANGED <<errc, srv, meta, inq, ncer, npeer, appOK, crashed>>
Peer(k) == /\ ncer > 0 /\ npeer < MaxPeerMsgs /\ ~closed
           /\ inq' = Append(inq, k) /\ npeer' = npeer + 1
           /\ UNCHANGED <<cli, i, errc, srv, meta, ncer, closed, appOK, crashed>>
HandleCEA ==
  /\ srv = "idle" /\ inq # <<>> /\ ~closed
  /\ inq' = Tail(inq)
  /\ IF IgnoreAfterDone /\ meta THEN UNCHANGED <<errc, srv, meta, closed>>                      \* late / duplicate CEA: ignored
     ELSE IF Head(inq) = "fail" THEN srv' = "sendErr" /\ UNCHANGED <<errc, meta, closed>>         \* errc <- err (blocks)
     ELSE IF errc = "closed" /\ ~OnceClose THEN srv' = "panicked" /\ closed' = TRUE /\ UNCHANGED <<errc, meta>> \* close of closed channel
     ELSE errc' = "closed" /\ meta' = TRUE /\ UNCHANGED <<srv, closed>>
  /\ UNCHANGED <<cli, i, ncer, npeer, appOK, crashed>>
SendOnClosed == /\ srv = "sendErr" /\ errc = "closed" /\ srv' = "panicked" /\ closed' = TRUE
                /\ UNCHANGED <<cli, i, errc, meta, inq, ncer, npeer, appOK, crashed>>
\* the peer disconnects instead of answering (before any CEA was accepted): the serve goroutine reads EOF and closes the transport; the dialling
\* goroutine notices at its next transmission (SendFails) or runs into its timers
PeerEOF == /\ ncer > 0 /\ ~closed /\ srv = "idle" /\ inq = <<>> /\ errc = "open" /\ ~meta /\ cli \notin {"done_ok", "done_err"}
           /\ closed' = TRUE
           /\ UNCHANGED <<cli, i, errc, srv, meta, inq, ncer, npeer, appOK, crashed>>
AppAnswer == /\ cli = "done_ok" /\ srv = "idle" /\ inq = <<>> /\ ~closed /\ appOK' = TRUE
             /\ UNCHANGED <<cli, i, errc, srv, meta, inq, ncer, closed, npeer, crashed>>
Next == WriteCER \/ EnterSelect \/ SendFails \/ WriteFails \/ CloseAfterWFail \/ RecvClosed \/ RecvErr \/ CloseErrc \/ Timer \/ (\E k \in {"ok", "fail"} : Peer(k)) \/ HandleCEA \/ SendOnClosed \/ AppAnswer \/ PeerEOF
Spec == Init /\ [][Next]_vars
NextNoClose == Next \/ ReturnAfterWFail

\* HandshakeObs at design level
NoCrash       == ~crashed
Bounded       == ncer <= MaxRetx + 1
FailClosed    == cli = "done_err" => closed
OkOnlyAfterOk == cli = "done_ok" => meta
StableAfterOK == cli = "done_ok" => ~closed                          \* stays open whatever extra CEAs arrive
NotStuck      == (cli = "done_ok" /\ inq = <<>>) => srv # "sendErr"  \* the serve loop is not wedged
Dispatchable  == (cli = "done_ok" /\ inq = <<>> /\ ~closed) => ENABLED AppAnswer
=============================================================================
