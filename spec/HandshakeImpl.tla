--------------------------- MODULE HandshakeImpl ---------------------------
(***************************************************************************)
(* Implementation-shaped model of the client handshake (C12):              *)
(* diam/sm/client.go handshake() and diam/sm/cea.go handleCEA with the     *)
(* errc channel.  One action per blocking point:                           *)
(*   client goroutine : WriteCER (the CER is on the wire, loop head),      *)
(*                      EnterSelect (the goroutine reaches its select: the *)
(*                      peer may already have answered in between),        *)
(*                      RecvClosed / RecvErr (select on errc), Timer       *)
(*                      (select on time.After)                             *)
(*   serve goroutine  : HandleCEA (read + dispatch a CEA), SendOnClosed    *)
(*                      (a blocked sender whose channel is closed panics;  *)
(*                      conn.serve recovers and closes the transport)      *)
(*   peer             : Peer(k) answers any CER already received, or sends *)
(*                      extra CEAs afterwards; AppAnswer = an application  *)
(*                      answer sent after the handshake                    *)
(* IgnoreAfterDone = TRUE models handleCEA returning at once when the      *)
(* connection already carries peer metadata (the repaired code); FALSE is  *)
(* the original behaviour and is kept as a sensitivity configuration: TLC  *)
(* must then find the duplicate-CEA close and the wedged serve loop.       *)
(***************************************************************************)
EXTENDS Integers, Sequences, TLC
\* (the @type comments are for Apalache, see HandshakeInd.tla; TLC ignores them)
CONSTANTS
  \* @type: Int;
  MaxRetx,
  \* @type: Int;
  MaxPeerMsgs,
  \* @type: Bool;
  IgnoreAfterDone
VARIABLES
  \* @type: Str;
  cli,      \* "start","written","sent","done_ok","done_err"
  \* @type: Int;
  i,        \* loop counter
  \* @type: Str;
  errc,     \* "open","closed"
  \* @type: Str;
  srv,      \* serve goroutine: "idle","sendErr","panicked"
  \* @type: Bool;
  meta,     \* peer metadata stored on the connection
  \* @type: Seq(Str);
  inq,      \* CEAs in flight to the client: seq of "ok" | "fail"
  \* @type: Int;
  ncer,     \* CERs written
  \* @type: Bool;
  closed,   \* transport closed by the library
  \* @type: Int;
  npeer,    \* answers produced so far
  \* @type: Bool;
  appOK     \* an application answer sent after the handshake was dispatched
vars == <<cli, i, errc, srv, meta, inq, ncer, closed, npeer, appOK>>

Init == /\ cli = "start" /\ i = 0 /\ errc = "open" /\ srv = "idle" /\ meta = FALSE /\ inq = <<>>
        /\ ncer = 0 /\ closed = FALSE /\ npeer = 0 /\ appOK = FALSE

WriteCER == /\ cli = "start" /\ i <= MaxRetx /\ ~closed
            /\ ncer' = ncer + 1 /\ cli' = "written"
            /\ UNCHANGED <<i, errc, srv, meta, inq, closed, npeer, appOK>>
EnterSelect == /\ cli = "written" /\ cli' = "sent"
               /\ UNCHANGED <<i, errc, srv, meta, inq, ncer, closed, npeer, appOK>>
\* a write on a transport that has meanwhile been closed fails: handshake returns the error
SendFails == /\ cli = "start" /\ i <= MaxRetx /\ closed
             /\ cli' = "done_err" /\ UNCHANGED <<i, errc, srv, meta, inq, ncer, closed, npeer, appOK>>
RecvClosed == /\ cli = "sent" /\ errc = "closed" /\ cli' = "done_ok"
              /\ UNCHANGED <<i, errc, srv, meta, inq, ncer, closed, npeer, appOK>>
RecvErr == /\ cli = "sent" /\ srv = "sendErr" /\ errc = "open"
           /\ cli' = "done_err" /\ errc' = "closed" /\ closed' = TRUE /\ srv' = "idle"
           /\ UNCHANGED <<i, meta, inq, ncer, npeer, appOK>>
Timer == /\ cli = "sent" /\ i' = i + 1
         /\ IF i + 1 > MaxRetx THEN cli' = "done_err" /\ closed' = TRUE ELSE cli' = "start" /\ UNCHANGED closed
         /\ UNCHANGED <<errc, srv, meta, inq, ncer, npeer, appOK>>
Peer(k) == /\ ncer > 0 /\ npeer < MaxPeerMsgs /\ ~closed
           /\ inq' = Append(inq, k) /\ npeer' = npeer + 1
           /\ UNCHANGED <<cli, i, errc, srv, meta, ncer, closed, appOK>>
HandleCEA ==
  /\ srv = "idle" /\ inq # <<>> /\ ~closed
  /\ inq' = Tail(inq)
  /\ IF IgnoreAfterDone /\ meta THEN UNCHANGED <<errc, srv, meta, closed>>                      \* late / duplicate CEA: ignored
     ELSE IF Head(inq) = "fail" THEN srv' = "sendErr" /\ UNCHANGED <<errc, meta, closed>>         \* errc <- err (blocks)
     ELSE IF errc = "closed" THEN srv' = "panicked" /\ closed' = TRUE /\ UNCHANGED <<errc, meta>> \* close of closed channel
     ELSE errc' = "closed" /\ meta' = TRUE /\ UNCHANGED <<srv, closed>>
  /\ UNCHANGED <<cli, i, ncer, npeer, appOK>>
SendOnClosed == /\ srv = "sendErr" /\ errc = "closed" /\ srv' = "panicked" /\ closed' = TRUE
                /\ UNCHANGED <<cli, i, errc, meta, inq, ncer, npeer, appOK>>
\* the peer disconnects instead of answering (before any CEA was accepted): the serve goroutine reads EOF and closes the transport; the dialling
\* goroutine notices at its next transmission (SendFails) or runs into its timers
PeerEOF == /\ ncer > 0 /\ ~closed /\ srv = "idle" /\ inq = <<>> /\ errc = "open" /\ ~meta /\ cli \notin {"done_ok", "done_err"}
           /\ closed' = TRUE
           /\ UNCHANGED <<cli, i, errc, srv, meta, inq, ncer, npeer, appOK>>
AppAnswer == /\ cli = "done_ok" /\ srv = "idle" /\ inq = <<>> /\ ~closed /\ appOK' = TRUE
             /\ UNCHANGED <<cli, i, errc, srv, meta, inq, ncer, closed, npeer>>
Next == WriteCER \/ EnterSelect \/ SendFails \/ RecvClosed \/ RecvErr \/ Timer \/ (\E k \in {"ok", "fail"} : Peer(k)) \/ HandleCEA \/ SendOnClosed \/ AppAnswer \/ PeerEOF
Spec == Init /\ [][Next]_vars

\* HandshakeObs at design level
Bounded       == ncer <= MaxRetx + 1
FailClosed    == cli = "done_err" => closed
OkOnlyAfterOk == cli = "done_ok" => meta
StableAfterOK == cli = "done_ok" => ~closed                          \* stays open whatever extra CEAs arrive
NotStuck      == (cli = "done_ok" /\ inq = <<>>) => srv # "sendErr"  \* the serve loop is not wedged
Dispatchable  == (cli = "done_ok" /\ inq = <<>> /\ ~closed) => ENABLED AppAnswer
=============================================================================
