-------------------------- MODULE HandshakeImplTrace --------------------------
(***************************************************************************)
(* Conformance of recorded client handshakes to HandshakeImpl (C12): the   *)
(* merged log of what the scripted peer did (peer{k}: a CEA that validates *)
(* "ok" or not "fail", logged before it is delivered; app: the application *)
(* answer) and of the library's internal events (verif hook in             *)
(* diam/sm: hs.send, hs.timer, hs.timeout, hs.ok, hs.fail, hs.writefail,   *)
(* cea.ok, cea.fail, cea.ignore) must be a behaviour of HandshakeImpl.     *)
(***************************************************************************)
EXTENDS HandshakeImpl, Json
Trace == ndJsonDeserialize("trace.ndjson")
VARIABLE l
Ev(name) == l <= Len(Trace) /\ Trace[l].ev = name /\ l' = l + 1
Stutter == UNCHANGED vars
TReset == /\ Ev("reset")
          /\ cli' = "start" /\ i' = 0 /\ errc' = "open" /\ srv' = "idle" /\ meta' = FALSE /\ inq' = <<>>
          /\ ncer' = 0 /\ closed' = FALSE /\ npeer' = 0 /\ appOK' = FALSE /\ crashed' = FALSE
\* the CER is on the wire before hs.send is logged: WriteCER is silent, hs.send = the goroutine reaches its select
TSend    == Ev("hs.send") /\ EnterSelect
\* hs.fail is logged between the receive and the close of errc: the close (CloseErrc) is silent
Silent   == l <= Len(Trace) /\ UNCHANGED l /\ (WriteCER \/ SendOnClosed \/ CloseErrc \/ RecvErr \/ CloseAfterWFail)
\* hs.writefail is logged before the transport is closed: on a closed transport (SendFails) or on a healthy one
TWFail   == Ev("hs.writefail") /\ (SendFails \/ WriteFails)
TTimer   == Ev("hs.timer") /\ Timer
TTimeout == Ev("hs.timeout") /\ cli = "done_err" /\ Stutter
TOk      == Ev("hs.ok") /\ RecvClosed
\* the receive from errc is the linearization point, the hook line is written after it: the serve goroutine
\* (released by the receive) may log its next event first
TFail    == Ev("hs.fail") /\ (RecvErr \/ (cli \in {"failing", "done_err"} /\ Stutter))
TPeer    == Ev("peer") /\ Peer(Trace[l].k)
TCeaOk   == Ev("cea.ok") /\ inq # <<>> /\ Head(inq) = "ok" /\ ~meta /\ HandleCEA
TCeaFail == Ev("cea.fail") /\ inq # <<>> /\ Head(inq) = "fail" /\ ~meta /\ HandleCEA
TCeaIgn  == Ev("cea.ignore") /\ meta /\ HandleCEA
TApp     == Ev("app") /\ AppAnswer
\* (a peer that hangs up after the dial has already returned - the harness was slow to act - changes nothing)
TEof     == Ev("peer.eof") /\ (PeerEOF \/ (cli \in {"done_ok", "done_err"} /\ Stutter))
TNext == TReset \/ TSend \/ TWFail \/ TTimer \/ TTimeout \/ TOk \/ TFail \/ TPeer \/ TCeaOk \/ TCeaFail \/ TCeaIgn \/ TApp \/ TEof \/ Silent
TInit == Init /\ l = 1 /\ TLCSet(1, 0)
NotDone == l <= Len(Trace)
HW == TLCSet(1, IF TLCGet(1) < l THEN l ELSE TLCGet(1))
Post == PrintT(<<"HIGHWATER", TLCGet(1)>>)
=============================================================================
