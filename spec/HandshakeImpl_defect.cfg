CONSTANTS MaxRetx = 2
  MaxPeerMsgs = 4
  IgnoreAfterDone = FALSE
  OnceClose = TRUE
INIT Init
NEXT Next
INVARIANTS Bounded FailClosed OkOnlyAfterOk StableAfterOK
CHECK_DEADLOCK FALSE
