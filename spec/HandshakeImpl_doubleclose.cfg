CONSTANTS MaxRetx = 2
  MaxPeerMsgs = 4
  IgnoreAfterDone = TRUE
  OnceClose = FALSE
INIT Init
NEXT Next
INVARIANTS NoCrash
CHECK_DEADLOCK FALSE
