CONSTANTS MaxRetx = 2
  MaxPeerMsgs = 4
  IgnoreAfterDone = TRUE
  OnceClose = TRUE
INIT Init
NEXT NextNoClose
INVARIANTS FailClosed
CHECK_DEADLOCK FALSE
