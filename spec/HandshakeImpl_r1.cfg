CONSTANTS MaxRetx = 2
  MaxPeerMsgs = 4
  IgnoreAfterDone = TRUE
  OnceClose = TRUE
INIT Init
NEXT Next
INVARIANTS NoCrash Bounded FailClosed OkOnlyAfterOk StableAfterOK NotStuck Dispatchable
CHECK_DEADLOCK FALSE
