CONSTANTS MaxRetx = 2
  MaxPeerMsgs = 4
  IgnoreAfterDone = TRUE
INIT Init
NEXT Next
INVARIANTS Bounded FailClosed OkOnlyAfterOk StableAfterOK NotStuck Dispatchable
CHECK_DEADLOCK FALSE
