---------------------------- MODULE HandshakeInd ----------------------------
(***************************************************************************)
(* Unbounded safety of HandshakeImpl (repaired code: IgnoreAfterDone):     *)
(* an inductive invariant discharged by Apalache for ANY retransmission    *)
(* budget (the peer sends at most MaxPeerMsgs <= 3 CEAs, which bounds the  *)
(* queue).  It implies Bounded, FailClosed, OkOnlyAfterOk, StableAfterOK   *)
(* and NotStuck; TLC checks those exhaustively for small constants only.   *)
(*   apalache-mc check --init=IndInit --inv=IndInv --length=1 --cinit=CInit HandshakeInd.tla  (step)  *)
(*   apalache-mc check --init=Init    --inv=IndInv --length=0 --cinit=CInit HandshakeInd.tla  (base)  *)
(***************************************************************************)
EXTENDS HandshakeImpl

CInit == MaxRetx \in 0..1000 /\ MaxPeerMsgs \in 0..3 /\ IgnoreAfterDone = TRUE /\ OnceClose = TRUE
\* sensitivity: the original handleCEA (late CEAs not ignored) does not preserve it
CInitOriginal == MaxRetx \in 0..1000 /\ MaxPeerMsgs \in 0..3 /\ IgnoreAfterDone = FALSE /\ OnceClose = TRUE

Cli == {"start", "written", "sent", "wfailed", "failing", "done_ok", "done_err"}
Queues == {<<>>} \cup {<<a>> : a \in {"ok", "fail"}} \cup {<<a, b>> : a, b \in {"ok", "fail"}}
            \cup {<<a, b, c>> : a, b, c \in {"ok", "fail"}}
TypeOK == /\ cli \in Cli /\ i \in 0..(MaxRetx + 1) /\ errc \in {"open", "closed"} /\ srv \in {"idle", "sendErr", "panicked"}
          /\ meta \in BOOLEAN /\ closed \in BOOLEAN /\ appOK \in BOOLEAN /\ crashed \in BOOLEAN
          /\ inq \in Queues /\ ncer \in 0..(MaxRetx + 1) /\ npeer \in 0..MaxPeerMsgs /\ Len(inq) <= npeer
IndInv == /\ TypeOK
          /\ (cli \in {"start", "wfailed"}) => (ncer = i /\ i <= MaxRetx)
          /\ (cli \in {"written", "sent", "failing"}) => (ncer = i + 1 /\ i <= MaxRetx)
          /\ ~crashed
          /\ (cli = "done_err") => closed
          /\ (errc = "closed") => (meta \/ cli = "done_err")
          /\ (srv = "sendErr") => ~meta
          /\ (srv = "sendErr" /\ errc = "closed") => cli = "done_err"     \* a further failing CEA behind the first: its send panics, recovered
          /\ (meta /\ closed) => cli = "done_err"
          /\ (cli = "done_ok") => (meta /\ errc = "closed")
          /\ (srv = "panicked") => cli = "done_err"
IndInit == /\ cli \in Cli /\ i \in 0..(MaxRetx + 1) /\ errc \in {"open", "closed"} /\ srv \in {"idle", "sendErr", "panicked"}
           /\ meta \in BOOLEAN /\ closed \in BOOLEAN /\ appOK \in BOOLEAN /\ crashed \in BOOLEAN
           /\ inq \in Queues /\ ncer \in 0..(MaxRetx + 1) /\ npeer \in 0..MaxPeerMsgs
           /\ IndInv
Implied == IndInv => (NoCrash /\ Bounded /\ FailClosed /\ OkOnlyAfterOk /\ StableAfterOK /\ NotStuck)
=============================================================================
