---------------------------- MODULE HandshakeTrace ----------------------------
(* R3 for C12: observations of a real sm.Client dial against Handshake!Reasons. *)
EXTENDS Handshake, Json
Trace == ndJsonDeserialize("trace.ndjson")
VARIABLE l
Init == l = 1
Next == /\ l <= Len(Trace)
        /\ l' = l + 1
        /\ LET e == Trace[l]  r == Reasons(e.script, e.obs, e.want) IN r = <<>> \/ PrintT(<<"BADLINE", l, r>>)
=============================================================================
