------------------------------ MODULE Isolation ------------------------------
(***************************************************************************)
(* IsolationObs (C15) on one recorded scenario.                            *)
(* conns[c] = [msgs, fault (kind none|panic|bad|badbody|eof|eofmid, pos),  *)
(*             eofbody = disconnect inside a message body: an abrupt         *)
(*             disconnect; whether it is also reported as undecodable input  *)
(*             is left open (the code reports a cut body, not a cut header)  *)
(*             answered (hop-by-hop ids answered, in order), closed]       *)
(* fault kinds tlsstall / tlsbad: a TLS listener, the peer stalls in / fails *)
(* the TLS handshake (harness/drivers/tlsiso.go).                          *)
(* plus reports (error reports offered), accepted, serve_returned, died.   *)
(***************************************************************************)
EXTENDS Integers, Sequences, FiniteSets, TLC
Upto(n) == [i \in 1..n |-> i]
CountBad(cs) == Cardinality({c \in 1..Len(cs) : cs[c].fault.kind \in {"bad", "badbody", "toodeep", "shortlen", "avplen4", "badw"}})
Reasons(e) ==
  IF e.died THEN <<"process-died">> ELSE
     (IF e.accepted # Len(e.conns) THEN <<"connection-not-accepted">> ELSE <<>>)
  \o (IF e.serve_returned THEN <<"serve-returned">> ELSE <<>>)
  \o (IF \E c \in 1..Len(e.conns) : e.conns[c].fault.kind = "none" /\ e.conns[c].answered # Upto(e.conns[c].msgs) THEN <<"healthy-not-served">> ELSE <<>>)
  \o (IF \E c \in 1..Len(e.conns) : e.conns[c].fault.kind = "none" /\ e.conns[c].closed THEN <<"healthy-closed">> ELSE <<>>)
  \* (a peer stalling in its TLS handshake has done nothing the server could close it for)
  \o (IF \E c \in 1..Len(e.conns) : e.conns[c].fault.kind \notin {"none", "tlsstall"} /\ ~e.conns[c].closed THEN <<"faulty-not-closed">> ELSE <<>>)
  \o (IF \E c \in 1..Len(e.conns) : e.conns[c].fault.kind # "none" /\ e.conns[c].answered # Upto(e.conns[c].fault.pos - 1) THEN <<"before-fault-not-served">> ELSE <<>>)
  \o (IF \E c \in 1..Len(e.conns) : ~e.conns[c].intact THEN <<"answer-carries-another-connections-data">> ELSE <<>>)
  \* (when nobody reads the reports, one sits in the slot and the others were dropped by design)
  \o (IF e.reports < (IF e.note = "undrained" THEN 1 ELSE CountBad(e.conns)) THEN <<"undecodable-not-reported">> ELSE <<>>)
=============================================================================
