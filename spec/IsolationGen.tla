---------------------------- MODULE IsolationGen ----------------------------
(* R2 for C15: placements of one or two faults among several connections, and temporary accept errors. *)
EXTENDS Integers, Sequences, FiniteSets, TLC, Json
CONSTANTS MaxConns, MaxMsgs, MaxFaults
VARIABLE s
Kinds == {"panic", "bad", "badbody", "toodeep", "eof", "eofmid", "eofbody", "shortlen", "avplen4", "badw"}
None == [kind |-> "none", pos |-> 0]
FaultSets(k, m) == {f \in [1..k -> {None} \cup {[kind |-> kd, pos |-> p] : kd \in Kinds, p \in 1..m}] :
                      Cardinality({c \in 1..k : f[c].kind # "none"}) \in 1..MaxFaults}
\* temporary accept errors before the first, between, and after the last accepted connection
TempPatterns(k) == {[i \in 1..(k + 1) |-> 0], [i \in 1..(k + 1) |-> IF i = 1 THEN 1 ELSE 0],
                    [i \in 1..(k + 1) |-> IF i = 2 THEN 3 ELSE 0], [i \in 1..(k + 1) |-> IF i = k + 1 THEN 2 ELSE 1]}
\* a long burst: the back-off reaches its one-second cap (5 ms doubling: the 9th error in a row)
LongBurst == {[conns |-> 2, msgs |-> 2, faults |-> <<None, [kind |-> "eof", pos |-> 2]>>, temps |-> <<0, 10, 0>>, sm |-> FALSE]}
\* TLS listener: faults in the TLS handshake (a peer that stalls in it for ever, a peer that fails it) before,
\* between and after healthy peers; connections are made one after the other, each sends one request
T(k) == [kind |-> k, pos |-> IF k = "none" THEN 0 ELSE 1]
TLSOrders == {<<"none", "tlsstall", "none">>, <<"none", "tlsbad", "none">>, <<"tlsstall", "tlsbad", "none", "none">>,
              <<"tlsstall", "tlsstall", "none">>, <<"tlsbad", "tlsstall", "none">>}
TLSCases == {[conns |-> Len(o), msgs |-> 1, faults |-> [i \in 1..Len(o) |-> T(o[i])], temps |-> [i \in 1..(Len(o) + 1) |-> 0], sm |-> FALSE] : o \in TLSOrders}
\* a Server without a Handler of its own (diam.Serve(l, nil)): the DefaultServeMux serves, and reports through diam.ErrorReports()
DefMuxCases == {[conns |-> 2, msgs |-> 2, faults |-> <<None, [kind |-> kd, pos |-> p]>>, temps |-> <<0, 0, 0>>, sm |-> FALSE, defmux |-> TRUE] :
                  kd \in {"bad", "badbody", "panic", "eof"}, p \in 1..2}
\* nobody reads the error reports; a handler is still running on connection 1 while connections 2 and 3 send
\* undecodable input (the second report is dropped by design) and connection 4 sends a request
UndrainedCases == {[conns |-> 4, msgs |-> 1, faults |-> <<None, [kind |-> "bad", pos |-> 1], [kind |-> "bad", pos |-> 1], None>>,
                    temps |-> <<0, 0, 0, 0, 0>>, sm |-> FALSE, undrained |-> TRUE]}
Cases(k, m) == {[conns |-> k, msgs |-> m, faults |-> f, temps |-> t, sm |-> FALSE] : f \in FaultSets(k, m), t \in TempPatterns(k)}
Init == s \in UNION {Cases(k, m) : k \in 2..MaxConns, m \in 2..MaxMsgs} \cup LongBurst \cup TLSCases \cup DefMuxCases \cup UndrainedCases
         \cup {[conns |-> 2, msgs |-> 2, faults |-> f, temps |-> <<0, 1, 0>>, sm |-> TRUE] : f \in FaultSets(2, 2)}
Next == UNCHANGED s
Emit == PrintT(ToJson(s))
=============================================================================
