CONSTANTS MaxConns = 3
  MaxMsgs = 2
  MaxFaults = 1
INIT Init
NEXT Next
INVARIANTS Emit
CHECK_DEADLOCK FALSE
