CONSTANTS MaxConns = 3
  MaxMsgs = 3
  MaxFaults = 2
INIT Init
NEXT Next
INVARIANTS Emit
CHECK_DEADLOCK FALSE
