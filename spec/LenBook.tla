------------------------------ MODULE LenBook ------------------------------
(***************************************************************************)
(* The book-keeping of Header.MessageLength (C02, last sentence): a state  *)
(* machine over the assembly operations of the public API.                 *)
(*   NewAVP(n) / AddAVP(n)  append an AVP whose payload is n bytes          *)
(*   InsertAVP(n)           put it in front                                 *)
(*   Marshal(n)             replace all AVPs by those of a two-field struct *)
(*                          (payloads n and 2 bytes)                        *)
(* starting from a fresh message or from Answer(rc) (which already holds a *)
(* Result-Code AVP).  Invariant: the length kept in the header equals      *)
(* 20 plus the padded AVP sizes, i.e. the serialised size.                 *)
(***************************************************************************)
EXTENDS Integers, Sequences, TLC, Json
CONSTANTS MaxOps, Lens
VARIABLES order,   \* sequence of [id, size]: id = index of the operation that produced the AVP, size = padded size
          hlen,    \* the length kept in the header
          hist     \* [start, ops]: the operations so far (the R2 case)
vars == <<order, hlen, hist>>

Pad4(n) == ((n + 3) \div 4) * 4
Size(n) == 8 + Pad4(n)
RECURSIVE SumSizes(_)
SumSizes(s) == IF s = <<>> THEN 0 ELSE Head(s).size + SumSizes(Tail(s))

StartOrder(st) == IF st = "answer" THEN << [id |-> 0, size |-> 12] >> ELSE <<>>
Apply(o, h, k, op) ==   \* (order, hlen) after operation number k
  LET e == [id |-> k, size |-> Size(op.n)] IN
  CASE op.op \in {"NewAVP", "AddAVP"} -> [order |-> Append(o, e), hlen |-> h + e.size]
    [] op.op = "InsertAVP"            -> [order |-> <<e>> \o o, hlen |-> h + e.size]
    [] op.op = "Marshal"              -> [order |-> <<e, [id |-> k, size |-> Size(2)]>>, hlen |-> 20 + e.size + Size(2)]

Init == \E st \in {"fresh", "answer"} :
          /\ order = StartOrder(st) /\ hlen = 20 + SumSizes(StartOrder(st))
          /\ hist = [start |-> st, ops |-> <<>>]
Next == /\ Len(hist.ops) < MaxOps
        /\ \E o \in {"NewAVP", "AddAVP", "InsertAVP", "Marshal"}, n \in Lens :
             LET op == [op |-> o, n |-> n]  r == Apply(order, hlen, Len(hist.ops) + 1, op) IN
             /\ order' = r.order /\ hlen' = r.hlen
             /\ hist' = [hist EXCEPT !.ops = Append(@, op)]
Spec == Init /\ [][Next]_vars

LengthIsSerialisedSize == hlen = 20 + SumSizes(order)
Emit == PrintT(ToJson(hist))

\* replay of a recorded history: the states after each operation
RECURSIVE Replay(_, _, _, _)
Replay(o, h, ops, k) ==
  IF k > Len(ops) THEN <<>>
  ELSE LET r == Apply(o, h, k, ops[k]) IN <<r>> \o Replay(r.order, r.hlen, ops, k + 1)
=============================================================================
