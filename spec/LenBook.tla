------------------------------ MODULE LenBook ------------------------------
(***************************************************************************)
(* The book-keeping of Header.MessageLength (C02, last sentence): a state  *)
(* machine over the assembly operations of the public API.                 *)
(*   NewAVP(n) / AddAVP(n)  append an AVP whose payload is n bytes          *)
(*   InsertAVP(n)           put it in front                                 *)
(*   Marshal(n)             replace all AVPs by those of a two-field struct *)
(*                          (payloads n and 2 bytes)                        *)
(*   AddLit(n) / InsLit(n)  AddAVP / InsertAVP of a struct literal whose    *)
(*                          Length field was never set                      *)
(*   NewVend(n) / AddVend(n) a vendor AVP created without the V bit (the    *)
(*                          constructor sets it): 12-byte header            *)
(*   AddGroupLate(n)        a grouped AVP that received its member after it *)
(*                          was created, then added                         *)
(* starting from a fresh message or from Answer(rc) (which already holds a *)
(* Result-Code AVP).  Invariant: the length kept in the header equals      *)
(* 20 plus the padded AVP sizes, i.e. the serialised size.                 *)
(***************************************************************************)
EXTENDS Integers, Sequences, TLC, Json
CONSTANTS MaxOps, Lens, FullDepth, LateOps   \* operations beyond position FullDepth are drawn from LateOps only
VARIABLES order,   \* sequence of [id, size]: id = index of the operation that produced the AVP, size = padded size
          hlen,    \* the length kept in the header
          hist     \* [start, ops]: the operations so far (the R2 case)
vars == <<order, hlen, hist>>

Pad4(n) == ((n + 3) \div 4) * 4
Size(n) == 8 + Pad4(n)
RECURSIVE SumSizes(_)
SumSizes(s) == IF s = <<>> THEN 0 ELSE Head(s).size + SumSizes(Tail(s))

StartOrder(st) == IF st = "answer" THEN << [id |-> 0, size |-> 12] >> ELSE <<>>
OpSize(op) == CASE op.op \in {"NewVend", "AddVend"} -> 4 + Size(op.n)
                 [] op.op = "AddGroupLate" -> 8 + Size(op.n)
                 [] op.op = "AddNestedLate" -> 16 + Size(op.n)     \* a group in a group, the inner one filled after the outer one was wrapped
                 [] OTHER -> Size(op.n)
AllOps == {"NewAVP", "AddAVP", "InsertAVP", "Marshal", "AddLit", "InsLit", "NewVend", "AddVend", "AddGroupLate", "AddNestedLate"}
Apply(o, h, k, op) ==   \* (order, hlen) after operation number k
  LET e == [id |-> k, size |-> OpSize(op)] IN
  CASE op.op \in {"NewAVP", "AddAVP", "AddLit", "NewVend", "AddVend", "AddGroupLate", "AddNestedLate"} -> [order |-> Append(o, e), hlen |-> h + e.size]
    [] op.op \in {"InsertAVP", "InsLit"} -> [order |-> <<e>> \o o, hlen |-> h + e.size]
    [] op.op = "Marshal"              -> [order |-> <<e, [id |-> k, size |-> Size(2)]>>, hlen |-> 20 + e.size + Size(2)]

DefaultLateOps == {[op |-> "NewAVP", n |-> 1], [op |-> "Marshal", n |-> 3], [op |-> "InsLit", n |-> 2], [op |-> "AddVend", n |-> 3]}
Init == \E st \in {"fresh", "answer"} :
          /\ order = StartOrder(st) /\ hlen = 20 + SumSizes(StartOrder(st))
          /\ hist = [start |-> st, ops |-> <<>>]
Next == /\ Len(hist.ops) < MaxOps
        /\ \E op \in (IF Len(hist.ops) < FullDepth THEN {[op |-> o, n |-> n] : o \in AllOps, n \in Lens} ELSE LateOps) :
             LET  r == Apply(order, hlen, Len(hist.ops) + 1, op) IN
             /\ order' = r.order /\ hlen' = r.hlen
             /\ hist' = [hist EXCEPT !.ops = Append(@, op)]
Spec == Init /\ [][Next]_vars

LengthIsSerialisedSize == hlen = 20 + SumSizes(order)
Emit == PrintT(ToJson(hist))

\* replay of a recorded history: the states after each operation
RECURSIVE Replay(_, _, _, _)
Replay(o, h, ops, k) ==
  IF k > Len(ops) THEN <<>>
  ELSE LET r == Apply(o, h, k, ops[k]) IN <<r>> \o Replay(r.order, r.hlen, ops, k + 1)
=============================================================================
