CONSTANTS MaxOps = 4
  Lens = {1, 2, 3, 4}
INIT Init
NEXT Next
INVARIANTS LengthIsSerialisedSize Emit
CHECK_DEADLOCK FALSE
