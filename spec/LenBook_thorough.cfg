CONSTANTS MaxOps = 3
  Lens = {1, 2, 3, 4}
  FullDepth = 3
  LateOps <- DefaultLateOps
INIT Init
NEXT Next
INVARIANTS LengthIsSerialisedSize Emit
CHECK_DEADLOCK FALSE
