------------------------------- MODULE Marshal -------------------------------
(***************************************************************************)
(* Struct marshalling (C18).  A struct value is described as a sequence of *)
(* fields [name, code, vendor, m (dictionary must contains M), kind, omit  *)
(* (omitempty), empty (zero value / nil / length 0), vals]; vals is the    *)
(* sequence of values the field contributes (none for a nil pointer, one   *)
(* for a scalar, n for a slice), each [sem, fields] with `fields` the      *)
(* description of a nested struct (grouped AVP).                           *)
(*                                                                         *)
(* MarshalSpec(fields) = the AVPs a caller would build by hand from the    *)
(* dictionary: in field order, one AVP per value, code and vendor id of    *)
(* the dictionary entry, M iff the dictionary's must contains M, V iff the *)
(* vendor id is not zero, the typed value, children for grouped AVPs;      *)
(* nothing for a field that is omitted when empty.                         *)
(***************************************************************************)
EXTENDS Integers, Sequences, SequencesExt, TLC
NoVendor == <<0, 0, 0, 0>>
RECURSIVE MarshalSpec(_)
MarshalSpec(fields) ==
  FlattenSeq([i \in 1..Len(fields) |->
     LET f == fields[i] IN
     IF f.omit /\ f.empty THEN <<>>
     ELSE [j \in 1..Len(f.vals) |->
             [code |-> f.code, flags |-> (IF f.m THEN 64 ELSE 0) + (IF f.vendor # NoVendor THEN 128 ELSE 0), vendor |-> f.vendor,
              kind |-> f.kind, sem |-> IF f.kind = "grouped" THEN <<>> ELSE f.vals[j].sem,
              kids |-> IF f.kind = "grouped" THEN MarshalSpec(f.vals[j].fields) ELSE <<>>]]])

\* values up to the identification of nil and empty slices / omitted-empty and zero
RECURSIVE Canon(_)
Canon(fields) ==
  [i \in 1..Len(fields) |->
     LET f == fields[i] IN
     [name |-> f.name,
      vals |-> IF f.empty THEN <<>> ELSE [j \in 1..Len(f.vals) |-> [sem |-> f.vals[j].sem, fields |-> Canon(f.vals[j].fields)]]]]

Reasons(e) ==
  IF ~e.mok THEN <<"marshal-failed">>
  ELSE (IF e.avps # MarshalSpec(e.value) THEN <<"avps-differ-from-hand-built">> ELSE <<>>)
    \o (IF e.hlen # e.slen THEN <<"message-length">> ELSE <<>>)
    \o (IF ~e.uok THEN <<"unmarshal-failed">> ELSE IF Canon(e.back) # Canon(e.value) THEN <<"round-trip">> ELSE <<>>)
    \o (IF ~e.wok THEN <<"wire-unmarshal-failed">> ELSE IF Canon(e.back2) # Canon(e.value) THEN <<"wire-round-trip">> ELSE <<>>)
    \* the message owns what Marshal put into it: giving the struct other values afterwards (to reuse it for the
    \* next request) leaves the message as it was
    \o (IF ~e.stable THEN <<"message-follows-the-struct">> ELSE <<>>)
=============================================================================
