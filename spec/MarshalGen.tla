----------------------------- MODULE MarshalGen -----------------------------
(* R2 for C18: for every struct type of the family, every choice vector (value class per choice point: zero / boundary / ordinary, *)
(* nil / set, slice length 0..2), built up one choice per transition.                                                              *)
EXTENDS Integers, Sequences, TLC, Json
CONSTANT Cap        \* longest choice vector enumerated exhaustively per type
VARIABLE c
Types == << <<"Scalars", 5>>, <<"Floats", 4>>, <<"Datatypes", 6>>, <<"Addresses", 3>>, <<"NewTypes", 2>>, <<"Pointers", 9>>, <<"Slices", 5>>,
            <<"Nested", 6>>, <<"SliceNested", 4>>, <<"Embedded", 3>>, <<"Omit", 8>>, <<"Vendor", 4>>, <<"AVPs", 5>>,
            <<"VendorOdd", 2>>, <<"EmbeddedLate", 4>>, <<"BaseGroup", 3>>, <<"EmbeddedTagged", 3>>, <<"BaseVSA", 3>>, <<"DatatypeConv", 3>>, <<"Repeat", 4>>, <<"SignedU32", 2>>, <<"EmptyGroups", 6>>, <<"BaseShadow", 2>> >>
LenOf(n) == LET L == Types[n][2] IN IF L > Cap THEN Cap ELSE L
Init == c \in {[type |-> Types[n][1], vec |-> <<>>, n |-> n] : n \in 1..Len(Types)}
Next == /\ Len(c.vec) < LenOf(c.n) /\ \E k \in 0..2 : c' = [c EXCEPT !.vec = Append(@, k)]
Emit == Len(c.vec) < LenOf(c.n) \/ PrintT(ToJson([type |-> c.type, vec |-> c.vec]))
=============================================================================
