----------------------------- MODULE MarshalTrace -----------------------------
EXTENDS Marshal, Json
Trace == ndJsonDeserialize("trace.ndjson")
VARIABLE l
Init == l = 1
Next == /\ l <= Len(Trace)
        /\ l' = l + 1
        /\ LET r == Reasons(Trace[l]) IN r = <<>> \/ PrintT(<<"BADLINE", l, r>>)
=============================================================================
