-------------------------------- MODULE Mux --------------------------------
(***************************************************************************)
(* The dispatch decision of diam.ServeMux (C09).                           *)
(* A registration is [t, app, code, req, name, hid]: t = "idx" (exact      *)
(* application, code, request bit), "name" (dictionary short name + R/A)   *)
(* or "all"; hid identifies the handler.  regs is the SEQUENCE of          *)
(* registrations performed: registering a key again replaces the handler.  *)
(* Dispatch = the handler for the exact index, else for the short name,    *)
(* else the catch-all, else 0 (no handler runs, an error report is         *)
(* offered).                                                               *)
(***************************************************************************)
EXTENDS Integers, Sequences, TLC

SameKey(a, b) == a.t = b.t /\ a.app = b.app /\ a.code = b.code /\ a.req = b.req /\ a.name = b.name
Key(t, app, code, req, name) == [t |-> t, app |-> app, code |-> code, req |-> req, name |-> name]

\* handler currently registered under key k: the LAST registration wins; 0 if none
RECURSIVE Last(_, _)
Last(regs, k) == IF regs = <<>> THEN 0
                 ELSE LET r == regs[Len(regs)] IN
                      IF SameKey(r, k) THEN r.hid ELSE Last(SubSeq(regs, 1, Len(regs) - 1), k)

NameOf(m, short) == short \o (IF m.req THEN "R" ELSE "A")
Dispatch(regs, m, short) ==
  LET i == Last(regs, Key("idx", m.app, m.code, m.req, ""))
      n == Last(regs, Key("name", 0, 0, FALSE, NameOf(m, short)))
      a == Last(regs, Key("all", 0, 0, FALSE, ""))
  IN IF i # 0 THEN i ELSE IF n # 0 THEN n ELSE a

\* MuxObs: exactly one thing happens
ObsOK(regs, m, short, fired, reports) ==
  LET d == Dispatch(regs, m, short) IN
  IF d # 0 THEN fired = <<d>> /\ reports = 0 ELSE fired = <<>> /\ reports = 1
=============================================================================
