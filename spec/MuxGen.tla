------------------------------- MODULE MuxGen -------------------------------
(***************************************************************************)
(* R1/R2 for C09 as a state machine: Register(key) appends a registration, *)
(* the message under dispatch is fixed in Init.  Every reachable state is  *)
(* one case (registration history + message); the key neighbourhood of a   *)
(* message is its own index / name / ALL and the neighbours differing in   *)
(* application, code or R bit.  Registering in canonical key order visits  *)
(* every subset once; a second pass re-registers keys (new handler ids) to *)
(* exercise replacement.                                                   *)
(***************************************************************************)
EXTENDS Mux, FiniteSets, Json
CONSTANTS Msgs,        \* set of [app, code, req, short, ocode, oshort, oapp]
          MaxRereg     \* how many keys may be registered a second time
VARIABLES m, regs, nextKey, rereg
vars == <<m, regs, nextKey, rereg>>

\* the neighbourhood, in canonical order
Keys(x) == << Key("idx", x.app, x.code, x.req, ""),
              Key("idx", x.app, x.code, ~x.req, ""),
              Key("idx", x.oapp, x.code, x.req, ""),
              Key("idx", x.app, x.ocode, x.req, ""),
              Key("name", 0, 0, FALSE, NameOf(x, x.short)),
              Key("name", 0, 0, FALSE, NameOf([x EXCEPT !.req = ~x.req], x.short)),
              Key("name", 0, 0, FALSE, NameOf(x, x.oshort)),
              Key("all", 0, 0, FALSE, "") >>

M(app, code, req, short, ocode, oshort, oapp) ==
  [app |-> app, code |-> code, req |-> req, short |-> short, ocode |-> ocode, oshort |-> oshort, oapp |-> oapp]
\* a command the dictionary defines neither for the message's application nor for base has no
\* short name (short = ""): only the catch-all can serve it.  Its own index keys are not
\* registered (such a message cannot be read from a connection; the index clause is not judged).
Known(x) == x.short # ""
\* requests and answers; base and application-specific commands; an application id whose
\* command resolves through the base dictionary (4/257, 16777251/280)
DefaultMsgs == { M(0, 257, TRUE, "CE", 280, "DW", 4), M(0, 257, FALSE, "CE", 280, "DW", 4),
                 M(4, 272, TRUE, "CC", 257, "CE", 0), M(4, 272, FALSE, "CC", 257, "CE", 16777251),
                 M(4, 257, TRUE, "CE", 272, "CC", 0), M(16777251, 280, FALSE, "DW", 316, "UL", 0),
                 \* Credit-Control (defined for application 4 only) under S6a / under Gx, whose AVP lookups have parent 4
                 M(16777251, 272, TRUE, "", 316, "CC", 4), M(16777238, 265, FALSE, "", 272, "AA", 1),
                 \* base commands under an application id no dictionary defines (they resolve through base);
                 \* the neighbouring index key is the same command under application 0
                 M(99999, 257, TRUE, "CE", 280, "DW", 0), M(99999, 280, FALSE, "DW", 257, "CE", 0),
                 \* a user dictionary (application 4242) with short names of three letters and of one; the neighbouring
                 \* name is a prefix / an extension of the message's own
                 M(4242, 901, TRUE, "LCS", 903, "LC", 0), M(4242, 903, FALSE, "LC", 901, "LCS", 0), M(4242, 902, TRUE, "Q", 903, "LC", 0) }

Init == m \in Msgs /\ regs = <<>> /\ nextKey = 1 /\ rereg = 0
\* sp = spelling used to register: the catch-all can be registered as Handle("ALL", h) or as
\* HandleIdx(ALL_CMD_INDEX, h); both name the same key
Reg(k, hid, sp) == [t |-> k.t, app |-> k.app, code |-> k.code, req |-> k.req, name |-> k.name, hid |-> hid, sp |-> sp]
Spellings(k) == IF k.t = "all" THEN {"handle", "handleidx"} ELSE {"handle"}
\* first pass: decide for each key of the neighbourhood, in order, whether to register it
Register == /\ nextKey <= Len(Keys(m)) /\ (Known(m) \/ nextKey \notin {1, 2, 5, 6})
            /\ \E sp \in Spellings(Keys(m)[nextKey]) : regs' = Append(regs, Reg(Keys(m)[nextKey], nextKey, sp))
            /\ nextKey' = nextKey + 1
            /\ UNCHANGED <<m, rereg>>
Skip == /\ nextKey <= Len(Keys(m)) /\ nextKey' = nextKey + 1 /\ UNCHANGED <<m, regs, rereg>>
\* second pass: register an already registered key again, with a new handler
ReRegister == /\ nextKey > Len(Keys(m)) /\ rereg < MaxRereg
              /\ \E i \in 1..Len(regs) : regs[i].hid < 100 /\ Last(regs, regs[i]) = regs[i].hid
                    /\ \E sp \in Spellings(regs[i]) : regs' = Append(regs, [regs[i] EXCEPT !.hid = 100 + 10 * rereg + regs[i].hid, !.sp = sp])
              /\ rereg' = rereg + 1 /\ UNCHANGED <<m, nextKey>>
Next == Register \/ Skip \/ ReRegister
Spec == Init /\ [][Next]_vars

\* R1: the decision is a registered handler or none, and precedence is index > name > catch-all
DecisionSound ==
  LET d == Dispatch(regs, m, m.short) IN
  /\ d = 0 \/ \E i \in 1..Len(regs) : regs[i].hid = d
  /\ d = 0 <=> /\ Last(regs, Keys(m)[1]) = 0 /\ Last(regs, Keys(m)[5]) = 0 /\ Last(regs, Keys(m)[8]) = 0
  /\ Last(regs, Keys(m)[1]) # 0 => d = Last(regs, Keys(m)[1])
Emit == nextKey <= Len(Keys(m)) \/ PrintT(ToJson([msg |-> [app |-> m.app, code |-> m.code, req |-> m.req], short |-> m.short, regs |-> regs]))
=============================================================================
