CONSTANTS
  Msgs <- DefaultMsgs
  MaxRereg = 1
INIT Init
NEXT Next
INVARIANTS DecisionSound Emit
CHECK_DEADLOCK FALSE
