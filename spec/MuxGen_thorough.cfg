CONSTANTS
  Msgs <- DefaultMsgs
  MaxRereg = 2
INIT Init
NEXT Next
INVARIANTS DecisionSound Emit
CHECK_DEADLOCK FALSE
