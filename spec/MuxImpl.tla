------------------------------ MODULE MuxImpl ------------------------------
(***************************************************************************)
(* ServeMux under concurrency, implementation-shaped (diam/server.go):     *)
(* ServeDIAM takes the read lock of mux.mu, looks the handler up and CALLS *)
(* it with the read lock still held (defer RUnlock); Handle / HandleIdx    *)
(* take the write lock, overwrite one map entry and release.  The lock is  *)
(* Go's sync.RWMutex: writers queue on an inner mutex, the first announces *)
(* itself, and from the announcement on no new reader enters until that    *)
(* writer has released (writer preference).                                *)
(*                                                                         *)
(* Dispatchers D (one per connection: conn.serve calls the handler         *)
(* synchronously) and registrars R (application goroutines, and every      *)
(* sm.Client dial, which registers "CEA" / "DWA" on the shared mux).       *)
(*   dispatcher:  idle -call-> want -RLock-> locked -Lookup-> inh / nohandler *)
(*                inh -HandlerEnd-> ret -RUnlock-> unl -Return-> idle      *)
(*   registrar:   idle -call-> want -WMutex-> announced -Acquire-> holding *)
(*                -Update-> updated -Unlock-> unl -Return-> idle           *)
(* Locked = FALSE is the sensitivity variant without mux.mu: a lookup      *)
(* overlapping an update is a concurrent map read and write, which the Go  *)
(* runtime turns into a fatal error (crashed).                             *)
(***************************************************************************)
EXTENDS Mux, FiniteSets
CONSTANTS D, R,          \* dispatcher and registrar process ids (disjoint)
          Msgs,          \* the [msg, short] records a dispatcher may be given
          Regs,          \* the registrations (records as in Mux, with hid) a registrar may perform
          MaxCalls,      \* calls per dispatcher
          MaxRegs,       \* calls per registrar
          Locked         \* TRUE: as the code; FALSE: no lock (sensitivity)
VARIABLES pc,            \* process -> control state
          table,         \* sequence of registrations applied, in order (Mux!Dispatch reads it)
          readers,       \* dispatchers holding the read lock
          wmutex,        \* registrar past the writers' inner mutex (announced or holding), or "none"
          calls,         \* process -> calls begun
          cur,           \* dispatcher -> the [msg, short] of its current call
          arg,           \* registrar -> the registration of its current call
          sawhid,        \* dispatcher -> handler id the current call found (0: none)
          atcall,        \* dispatcher -> Len(table) when the current call began (history)
          updating,      \* a registrar is in the middle of the map write
          crashed
vars == <<pc, table, readers, wmutex, calls, cur, arg, sawhid, atcall, updating, crashed>>

Init == /\ pc = [p \in D \cup R |-> "idle"] /\ table = <<>> /\ readers = {} /\ wmutex = "none"
        /\ calls = [p \in D \cup R |-> 0] /\ sawhid = [p \in D |-> 0] /\ atcall = [p \in D |-> 0]
        /\ updating = FALSE /\ crashed = FALSE
        /\ cur \in [D -> Msgs] /\ arg \in [R -> Regs]

\* ---- dispatcher
DCall(p, m) == /\ pc[p] = "idle" /\ calls[p] < MaxCalls
               /\ pc' = [pc EXCEPT ![p] = "want"] /\ calls' = [calls EXCEPT ![p] = @ + 1]
               /\ cur' = [cur EXCEPT ![p] = m]
               /\ atcall' = [atcall EXCEPT ![p] = Len(table)]
               /\ UNCHANGED <<table, readers, wmutex, arg, sawhid, updating, crashed>>
\* no new reader once a writer has announced itself
RLock(p) == /\ pc[p] = "want" /\ (Locked => wmutex = "none")
            /\ pc' = [pc EXCEPT ![p] = "locked"] /\ readers' = readers \cup {p}
            /\ UNCHANGED <<cur, arg, table, wmutex, calls, sawhid, atcall, updating, crashed>>
Lookup(p) == /\ pc[p] = "locked"
             /\ LET d == Dispatch(table, cur[p].msg, cur[p].short) IN
                /\ sawhid' = [sawhid EXCEPT ![p] = d]
                /\ pc' = [pc EXCEPT ![p] = IF d = 0 THEN "ret" ELSE "inh"]
             /\ crashed' = (crashed \/ updating)
             /\ UNCHANGED <<cur, arg, table, readers, wmutex, calls, atcall, updating>>
HandlerEnd(p) == /\ pc[p] = "inh" /\ pc' = [pc EXCEPT ![p] = "ret"]
                 /\ UNCHANGED <<cur, arg, table, readers, wmutex, calls, sawhid, atcall, updating, crashed>>
\* a handler that panics: the deferred RUnlock still runs (HandlerEnd covers it: the dispatcher goes on to "ret").
\* Sensitivity only (NextLeak): an explicit unlock after the call instead of the deferred one is skipped by the panic,
\* conn.serve recovers, and the read lock stays held for ever
PanicLeak(p) == /\ pc[p] = "inh" /\ pc' = [pc EXCEPT ![p] = "idle"]
                /\ UNCHANGED <<cur, arg, table, readers, wmutex, calls, sawhid, atcall, updating, crashed>>
RUnlock(p) == /\ pc[p] = "ret" /\ pc' = [pc EXCEPT ![p] = "unl"] /\ readers' = readers \ {p}
              /\ UNCHANGED <<cur, arg, table, wmutex, calls, sawhid, atcall, updating, crashed>>
DReturn(p) == /\ pc[p] = "unl" /\ pc' = [pc EXCEPT ![p] = "idle"]
              /\ UNCHANGED <<cur, arg, table, readers, wmutex, calls, sawhid, atcall, updating, crashed>>

\* ---- registrar
RCall(r, g) == /\ pc[r] = "idle" /\ calls[r] < MaxRegs
               /\ pc' = [pc EXCEPT ![r] = "want"] /\ calls' = [calls EXCEPT ![r] = @ + 1]
               /\ arg' = [arg EXCEPT ![r] = g]
               /\ UNCHANGED <<table, readers, wmutex, cur, sawhid, atcall, updating, crashed>>
WMutex(r) == /\ pc[r] = "want" /\ (Locked => wmutex = "none")
             /\ pc' = [pc EXCEPT ![r] = "announced"] /\ wmutex' = IF Locked THEN r ELSE wmutex
             /\ UNCHANGED <<cur, arg, table, readers, calls, sawhid, atcall, updating, crashed>>
Acquire(r) == /\ pc[r] = "announced" /\ (Locked => readers = {})
              /\ pc' = [pc EXCEPT ![r] = "holding"] /\ updating' = TRUE
              /\ crashed' = (crashed \/ updating)               \* two unlocked writers
              /\ UNCHANGED <<cur, arg, table, readers, wmutex, calls, sawhid, atcall>>
Update(r) == /\ pc[r] = "holding"
             /\ table' = Append(table, arg[r])
             /\ pc' = [pc EXCEPT ![r] = "updated"] /\ updating' = FALSE
             /\ UNCHANGED <<cur, arg, readers, wmutex, calls, sawhid, atcall, crashed>>
Unlock(r) == /\ pc[r] = "updated" /\ pc' = [pc EXCEPT ![r] = "unl"]
             /\ wmutex' = IF Locked THEN "none" ELSE wmutex
             /\ UNCHANGED <<cur, arg, table, readers, calls, sawhid, atcall, updating, crashed>>
RReturn(r) == /\ pc[r] = "unl" /\ pc' = [pc EXCEPT ![r] = "idle"]
              /\ UNCHANGED <<cur, arg, table, readers, wmutex, calls, sawhid, atcall, updating, crashed>>

Next == \/ \E p \in D : (\E m \in Msgs : DCall(p, m)) \/ RLock(p) \/ Lookup(p) \/ HandlerEnd(p) \/ RUnlock(p) \/ DReturn(p)
        \/ \E r \in R : (\E g \in Regs : RCall(r, g)) \/ WMutex(r) \/ Acquire(r) \/ Update(r) \/ Unlock(r) \/ RReturn(r)
Spec == Init /\ [][Next]_vars
NextLeak == Next \/ \E p \in D : PanicLeak(p)

\* ---- properties
NoCrash == ~crashed
Exclusion == (updating => readers = {}) /\ (\A r \in R : pc[r] \in {"holding", "updated"} => (wmutex = r /\ readers = {}))
\* the table does not change under a dispatcher that holds the read lock
StableUnderReaders == [][readers # {} => table' = table]_vars
\* linearizability of a dispatch: the handler found is the one selected by a table that contains at least
\* every registration completed when the call began, and at most the registrations begun before it ended
Prefixes == {SubSeq(table, 1, n) : n \in 0..Len(table)}
SeesCompleted == \A p \in D : pc[p] \in {"inh", "ret", "unl"} =>
                    \E n \in atcall[p]..Len(table) : sawhid[p] = Dispatch(SubSeq(table, 1, n), cur[p].msg, cur[p].short)
\* the lock protocol's inductive invariant (spec/MuxLockInd.tla proves it inductive, for any number of calls, on the
\* projection of this module onto pc, readers, wmutex, updating; TLC checks it here for the bounded configurations)
LockInd == /\ readers = {p \in D : pc[p] \in {"locked", "inh", "ret"}}
           /\ \A r \in R : (pc[r] \in {"announced", "holding", "updated"}) <=> (wmutex = r)
           /\ updating <=> (\E r \in R : pc[r] = "holding")
           /\ \A r \in R : pc[r] \in {"holding", "updated"} => readers = {}
\* every holder of the read lock is inside a dispatch (so every registration eventually gets the lock)
ReadersAreRunning == \A p \in readers : pc[p] \in {"locked", "inh", "ret"}
\* what the code does NOT guarantee (sensitivity: must be violated): a dispatcher is never kept waiting while
\* no registrar is inside its update, i.e. a handler held on one connection never delays another connection.
\* With a registration announced behind a running handler, every other dispatch waits for that handler.
NeverWaitsBehindHandler == \A p \in D : ~(pc[p] = "want" /\ wmutex # "none" /\ pc[wmutex] = "announced" /\ readers # {})
=============================================================================
