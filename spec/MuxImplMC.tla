----------------------------- MODULE MuxImplMC -----------------------------
(* Constants of the exhaustive MuxImpl configurations (records cannot be written in a .cfg). *)
EXTENDS MuxImpl
Reg(t, app, code, req, name, hid) == [t |-> t, app |-> app, code |-> code, req |-> req, name |-> name, hid |-> hid]
CCR == [msg |-> [app |-> 4, code |-> 272, req |-> TRUE], short |-> "CC"]
CCA == [msg |-> [app |-> 4, code |-> 272, req |-> FALSE], short |-> "CC"]
MCD == {"d1", "d2"}
MCR == {"r1", "r2"}
MCMsgs == {CCR}
\* the request by name, by index, the catch-all, and the request's index again (replacement)
MCRegs == {Reg("name", 0, 0, FALSE, "CCR", 1), Reg("idx", 4, 272, TRUE, "", 2), Reg("all", 0, 0, FALSE, "", 3), Reg("idx", 4, 272, TRUE, "", 4)}
MCRegs3 == {Reg("idx", 4, 272, TRUE, "", 2), Reg("all", 0, 0, FALSE, "", 3), Reg("idx", 4, 272, TRUE, "", 4)}
\* cur / arg of an idle process are don't-cares: one initial value
MCInit == Init /\ cur = [p \in D |-> CCR] /\ arg = [r \in R |-> Reg("all", 0, 0, FALSE, "", 3)]
MCSpec == MCInit /\ [][Next]_vars
MCSpecLeak == MCInit /\ [][NextLeak]_vars
=============================================================================
