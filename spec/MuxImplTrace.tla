--------------------------- MODULE MuxImplTrace ---------------------------
(***************************************************************************)
(* Conformance of recorded concurrent histories of a real diam.ServeMux to *)
(* MuxImpl (registration concurrent with dispatch).  The harness logs, in  *)
(* one total order (a global log lock), the start and the end of every     *)
(* ServeDIAM and Handle / HandleIdx call and the start and the end of      *)
(* every handler run (with the handler's id).  The lock operations and the *)
(* map accesses in between are not logged: they are silent steps, and TLC  *)
(* searches for an interleaving of them that explains the log.  A log in   *)
(* which a dispatch ran a handler that no such interleaving explains - one *)
(* replaced by a registration that had returned before the dispatch began, *)
(* one whose registration began after the dispatch returned, a handler of  *)
(* another key - is rejected.                                              *)
(* Two configurations: Locked = FALSE decides (the lock steps constrain    *)
(* nothing: the log must be linearizable - every dispatch runs the handler *)
(* selected by the registrations completed before some point between its   *)
(* call and its handler's start - which any correct implementation, with   *)
(* or without this lock, satisfies); Locked = TRUE additionally demands    *)
(* the code's lock discipline (no registration completes while a handler   *)
(* runs) and is reported as model drift only.                              *)
(***************************************************************************)
EXTENDS MuxImpl, Json
Trace == ndJsonDeserialize("trace.ndjson")
VARIABLE l
TD == {"d1", "d2", "d3"}
TR == {"r1", "r2"}
MsgOfLine(e) == [msg |-> [app |-> e.app, code |-> e.code, req |-> e.req], short |-> e.short]
RegOfLine(e) == [t |-> e.t, app |-> e.app, code |-> e.code, req |-> e.req, name |-> e.name, hid |-> e.hid]
NoMsg == [msg |-> [app |-> 0, code |-> 0, req |-> FALSE], short |-> ""]
NoReg == [t |-> "", app |-> 0, code |-> 0, req |-> FALSE, name |-> "", hid |-> 0]
\* The call arguments come from the log (DCall / RCall take them as parameters), so the constants Msgs and Regs
\* are only placeholders here.  (Substituting them by sets computed from Trace made TLC re-read the JSON file
\* at every evaluation of Trace: 100 s instead of 3 s for 3400 lines.)
TMsgs == {NoMsg}
TRegs == {NoReg}
Ev(name) == l <= Len(Trace) /\ Trace[l].ev = name /\ l' = l + 1
TReset == /\ Ev("reset")
          /\ pc' = [p \in D \cup R |-> "idle"] /\ table' = <<>> /\ readers' = {} /\ wmutex' = "none"
          /\ calls' = [p \in D \cup R |-> 0] /\ sawhid' = [p \in D |-> 0] /\ atcall' = [p \in D |-> 0]
          /\ updating' = FALSE /\ crashed' = FALSE /\ cur' = [p \in D |-> NoMsg] /\ arg' = [r \in R |-> NoReg]
TDCall  == Ev("d.call") /\ DCall(Trace[l].p, MsgOfLine(Trace[l]))
\* the lookup is a silent step somewhere between d.call and the handler's first line; "fired" names what it found
TFired  == Ev("fired") /\ pc[Trace[l].p] = "inh" /\ sawhid[Trace[l].p] = Trace[l].hid /\ UNCHANGED vars
THEnd   == Ev("h.end") /\ HandlerEnd(Trace[l].p)
TDRet   == Ev("d.ret") /\ DReturn(Trace[l].p)
TRCall  == Ev("r.call") /\ RCall(Trace[l].p, RegOfLine(Trace[l]))
TRRet   == Ev("r.ret") /\ RReturn(Trace[l].p)
Silent  == /\ l <= Len(Trace) /\ UNCHANGED l
           /\ \/ \E p \in D : RLock(p) \/ Lookup(p) \/ RUnlock(p)
              \/ \E r \in R : WMutex(r) \/ Acquire(r) \/ Update(r) \/ Unlock(r)
TNext == TReset \/ TDCall \/ TFired \/ THEnd \/ TDRet \/ TRCall \/ TRRet \/ Silent
TInit == /\ pc = [p \in D \cup R |-> "idle"] /\ table = <<>> /\ readers = {} /\ wmutex = "none"
         /\ calls = [p \in D \cup R |-> 0] /\ sawhid = [p \in D |-> 0] /\ atcall = [p \in D |-> 0]
         /\ updating = FALSE /\ crashed = FALSE /\ cur = [p \in D |-> NoMsg] /\ arg = [r \in R |-> NoReg]
         /\ l = 1 /\ TLCSet(1, 0)
NotDone == l <= Len(Trace)
HW == TLCSet(1, IF TLCGet(1) < l THEN l ELSE TLCGet(1))
Post == PrintT(<<"HIGHWATER", TLCGet(1)>>)
=============================================================================
