CONSTANTS D <- MCD
  R <- MCR
  Msgs <- MCMsgs
  Regs <- MCRegs
  MaxCalls = 2
  MaxRegs = 1
  Locked = FALSE
SPECIFICATION MCSpec
INVARIANTS NoCrash
PROPERTIES StableUnderReaders
CHECK_DEADLOCK FALSE
