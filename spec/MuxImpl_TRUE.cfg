CONSTANTS D <- MCD
  R <- MCR
  Msgs <- MCMsgs
  Regs <- MCRegs
  MaxCalls = 2
  MaxRegs = 1
  Locked = TRUE
SPECIFICATION MCSpec
INVARIANTS NoCrash Exclusion SeesCompleted ReadersAreRunning LockInd
PROPERTIES StableUnderReaders
CHECK_DEADLOCK FALSE
