CONSTANTS D <- MCD
  R <- MCR
  Msgs <- MCMsgs
  Regs <- MCRegs
  MaxCalls = 2
  MaxRegs = 1
  Locked = TRUE
SPECIFICATION MCSpecLeak
INVARIANTS ReadersAreRunning
CHECK_DEADLOCK FALSE
