CONSTANTS D <- MCD
  R <- MCR
  Msgs <- MCMsgs
  Regs <- MCRegs3
  MaxCalls = 2
  MaxRegs = 2
  Locked = TRUE
SPECIFICATION MCSpec
INVARIANTS NoCrash Exclusion SeesCompleted ReadersAreRunning LockInd
PROPERTIES StableUnderReaders
CHECK_DEADLOCK FALSE
