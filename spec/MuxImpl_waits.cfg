CONSTANTS D <- MCD
  R <- MCR
  Msgs <- MCMsgs
  Regs <- MCRegs
  MaxCalls = 2
  Locked = TRUE
SPECIFICATION MCSpec
INVARIANTS NeverWaitsBehindHandler
CHECK_DEADLOCK FALSE
