----------------------------- MODULE MuxLockInd -----------------------------
(***************************************************************************)
(* The lock protocol of MuxImpl (the projection of MuxImpl onto pc,        *)
(* readers, wmutex, updating: what ServeDIAM, Handle and HandleIdx do to   *)
(* mux.mu, without the table), with an inductive invariant that Apalache   *)
(* discharges for ANY number of calls per process (TLC explores MuxImpl    *)
(* for two calls per dispatcher and one or two per registrar).  It implies *)
(* mutual exclusion of an update with every lookup and every handler run,  *)
(* that a panic does not leave the read lock held (the deferred unlock),   *)
(* and that only one registrar is past the writers' mutex.                 *)
(*   apalache-mc check --init=IndInit --inv=IndInv --length=1 MuxLockInd.tla   (step)   *)
(*   apalache-mc check --init=Init    --inv=IndInv --length=0 MuxLockInd.tla   (base)   *)
(*   apalache-mc check --init=IndInit --inv=Implied --length=0 MuxLockInd.tla           *)
(* Sensitivity: with NextLeak (an explicit unlock after the call instead   *)
(* of the deferred one, skipped by a panic) the step fails.                *)
(***************************************************************************)
EXTENDS Integers, FiniteSets
D == {"d1", "d2", "d3"}
R == {"r1", "r2"}
VARIABLES
  \* @type: Str -> Str;
  pc,
  \* @type: Set(Str);
  readers,
  \* @type: Str;
  wmutex,
  \* @type: Bool;
  updating
vars == <<pc, readers, wmutex, updating>>
DStates == {"idle", "want", "locked", "inh", "ret", "unl"}
RStates == {"idle", "want", "announced", "holding", "updated", "unl"}

Init == pc = [p \in D \cup R |-> "idle"] /\ readers = {} /\ wmutex = "none" /\ updating = FALSE

DCall(p)      == pc[p] = "idle" /\ pc' = [pc EXCEPT ![p] = "want"] /\ UNCHANGED <<readers, wmutex, updating>>
RLock(p)      == pc[p] = "want" /\ wmutex = "none" /\ pc' = [pc EXCEPT ![p] = "locked"] /\ readers' = readers \cup {p} /\ UNCHANGED <<wmutex, updating>>
LookupHit(p)  == pc[p] = "locked" /\ pc' = [pc EXCEPT ![p] = "inh"] /\ UNCHANGED <<readers, wmutex, updating>>
LookupMiss(p) == pc[p] = "locked" /\ pc' = [pc EXCEPT ![p] = "ret"] /\ UNCHANGED <<readers, wmutex, updating>>
\* the handler returns or panics: either way the deferred RUnlock is next
HandlerEnd(p) == pc[p] = "inh" /\ pc' = [pc EXCEPT ![p] = "ret"] /\ UNCHANGED <<readers, wmutex, updating>>
RUnlock(p)    == pc[p] = "ret" /\ pc' = [pc EXCEPT ![p] = "unl"] /\ readers' = readers \ {p} /\ UNCHANGED <<wmutex, updating>>
DReturn(p)    == pc[p] = "unl" /\ pc' = [pc EXCEPT ![p] = "idle"] /\ UNCHANGED <<readers, wmutex, updating>>
PanicLeak(p)  == pc[p] = "inh" /\ pc' = [pc EXCEPT ![p] = "idle"] /\ UNCHANGED <<readers, wmutex, updating>>

RCall(r)   == pc[r] = "idle" /\ pc' = [pc EXCEPT ![r] = "want"] /\ UNCHANGED <<readers, wmutex, updating>>
WMutex(r)  == pc[r] = "want" /\ wmutex = "none" /\ pc' = [pc EXCEPT ![r] = "announced"] /\ wmutex' = r /\ UNCHANGED <<readers, updating>>
Acquire(r) == pc[r] = "announced" /\ readers = {} /\ pc' = [pc EXCEPT ![r] = "holding"] /\ updating' = TRUE /\ UNCHANGED <<readers, wmutex>>
Update(r)  == pc[r] = "holding" /\ pc' = [pc EXCEPT ![r] = "updated"] /\ updating' = FALSE /\ UNCHANGED <<readers, wmutex>>
Unlock(r)  == pc[r] = "updated" /\ pc' = [pc EXCEPT ![r] = "unl"] /\ wmutex' = "none" /\ UNCHANGED <<readers, updating>>
RReturn(r) == pc[r] = "unl" /\ pc' = [pc EXCEPT ![r] = "idle"] /\ UNCHANGED <<readers, wmutex, updating>>

Next == \/ \E p \in D : DCall(p) \/ RLock(p) \/ LookupHit(p) \/ LookupMiss(p) \/ HandlerEnd(p) \/ RUnlock(p) \/ DReturn(p)
        \/ \E r \in R : RCall(r) \/ WMutex(r) \/ Acquire(r) \/ Update(r) \/ Unlock(r) \/ RReturn(r)
NextLeak == Next \/ \E p \in D : PanicLeak(p)

TypeOK == /\ pc \in [D \cup R -> DStates \cup RStates]
          /\ \A p \in D : pc[p] \in DStates
          /\ \A r \in R : pc[r] \in RStates
          /\ readers \subseteq D /\ wmutex \in R \cup {"none"} /\ updating \in BOOLEAN
IndInv == /\ TypeOK
          /\ readers = {p \in D : pc[p] \in {"locked", "inh", "ret"}}                     \* exactly the dispatchers inside the lock
          /\ \A r \in R : (pc[r] \in {"announced", "holding", "updated"}) <=> (wmutex = r)  \* one registrar past the writers' mutex
          /\ updating <=> (\E r \in R : pc[r] = "holding")
          /\ \A r \in R : pc[r] \in {"holding", "updated"} => readers = {}
IndInit == /\ pc \in [D \cup R -> DStates \cup RStates] /\ readers \in SUBSET D /\ wmutex \in R \cup {"none"} /\ updating \in BOOLEAN
           /\ IndInv
\* what MuxImpl's invariants say about the lock
Exclusion == (updating => readers = {}) /\ (\A r \in R : pc[r] \in {"holding", "updated"} => (wmutex = r /\ readers = {}))
ReadersAreRunning == \A p \in readers : pc[p] \in {"locked", "inh", "ret"}
OneWriter == \A a \in R, b \in R : (pc[a] \in {"announced", "holding", "updated"} /\ pc[b] \in {"announced", "holding", "updated"}) => a = b
Implied == IndInv => (Exclusion /\ ReadersAreRunning /\ OneWriter)
=============================================================================
