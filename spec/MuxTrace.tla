------------------------------ MODULE MuxTrace ------------------------------
(* R3 for C09: which handler the real ServeMux fired, against Mux!Dispatch. *)
EXTENDS Mux, Json
Trace == ndJsonDeserialize("trace.ndjson")
VARIABLE l
Init == l = 1
Next == /\ l <= Len(Trace)
        /\ l' = l + 1
        /\ LET e == Trace[l] IN
           \/ (e.short = e.gshort /\ ObsOK(e.regs, e.msg, e.short, e.fired, e.reports))
           \/ PrintT(<<"BADLINE", l, IF e.short # e.gshort THEN <<"dict">> ELSE <<"dispatch">>>>)
=============================================================================
