------------------------------- MODULE PoolGen -------------------------------
(* R2 for C06: retained message (value type x nesting depth x size class) followed by every history of up to MaxLater later reads. *)
EXTENDS Integers, Sequences, TLC, Json
CONSTANTS MaxLater
VARIABLES c
Kinds == {"addr4", "addr6", "addrother", "unknown", "ipv4", "ipv6", "octets", "utf8", "u32", "time", "mixed", "octets300", "utf8300"}
Later == {[how |-> h, size |-> z] : h \in {"same", "goroutine", "conn"}, z \in {"small", "large"}}
Init == c \in {[kind |-> k, depth |-> d, size |-> z, history |-> <<>>] : k \in Kinds, d \in 0..2, z \in {"small", "large"}}
Next == /\ Len(c.history) < MaxLater
        /\ \E x \in Later : c' = [c EXCEPT !.history = Append(@, x)]
Emit == c.history = <<>> \/ PrintT(ToJson(c))
=============================================================================
