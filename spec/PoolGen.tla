------------------------------- MODULE PoolGen -------------------------------
(* R2 for C06: retained message (value type x nesting depth x size class) followed by every history of up to MaxLater later reads. *)
EXTENDS Integers, Sequences, TLC, Json
CONSTANTS MaxLater, PLens
VARIABLES c
Kinds == {"addr4", "addr6", "addrother", "unknown", "ipv4", "ipv6", "octets", "utf8", "u32", "time", "mixed", "octets300", "utf8300", "ipv4mapped", "badgroup", "addrmapped", "pflag", "u32len8", "ebitbad", "emptygroup"}
Later == {[how |-> h, size |-> z] : h \in {"same", "goroutine", "conn"}, z \in {"small", "large"}}
\* variable-length values of a given payload length; plen = 0 stands for "the longest that keeps the
\* whole message body inside the 1 KiB pooled read buffer" (1016 - 8 * depth)
NKinds == {"octetsN", "utf8N", "unknownN"}
Init == c \in {[kind |-> k, depth |-> d, size |-> z, plen |-> 0, history |-> <<>>] : k \in Kinds, d \in 0..2, z \in {"small", "large"}}
          \cup {[kind |-> k, depth |-> d, size |-> "small", plen |-> n, history |-> <<>>] : k \in NKinds, d \in 0..2, n \in PLens}
Next == /\ Len(c.history) < MaxLater
        /\ \E x \in Later : c' = [c EXCEPT !.history = Append(@, x)]
Emit == c.history = <<>> \/ PrintT(ToJson(c))
=============================================================================
