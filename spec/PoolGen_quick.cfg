CONSTANTS MaxLater = 2
  PLens = {0, 255, 512, 1000}
INIT Init
NEXT Next
INVARIANT Emit
CHECK_DEADLOCK FALSE
