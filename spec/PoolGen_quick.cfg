CONSTANTS MaxLater = 2
INIT Init
NEXT Next
INVARIANT Emit
CHECK_DEADLOCK FALSE
