CONSTANTS MaxLater = 3
  PLens = {0, 63, 64, 65, 127, 128, 129, 255, 256, 257, 511, 512, 513, 767, 900, 960, 992, 996, 1000}
INIT Init
NEXT Next
INVARIANT Emit
CHECK_DEADLOCK FALSE
