------------------------------ MODULE PoolImpl ------------------------------
(***************************************************************************)
(* The pooled read buffer and the lifetime of decoded values (C06):        *)
(* diam/message.go ReadMessage = Get a buffer from the process-wide pool,  *)
(* fill it, decode, Put it back when ReadMessage returns.  A decoded value *)
(* is either a COPY of the bytes or a VIEW into the buffer.  Views = TRUE  *)
(* is the sensitivity configuration (slice-typed values alias the buffer): *)
(* a later read on any connection / goroutine that gets the same buffer    *)
(* overwrites the retained message.                                        *)
(***************************************************************************)
EXTENDS Integers, Sequences, FiniteSets, TLC
CONSTANTS NBufs, MaxReads, Views
VARIABLES pool,      \* set of free buffers
          content,   \* buffer -> id of the message whose bytes it currently holds (0 = none)
          retained,  \* <<>> or <<[msg, buf, view]>>: the first message read, kept by a handler
          reads, inuse
vars == <<pool, content, retained, reads, inuse>>
Bufs == 1..NBufs
Init == pool = Bufs /\ content = [b \in Bufs |-> 0] /\ retained = <<>> /\ reads = 0 /\ inuse = {}
\* ReadMessage part 1: Get + fill (any goroutine, any connection)
Get(b) == /\ reads < MaxReads /\ b \in pool
          /\ pool' = pool \ {b} /\ inuse' = inuse \cup {b} /\ reads' = reads + 1
          /\ content' = [content EXCEPT ![b] = reads + 1]
          /\ UNCHANGED retained
\* ReadMessage part 2: decode, return the message, Put the buffer back
Return(b) == /\ b \in inuse
             /\ inuse' = inuse \ {b} /\ pool' = pool \cup {b}
             /\ retained' = IF retained = <<>> THEN <<[msg |-> content[b], buf |-> b, view |-> Views]>> ELSE retained
             /\ UNCHANGED <<content, reads>>
Next == \E b \in Bufs : Get(b) \/ Return(b)
Spec == Init /\ [][Next]_vars
\* what the holder of the retained message sees now
Seen == IF retained = <<>> THEN 0
        ELSE IF retained[1].view THEN content[retained[1].buf] ELSE retained[1].msg
\* ImmutObs at design level
Immutable == retained # <<>> => Seen = retained[1].msg
=============================================================================
