CONSTANTS NBufs = 2
  MaxReads = 4
  Views = TRUE
INIT Init
NEXT Next
INVARIANT Immutable
CHECK_DEADLOCK FALSE
