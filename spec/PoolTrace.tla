------------------------------ MODULE PoolTrace ------------------------------
(* R3 for C06 (ImmutObs): the snapshot of a retained message taken when it was returned equals every later snapshot. *)
EXTENDS Integers, Sequences, TLC, Json
Trace == ndJsonDeserialize("trace.ndjson")
VARIABLE l
Init == l = 1
Next == /\ l <= Len(Trace)
        /\ l' = l + 1
        /\ LET e == Trace[l] IN
           (e.readok /\ \A i \in 1..Len(e.after) : e.after[i] = e.before)
           \/ (~e.readok /\ e.mayreject)     \* a wire image the reader may refuse: nothing was returned, nothing to retain
           \/ PrintT(<<"BADLINE", l, <<IF ~e.readok THEN "read-failed" ELSE "changed-after-return">>>>)
=============================================================================
