----------------------------- MODULE RobustTrace -----------------------------
(***************************************************************************)
(* R3 for C03 (DecodeObs): every decode of arbitrary bytes ends in a value *)
(* or an error; so does every follow-up operation on a decoded message;    *)
(* memory and stack consumed, and the size of any rendering, are bounded   *)
(* by K * (bytes supplied) + C.  "slow" / "skipped" lines are not judged.  *)
(***************************************************************************)
EXTENDS Integers, Sequences, TLC, Json
K == 256
C == 1048576
Trace == ndJsonDeserialize("trace.ndjson")
VARIABLE l
Init == l = 1
\* quantities in KiB: TLC integers are 32-bit and inputs reach 16 MiB
BoundKB(n) == K * ((n + 1023) \div 1024) + C \div 1024
Reasons(e) ==
  IF e.outcome \in {"slow", "skipped"} THEN <<>> ELSE
     (IF e.outcome \notin {"ok", "err"} THEN <<e.outcome>> ELSE <<>>)
  \o (IF e.alloc_kb > BoundKB(e.n) THEN <<"memory">> ELSE <<>>)
  \o (IF e.stack_kb > BoundKB(e.n) THEN <<"stack">> ELSE <<>>)
  \o (IF e.outlen \div 1024 > BoundKB(e.n) THEN <<"output-size">> ELSE <<>>)
  \o (IF \E i \in 1..Len(e.post) : e.post[i].outcome \notin {"ok", "err", "slow", "skipped"} THEN <<"post-panic">> ELSE <<>>)
  \o (IF \E i \in 1..Len(e.post) : e.post[i].alloc_kb > BoundKB(e.n) THEN <<"post-memory">> ELSE <<>>)
Next == /\ l <= Len(Trace)
        /\ l' = l + 1
        /\ LET r == Reasons(Trace[l]) IN r = <<>> \/ PrintT(<<"BADLINE", l, r>>)
=============================================================================
