------------------------------- MODULE SctpGen -------------------------------
(***************************************************************************)
(* R2 for C19: real message sizes; every split of each stream's byte       *)
(* sequence at landmarks (inside a header, header end, inside a body,      *)
(* message end, spanning into the next message) and every interleaving of  *)
(* the chunks across streams, as a state machine: Chunk(s, n) appends one  *)
(* chunk to the schedule.                                                  *)
(***************************************************************************)
EXTENDS Integers, Sequences, FiniteSets, TLC, Json
CONSTANTS Sizes, MaxChunks
VARIABLES pos, sched
Streams == 1..Len(Sizes)
RECURSIVE Total(_, _)
Total(sz, k) == IF k = 0 THEN 0 ELSE Total(sz, k - 1) + sz[k]
Landmarks(s) == UNION {LET st == Total(Sizes[s], m - 1)  L == Sizes[s][m] IN
                       {st + 10, st + 20, st + L, st + L + 10} \cup (IF L > 20 THEN {st + 20 + (L - 20) \div 2} ELSE {})
                       : m \in 1..Len(Sizes[s])}
Len_(s) == Total(Sizes[s], Len(Sizes[s]))
Init == pos = [s \in Streams |-> 0] /\ sched = <<>>
Chunk(s) == /\ Len(sched) < MaxChunks
            /\ \E t \in Landmarks(s) \cup {Len_(s)} : t > pos[s] /\ t <= Len_(s)
                 /\ pos' = [pos EXCEPT ![s] = t] /\ sched' = Append(sched, <<s, t - pos[s]>>)
Next == \E s \in Streams : Chunk(s)
Done == \A s \in Streams : pos[s] = Len_(s)
Emit == ~Done \/ PrintT(ToJson([sizes |-> Sizes, sched |-> sched]))
SizesA == <<<<28, 52>>, <<20, 28>>>>
SizesB == <<<<28>>, <<52>>, <<20>>>>
=============================================================================
