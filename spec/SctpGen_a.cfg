CONSTANTS Sizes <- SizesA
  MaxChunks = 5
INIT Init
NEXT Next
INVARIANT Emit
CHECK_DEADLOCK FALSE
