CONSTANTS Sizes <- SizesB
  MaxChunks = 5
INIT Init
NEXT Next
INVARIANT Emit
CHECK_DEADLOCK FALSE
