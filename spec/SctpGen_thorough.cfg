CONSTANTS Sizes <- SizesA
  MaxChunks = 7
INIT Init
NEXT Next
INVARIANT Emit
CHECK_DEADLOCK FALSE
