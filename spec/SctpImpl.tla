------------------------------ MODULE SctpImpl ------------------------------
(***************************************************************************)
(* Implementation-shaped model of the SCTP multi-stream reader (C19):      *)
(* diam/network_sctp.go ReadAny / ReadStream / ReadAtLeast /               *)
(* verifyStreamBuff / bufferStreamData with per-stream buffers (longest    *)
(* first), and the reader loop of the connection: ResetCurrentStream;      *)
(* readHeader (H units from any stream, which is then pinned); readBody    *)
(* (the rest from that stream).                                            *)
(* A byte is a unit <<stream, message, position>>.  The peer sends each    *)
(* stream's units in order, cut into chunks of any size, interleaved in    *)
(* any way; SCTPRead returns at most `need` units of the head chunk, the   *)
(* rest of the chunk stays at the head (no interleaving inside a chunk).   *)
(* FreshFirst = TRUE is a sensitivity switch: data just read for the       *)
(* wanted stream is used although older data of that stream is buffered.   *)
(***************************************************************************)
EXTENDS Integers, Sequences, FiniteSets, TLC
CONSTANTS Streams, Sizes,       \* Sizes[s] = sequence of message lengths (in units) of stream s
          H,                    \* header length in units
          MaxChunk,             \* largest chunk the peer sends
          FreshFirst
VARIABLES sentUpTo,   \* stream -> number of units already sent
          wire,       \* sequence of chunks (each a non-empty sequence of units), head first
          bufs,       \* stream -> buffered units
          cur,        \* pinned stream, 0 = none
          phase,      \* "hdr" | "body"
          need,       \* units still needed in this phase
          acc,        \* units of the message being assembled
          delivered   \* sequence of [stream (reported), units]
vars == <<sentUpTo, wire, bufs, cur, phase, need, acc, delivered>>

RECURSIVE UnitsOf(_, _, _)
UnitsOf(s, sizes, m) == IF m > Len(sizes) THEN <<>>
                        ELSE [k \in 1..sizes[m] |-> <<s, m, k>>] \o UnitsOf(s, sizes, m + 1)
All(s) == UnitsOf(s, Sizes[s], 1)
LenOfMsg(u) == Sizes[u[1]][u[2]]

Init == /\ sentUpTo = [s \in Streams |-> 0] /\ wire = <<>> /\ bufs = [s \in Streams |-> <<>>]
        /\ cur = 0 /\ phase = "hdr" /\ need = H /\ acc = <<>> /\ delivered = <<>>
PeerSend(s, n) == /\ sentUpTo[s] + n <= Len(All(s))
                  /\ wire' = Append(wire, SubSeq(All(s), sentUpTo[s] + 1, sentUpTo[s] + n))
                  /\ sentUpTo' = [sentUpTo EXCEPT ![s] = @ + n]
                  /\ UNCHANGED <<bufs, cur, phase, need, acc, delivered>>

Min(a, b) == IF a < b THEN a ELSE b
Longest == CHOOSE s \in Streams : \A t \in Streams : Len(bufs[s]) >= Len(bufs[t])
\* what happens after k units u were obtained for the current message
Got(u, s) ==
  LET acc2 == acc \o u  need2 == need - Len(u) IN
  IF need2 > 0 THEN acc' = acc2 /\ need' = need2 /\ cur' = s /\ UNCHANGED <<phase, delivered>>
  ELSE IF phase = "hdr" /\ LenOfMsg(acc2[1]) > H
       THEN acc' = acc2 /\ need' = LenOfMsg(acc2[1]) - H /\ phase' = "body" /\ cur' = s /\ UNCHANGED delivered
  ELSE /\ delivered' = Append(delivered, [stream |-> s, units |-> acc2])
       /\ acc' = <<>> /\ need' = H /\ phase' = "hdr" /\ cur' = 0      \* ResetCurrentStream
\* take from a stream buffer
FromBuf(s) == /\ bufs[s] # <<>>
              /\ LET k == Min(need, Len(bufs[s])) IN
                 /\ bufs' = [bufs EXCEPT ![s] = SubSeq(@, k + 1, Len(@))]
                 /\ Got(SubSeq(bufs[s], 1, k), s)
              /\ UNCHANGED <<sentUpTo, wire>>
\* SCTPRead: up to `need` units of the head chunk
HeadTake == LET c == wire[1]  k == Min(need, Len(c)) IN
            [u |-> SubSeq(c, 1, k), rest |-> IF k = Len(c) THEN Tail(wire) ELSE <<SubSeq(c, k + 1, Len(c))>> \o Tail(wire)]
ReadAnyStep ==
  /\ cur = 0
  /\ IF \E s \in Streams : bufs[s] # <<>> THEN FromBuf(Longest)
     ELSE /\ wire # <<>>
          /\ wire' = HeadTake.rest /\ Got(HeadTake.u, HeadTake.u[1][1])
          /\ UNCHANGED <<sentUpTo, bufs>>
ReadStreamStep ==
  /\ cur # 0
  /\ IF bufs[cur] # <<>> THEN FromBuf(cur)
     ELSE /\ wire # <<>>
          /\ LET t == HeadTake IN
             /\ wire' = t.rest
             /\ IF t.u[1][1] = cur
                  THEN Got(t.u, cur) /\ UNCHANGED bufs
                  ELSE /\ bufs' = [bufs EXCEPT ![t.u[1][1]] = @ \o t.u]             \* bufferStreamData
                       /\ UNCHANGED <<cur, phase, need, acc, delivered>>
          /\ UNCHANGED sentUpTo
\* sensitivity: fresh data of the wanted stream overtakes its buffered data
ReadStreamFresh ==
  /\ FreshFirst /\ cur # 0 /\ wire # <<>> /\ wire[1][1][1] = cur
  /\ wire' = HeadTake.rest /\ Got(HeadTake.u, cur) /\ UNCHANGED <<sentUpTo, bufs>>
Next == (\E s \in Streams, n \in 1..MaxChunk : PeerSend(s, n)) \/ ReadAnyStep \/ ReadStreamStep \/ ReadStreamFresh
Spec == Init /\ [][Next]_vars

\* SctpObs at design level
OneMessageOneStream ==
  \A i \in 1..Len(delivered) :
     LET d == delivered[i] IN
     /\ \A j \in 1..Len(d.units) : d.units[j] = <<d.units[1][1], d.units[1][2], j>>
     /\ Len(d.units) = LenOfMsg(d.units[1]) /\ d.stream = d.units[1][1]
PerStreamOrder ==
  \A s \in Streams :
     LET ms == SelectSeq(delivered, LAMBDA d : d.units[1][1] = s) IN \A i \in 1..Len(ms) : ms[i].units[1][2] = i
\* nothing is lost: when everything was sent and nothing can move, every message was delivered
Quiescent == ~ENABLED (ReadAnyStep \/ ReadStreamStep)
AllSent == \A s \in Streams : sentUpTo[s] = Len(All(s))
NothingLost == (AllSent /\ Quiescent) => \A s \in Streams : Cardinality({i \in 1..Len(delivered) : delivered[i].units[1][1] = s}) = Len(Sizes[s])
Sizes2 == <<<<3, 2>>, <<2, 4>>>>
=============================================================================
