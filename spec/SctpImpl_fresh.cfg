CONSTANTS Streams = {1, 2}
  Sizes <- Sizes2
  H = 2
  MaxChunk = 4
  FreshFirst = TRUE
INIT Init
NEXT Next
INVARIANTS OneMessageOneStream
CHECK_DEADLOCK FALSE
