CONSTANTS Streams = {1, 2}
  Sizes <- Sizes2
  H = 2
  MaxChunk = 4
  FreshFirst = FALSE
INIT Init
NEXT Next
INVARIANTS OneMessageOneStream PerStreamOrder NothingLost
CHECK_DEADLOCK FALSE
