------------------------------- MODULE SctpObs -------------------------------
(***************************************************************************)
(* SctpObs (C19) on a recorded scenario: sizes[s] = message lengths of     *)
(* stream s (all of them were delivered in full by the peer), delivered =  *)
(* what the connection's reader loop handed to the handler: [reported      *)
(* (MessageStream()), s, m (stream and index the message was sent as),     *)
(* pure (every byte is a byte of that message)], out = replies written:    *)
(* [stream, s, m].                                                         *)
(***************************************************************************)
EXTENDS Integers, Sequences, FiniteSets, TLC
Of(seq, s) == SelectSeq(seq, LAMBDA d : d.s = s)
Reasons(e) ==
     (IF \E i \in 1..Len(e.delivered) : ~e.delivered[i].pure THEN <<"bytes-of-another-message">> ELSE <<>>)
  \o (IF \E i \in 1..Len(e.delivered) : e.delivered[i].reported # e.delivered[i].s THEN <<"wrong-stream-reported">> ELSE <<>>)
  \o (IF \E s \in 1..Len(e.sizes) : \E i \in 1..Len(Of(e.delivered, s)) : Of(e.delivered, s)[i].m # i THEN <<"stream-order">> ELSE <<>>)
  \o (IF \E s \in 1..Len(e.sizes) : Len(Of(e.delivered, s)) < Len(e.sizes[s]) THEN <<"message-lost">> ELSE <<>>)
  \o (IF \E s \in 1..Len(e.sizes) : Len(Of(e.delivered, s)) > Len(e.sizes[s]) THEN <<"message-duplicated">> ELSE <<>>)
  \o (IF \E i \in 1..Len(e.out) : e.out[i].stream # e.out[i].s THEN <<"reply-on-another-stream">> ELSE <<>>)
  \o (IF Len(e.out) # Len(e.delivered) THEN <<"reply-count">> ELSE <<>>)
=============================================================================
