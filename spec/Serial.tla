------------------------------- MODULE Serial -------------------------------
(***************************************************************************)
(* SerialObs (C08) as a monitor over recorded events.  Per scenario:       *)
(*   reset{conns, msgs}   start of a scenario                              *)
(*   enter{c, i} / exit{c, i}   an instrumented handler started / returned *)
(*                        for the i-th message sent on connection c        *)
(*   blocked{c}           emitted by the harness when connection c had a   *)
(*                        complete message pending for the whole positive  *)
(*                        deadline while only OTHER connections were held  *)
(*   end                  all sent messages must have been handled         *)
(* State: running[c] (0 = none) and done[c].                               *)
(***************************************************************************)
EXTENDS Integers, Sequences, TLC
St0(n) == [running |-> [c \in 1..n |-> 0], done |-> [c \in 1..n |-> 0], dead |-> FALSE, msgs |-> <<>>]
\* returns [ok, why, st]
\* total: an event that names a connection or message nobody sent (a handler was given a message made
\* of torn bytes) is itself a violation, not an evaluation error
Step(st, e) ==
  CASE e.ev \in {"enter", "exit"} /\ (e.c \notin DOMAIN st.running \/ e.i < 1) ->
         [ok |-> FALSE, why |-> "message-nobody-sent", st |-> st]
    [] e.ev = "enter" ->
         IF st.running[e.c] # 0 THEN [ok |-> FALSE, why |-> "entered-while-previous-running", st |-> st]
         ELSE IF e.i # st.done[e.c] + 1 THEN [ok |-> FALSE, why |-> "out-of-order", st |-> st]
         ELSE [ok |-> TRUE, why |-> "", st |-> [st EXCEPT !.running[e.c] = e.i]]
    [] e.ev = "exit" ->
         IF st.running[e.c] # e.i THEN [ok |-> FALSE, why |-> "exit-without-enter", st |-> st]
         ELSE [ok |-> TRUE, why |-> "", st |-> [st EXCEPT !.running[e.c] = 0, !.done[e.c] = e.i]]
    [] e.ev = "blocked" -> [ok |-> FALSE, why |-> "blocked-by-other-connection", st |-> st]
    [] e.ev = "end" ->
         IF \A c \in 1..Len(st.msgs) : st.done[c] = st.msgs[c] THEN [ok |-> TRUE, why |-> "", st |-> st]
         ELSE [ok |-> FALSE, why |-> "not-all-handled", st |-> st]
    [] OTHER -> [ok |-> TRUE, why |-> "", st |-> st]
=============================================================================
