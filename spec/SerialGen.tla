------------------------------ MODULE SerialGen ------------------------------
(* R2 for C08: connections x messages x arrival pattern x placement of one held handler;
   via: accepted by Server.Serve / diam.NewConn on an in-memory transport / diam.Dial over loopback TCP. *)
EXTENDS Integers, Sequences, TLC, Json
CONSTANTS MaxConns, MaxMsgs
VARIABLE s
\* flavour: the messages are requests, answers, or alternate
\* two more kinds of connection for a few shapes: an accepted connection of a server with a WriteTimeout
\* shorter than the time a handler is held, and a multi-stream association
Extra == {[conns |-> k, msgs |-> m, pattern |-> p, via |-> v, holdc |-> hc, holdi |-> hi, flavour |-> "req"] :
            k \in 1..2, m \in 2..3, p \in {"burst", "interleaved"}, v \in {"server+wt", "sctp"}, hc \in 0..1, hi \in 0..2}
\* "regpending": while the handler of connection 1's first message is held, the application registers a further
\* handler on the mux (the registration waits for the held handler); the other connections' messages arrive only
\* then.  Their dispatch may wait for the registration (ServeMux calls handlers under its read lock), but when it
\* happens it is still one handler at a time per connection, in arrival order.
RegPending == {[conns |-> k, msgs |-> m, pattern |-> "burst", via |-> v, holdc |-> 1, holdi |-> 1, flavour |-> "regpending"] :
                 k \in 2..3, m \in 2..3, v \in {"server", "dial"}}
\* "cn": the handler of each connection's first message requests CloseNotify (the reader switches to the pipe fed by
\* the copier goroutine); the following messages arrive one by one, each after the previous one was handled
WithCN == {[conns |-> k, msgs |-> m, pattern |-> "interleaved", via |-> v, holdc |-> 0, holdi |-> 0, flavour |-> "cn"] :
             k \in 1..2, m \in 3..4, v \in {"server", "dial"}}
\* "panicreg": connection 1's first handler panics (only that connection is dropped), then the application registers
\* a further handler, then the other connections receive their messages
PanicReg == {[conns |-> k, msgs |-> 2, pattern |-> "burst", via |-> v, holdc |-> 0, holdi |-> 0, flavour |-> "panicreg"] :
               k \in 2..3, v \in {"server", "dial"}}
\* a long burst behind a held handler (more messages than any queue in front of the handler could hold)
Long == {[conns |-> 1, msgs |-> 24, pattern |-> "burst", via |-> v, holdc |-> 1, holdi |-> 1, flavour |-> "req"] : v \in {"server", "dial"}}
\* "cneof": CloseNotify was requested by the first handler; the second and third message arrive together, the peer
\* disconnects while the second handler is held: the third is handled after the second has returned
CnEof == {[conns |-> 1, msgs |-> 3, pattern |-> "interleaved", via |-> v, holdc |-> 1, holdi |-> 2, flavour |-> "cneof"] : v \in {"server", "dial"}}
\* via "sm": connections accepted by a server whose handler is a state machine; the peers of all connections present the
\* same Origin-Host in their CER
ViaSM == {[conns |-> k, msgs |-> 2, pattern |-> p, via |-> "sm", holdc |-> hc, holdi |-> hc, flavour |-> "req"] :
            k \in 2..3, p \in {"burst", "interleaved"}, hc \in 0..1}
Init == s \in Extra \cup RegPending \cup WithCN \cup PanicReg \cup Long \cup CnEof \cup ViaSM \cup {[conns |-> k, msgs |-> m, pattern |-> p, via |-> v, holdc |-> hc, holdi |-> hi, flavour |-> fl] :
                 k \in 1..MaxConns, m \in 2..MaxMsgs, p \in {"burst", "bytes", "interleaved"}, v \in {"server", "dial", "tcp"},
                 hc \in 0..MaxConns, hi \in 0..MaxMsgs, fl \in {"req", "ans", "mixed", "dwr"}}
Next == UNCHANGED s
Canon == /\ s.holdc <= s.conns /\ s.holdi <= s.msgs /\ (s.holdc = 0 <=> s.holdi = 0)
Emit == ~Canon \/ PrintT(ToJson(s))
=============================================================================
