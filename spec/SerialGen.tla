------------------------------ MODULE SerialGen ------------------------------
(* R2 for C08: connections x messages x arrival pattern x placement of one held handler;
   via: accepted by Server.Serve / diam.NewConn on an in-memory transport / diam.Dial over loopback TCP. *)
EXTENDS Integers, Sequences, TLC, Json
CONSTANTS MaxConns, MaxMsgs
VARIABLE s
\* flavour: the messages are requests, answers, or alternate
Init == s \in {[conns |-> k, msgs |-> m, pattern |-> p, via |-> v, holdc |-> hc, holdi |-> hi, flavour |-> fl] :
                 k \in 1..MaxConns, m \in 2..MaxMsgs, p \in {"burst", "bytes", "interleaved"}, v \in {"server", "dial", "tcp"},
                 hc \in 0..MaxConns, hi \in 0..MaxMsgs, fl \in {"req", "ans", "mixed"}}
Next == UNCHANGED s
Canon == /\ s.holdc <= s.conns /\ s.holdi <= s.msgs /\ (s.holdc = 0 <=> s.holdi = 0)
Emit == ~Canon \/ PrintT(ToJson(s))
=============================================================================
