CONSTANTS MaxConns = 3
  MaxMsgs = 3
INIT Init
NEXT Next
INVARIANTS Emit
CHECK_DEADLOCK FALSE
