CONSTANTS MaxConns = 4
  MaxMsgs = 5
INIT Init
NEXT Next
INVARIANTS Emit
CHECK_DEADLOCK FALSE
