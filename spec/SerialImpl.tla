----------------------------- MODULE SerialImpl -----------------------------
(***************************************************************************)
(* Implementation-shaped model of message dispatch on several connections  *)
(* (C08): one serve goroutine per connection (diam/server.go Server.Serve, *)
(* conn.serve) that reads a message and calls the handler synchronously    *)
(* before reading the next; the ServeMux takes only a read lock.           *)
(* PerMessageGoroutine / GlobalLock are sensitivity switches: a handler    *)
(* goroutine per message, and a process-wide dispatch lock.                *)
(***************************************************************************)
EXTENDS Integers, Sequences, FiniteSets, TLC
CONSTANTS Conns, MaxMsgs, PerMessageGoroutine, GlobalLock
VARIABLES arrived,   \* conn -> number of complete messages delivered by the peer
          running,   \* conn -> set of message numbers whose handler is running
          done,      \* conn -> set of message numbers whose handler returned
          nextRead,  \* conn -> next message number the serve loop will read
          held,      \* set of <<conn, msg>> handlers the test holds
          order      \* conn -> sequence of message numbers in handler-entry order
vars == <<arrived, running, done, nextRead, held, order>>

Init == /\ arrived = [c \in Conns |-> 0] /\ running = [c \in Conns |-> {}] /\ done = [c \in Conns |-> {}]
        /\ nextRead = [c \in Conns |-> 1] /\ held = {} /\ order = [c \in Conns |-> <<>>]
Arrive(c) == /\ arrived[c] < MaxMsgs /\ arrived' = [arrived EXCEPT ![c] = @ + 1]
             /\ UNCHANGED <<running, done, nextRead, held, order>>
LockFree(c) == ~GlobalLock \/ \A d \in Conns : running[d] = {}
Enter(c) == /\ nextRead[c] <= arrived[c]
            /\ (PerMessageGoroutine \/ running[c] = {})       \* the serve loop is not inside a handler
            /\ LockFree(c)
            /\ running' = [running EXCEPT ![c] = @ \cup {nextRead[c]}]
            /\ order' = [order EXCEPT ![c] = Append(@, nextRead[c])]
            /\ nextRead' = [nextRead EXCEPT ![c] = @ + 1]
            /\ UNCHANGED <<arrived, done, held>>
Hold(c, i) == /\ i \in running[c] /\ <<c, i>> \notin held /\ Cardinality(held) = 0
              /\ held' = held \cup {<<c, i>>} /\ UNCHANGED <<arrived, running, done, nextRead, order>>
Release(c, i) == /\ <<c, i>> \in held /\ held' = held \ {<<c, i>>}
                 /\ UNCHANGED <<arrived, running, done, nextRead, order>>
Exit(c, i) == /\ i \in running[c] /\ <<c, i>> \notin held
              /\ running' = [running EXCEPT ![c] = @ \ {i}] /\ done' = [done EXCEPT ![c] = @ \cup {i}]
              /\ UNCHANGED <<arrived, nextRead, held, order>>
Next == \E c \in Conns : Arrive(c) \/ Enter(c) \/ \E i \in 1..MaxMsgs : Hold(c, i) \/ Release(c, i) \/ Exit(c, i)
Spec == Init /\ [][Next]_vars

\* SerialObs at design level
OneAtATime == \A c \in Conns : Cardinality(running[c]) <= 1
InOrder    == \A c \in Conns : \A k \in 1..Len(order[c]) : order[c][k] = k
PreviousReturned == \A c \in Conns : \A i \in running[c] : \A j \in 1..(i - 1) : j \in done[c]
\* a handler held on one connection does not delay dispatch on another
NoInterference == \A a \in Conns, b \in Conns :
   (a # b /\ (\E i \in 1..MaxMsgs : <<a, i>> \in held) /\ running[b] = {} /\ nextRead[b] <= arrived[b]) => ENABLED Enter(b)
=============================================================================
