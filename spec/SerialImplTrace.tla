-------------------------- MODULE SerialImplTrace --------------------------
(***************************************************************************)
(* Conformance of recorded dispatch histories to SerialImpl (C08): the     *)
(* merged log of what the test does (arrive{c}: a complete message of      *)
(* connection c is handed to the transport, logged before the bytes that   *)
(* complete it are fed) and of the serve loops' internal events (verif     *)
(* hook in diam/server.go conn.serve: serve.msg{c} right before the        *)
(* handler is called, serve.ret{c} right after it returned) must be a      *)
(* behaviour of SerialImpl: a serve loop calls the handler of the next     *)
(* message only when it has arrived and the previous call has returned.    *)
(* Holding and releasing a handler are the test's doing and are not        *)
(* logged: Exit is taken whenever the call has returned.                   *)
(***************************************************************************)
EXTENDS SerialImpl, Json
Trace == ndJsonDeserialize("trace.ndjson")
VARIABLE l
Ev(name) == l <= Len(Trace) /\ Trace[l].ev = name /\ l' = l + 1
TReset  == /\ Ev("reset")
           /\ arrived' = [c \in Conns |-> 0] /\ running' = [c \in Conns |-> {}] /\ done' = [c \in Conns |-> {}]
           /\ nextRead' = [c \in Conns |-> 1] /\ held' = {} /\ order' = [c \in Conns |-> <<>>]
TArrive == Ev("arrive") /\ Arrive(Trace[l].c)
TMsg    == Ev("serve.msg") /\ Enter(Trace[l].c)
TRet    == Ev("serve.ret") /\ \E i \in running[Trace[l].c] : Exit(Trace[l].c, i)
TNext == TReset \/ TArrive \/ TMsg \/ TRet
TInit == Init /\ l = 1 /\ TLCSet(1, 0)
HW == TLCSet(1, IF TLCGet(1) < l THEN l ELSE TLCGet(1))
Post == PrintT(<<"HIGHWATER", TLCGet(1)>>)
=============================================================================
