CONSTANTS Conns = {1, 2}
  MaxMsgs = 3
  PerMessageGoroutine = FALSE
  GlobalLock = TRUE
INIT Init
NEXT Next
INVARIANTS NoInterference
CHECK_DEADLOCK FALSE
