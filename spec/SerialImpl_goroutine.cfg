CONSTANTS Conns = {1, 2}
  MaxMsgs = 3
  PerMessageGoroutine = TRUE
  GlobalLock = FALSE
INIT Init
NEXT Next
INVARIANTS OneAtATime
CHECK_DEADLOCK FALSE
