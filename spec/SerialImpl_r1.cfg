CONSTANTS Conns = {1, 2}
  MaxMsgs = 3
  PerMessageGoroutine = FALSE
  GlobalLock = FALSE
INIT Init
NEXT Next
INVARIANTS OneAtATime InOrder PreviousReturned NoInterference
CHECK_DEADLOCK FALSE
