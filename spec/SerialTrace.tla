----------------------------- MODULE SerialTrace -----------------------------
(* R3 for C08: stateful validation of enter/exit traces; a rejected scenario is skipped up to its end. *)
EXTENDS Serial, Json
Trace == ndJsonDeserialize("trace.ndjson")
VARIABLES l, st
Init == l = 1 /\ st = St0(1)
Next == /\ l <= Len(Trace)
        /\ l' = l + 1
        /\ LET e == Trace[l] IN
           IF e.ev = "reset" THEN st' = [St0(e.conns) EXCEPT !.msgs = e.msgs]
           ELSE IF st.dead THEN st' = st
           ELSE LET r == Step(st, e) IN
                IF r.ok THEN st' = r.st
                ELSE PrintT(<<"BADLINE", l, <<r.why>>>>) /\ st' = [st EXCEPT !.dead = TRUE]
=============================================================================
