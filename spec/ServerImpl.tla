----------------------------- MODULE ServerImpl -----------------------------
(***************************************************************************)
(* Implementation-shaped model of Server.Serve and per-connection fault    *)
(* handling (C15): accept loop (temporary error => back off and continue;  *)
(* other error => return), one serve goroutine per accepted connection     *)
(* with a deferred recover + transport Close, read errors other than EOF   *)
(* reported to the handler's ErrorReporter.  ServeMux.Error OFFERS the     *)
(* report: a non-blocking send on a one-slot channel (slot), so a report   *)
(* offered while the previous one has not been received is dropped.        *)
(* SequencedBad = TRUE: the environment delivers the next undecodable      *)
(* input only after the previous report was received (what the harness     *)
(* does); then no report is lost (NoDrop).  FALSE is a sensitivity         *)
(* configuration: TLC must find the dropped report.                        *)
(* TLS = TRUE: an accepted connection first performs the TLS handshake, in  *)
(* its own serve goroutine (HsInServe = TRUE, as conn.serve does); a peer   *)
(* may complete it, fail it (the connection is closed) or stall for ever.   *)
(* HsInServe = FALSE is a sensitivity configuration: the handshake done by  *)
(* the accept loop lets one stalled peer stop all acceptance.               *)
(* Sensitivity switches: Recover = FALSE (a handler panic kills the        *)
(* process), RetryTemp = FALSE (Serve returns on a temporary accept error).*)
(***************************************************************************)
EXTENDS Integers, Sequences, FiniteSets, TLC
CONSTANTS NConns, MaxMsgs, MaxTempErrs, Recover, RetryTemp, SequencedBad, TLS, HsInServe
VARIABLES acceptq,   \* what the listener will hand out: seq of "conn" | "temp"
          serving,   \* FALSE once Serve has returned
          alive,     \* process alive
          st,        \* conn -> "pending" | "hs" (TLS handshake in progress) | "open" | "closed"
          sent,      \* conn -> messages sent by the peer so far (faults included)
          answered,  \* conn -> number of requests answered
          faulted,   \* conn -> fault kind or "none"
          reports,   \* error reports offered
          slot,      \* 1 = a report sits in the one-slot channel
          received,  \* reports received by the application
          dropped    \* reports offered while the slot was occupied
rep == <<reports, slot, received, dropped>>
vars == <<acceptq, serving, alive, st, sent, answered, faulted, reports, slot, received, dropped>>
Conns == 1..NConns
Queues == {q \in UNION {[1..n -> {"conn", "temp"}] : n \in NConns..(NConns + MaxTempErrs)} :
             Cardinality({i \in DOMAIN q : q[i] = "conn"}) = NConns}
Init == /\ acceptq \in Queues /\ serving = TRUE /\ alive = TRUE
        /\ st = [c \in Conns |-> "pending"] /\ sent = [c \in Conns |-> 0] /\ answered = [c \in Conns |-> 0]
        /\ faulted = [c \in Conns |-> "none"] /\ reports = 0 /\ slot = 0 /\ received = 0 /\ dropped = 0
NextPending == CHOOSE c \in Conns : st[c] = "pending" /\ \A d \in Conns : st[d] = "pending" => c <= d
\* the accept loop is busy with a handshake of its own when it, not the serve goroutine, performs it
AcceptLoopFree == HsInServe \/ \A c \in Conns : st[c] # "hs"
Accept == /\ serving /\ alive /\ acceptq # <<>> /\ AcceptLoopFree
          /\ acceptq' = Tail(acceptq)
          /\ IF Head(acceptq) = "conn" THEN st' = [st EXCEPT ![NextPending] = IF TLS THEN "hs" ELSE "open"] /\ UNCHANGED serving
             ELSE UNCHANGED st /\ serving' = RetryTemp
          /\ UNCHANGED <<alive, sent, answered, faulted, rep>>
Request(c) == /\ alive /\ st[c] = "open" /\ sent[c] < MaxMsgs
              /\ sent' = [sent EXCEPT ![c] = @ + 1] /\ answered' = [answered EXCEPT ![c] = @ + 1]
              /\ UNCHANGED <<acceptq, serving, alive, st, faulted, rep>>
Fault(c, k) == /\ alive /\ st[c] = "open" /\ sent[c] < MaxMsgs /\ faulted[c] = "none"
               /\ sent' = [sent EXCEPT ![c] = @ + 1] /\ faulted' = [faulted EXCEPT ![c] = k]
               /\ IF k = "panic" /\ ~Recover THEN alive' = FALSE /\ UNCHANGED st
                  ELSE alive' = alive /\ st' = [st EXCEPT ![c] = "closed"]
               /\ (k = "bad" /\ SequencedBad) => slot = 0
               /\ IF k = "bad" THEN /\ reports' = reports + 1 /\ UNCHANGED received
                                     /\ IF slot = 0 THEN slot' = 1 /\ UNCHANGED dropped ELSE dropped' = dropped + 1 /\ UNCHANGED slot
                  ELSE UNCHANGED rep
               /\ UNCHANGED <<acceptq, serving, answered>>
\* TLS handshake outcomes; a stalled peer is simply one for which neither ever happens
HsDone(c) == /\ alive /\ st[c] = "hs" /\ faulted[c] = "none" /\ st' = [st EXCEPT ![c] = "open"]
             /\ UNCHANGED <<acceptq, serving, alive, sent, answered, faulted, rep>>
HsFail(c) == /\ alive /\ st[c] = "hs" /\ faulted[c] = "none"
             /\ st' = [st EXCEPT ![c] = "closed"] /\ faulted' = [faulted EXCEPT ![c] = "tlsbad"]
             /\ UNCHANGED <<acceptq, serving, alive, sent, answered, rep>>
HsStall(c) == /\ alive /\ st[c] = "hs" /\ faulted[c] = "none" /\ faulted' = [faulted EXCEPT ![c] = "tlsstall"]
              /\ UNCHANGED <<acceptq, serving, alive, st, sent, answered, rep>>
\* the application receives from ErrorReports()
Consume == /\ slot = 1 /\ slot' = 0 /\ received' = received + 1
           /\ UNCHANGED <<acceptq, serving, alive, st, sent, answered, faulted, reports, dropped>>
Next == Accept \/ Consume \/ \E c \in Conns : Request(c) \/ HsDone(c) \/ HsFail(c) \/ HsStall(c) \/ \E k \in {"panic", "bad", "eof"} : Fault(c, k)
Spec == Init /\ [][Next]_vars

\* IsolationObs at design level
FaultClosesOnlyItsConnection == \A c \in Conns : st[c] = "closed" => faulted[c] # "none"
HealthyServed == alive /\ \A c \in Conns : (faulted[c] = "none" /\ st[c] = "open") => answered[c] = sent[c]
UndecodableReported == reports = Cardinality({c \in Conns : faulted[c] = "bad"})
ReportsAccounted == reports = received + slot + dropped
NoDrop == dropped = 0
KeepsAccepting == (acceptq # <<>>) => (serving /\ alive)
\* whatever the connections accepted so far are doing, the next one can be accepted
AcceptNotBlocked == (acceptq # <<>> /\ serving /\ alive) => ENABLED Accept
=============================================================================
