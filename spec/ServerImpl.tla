----------------------------- MODULE ServerImpl -----------------------------
(***************************************************************************)
(* Implementation-shaped model of Server.Serve and per-connection fault    *)
(* handling (C15): accept loop (temporary error => back off and continue;  *)
(* other error => return), one serve goroutine per accepted connection     *)
(* with a deferred recover + transport Close, read errors other than EOF   *)
(* reported to the handler's ErrorReporter.                                *)
(* Sensitivity switches: Recover = FALSE (a handler panic kills the        *)
(* process), RetryTemp = FALSE (Serve returns on a temporary accept error).*)
(***************************************************************************)
EXTENDS Integers, Sequences, FiniteSets, TLC
CONSTANTS NConns, MaxMsgs, MaxTempErrs, Recover, RetryTemp
VARIABLES acceptq,   \* what the listener will hand out: seq of "conn" | "temp"
          serving,   \* FALSE once Serve has returned
          alive,     \* process alive
          st,        \* conn -> "pending" | "open" | "closed"
          sent,      \* conn -> messages sent by the peer so far (faults included)
          answered,  \* conn -> number of requests answered
          faulted,   \* conn -> fault kind or "none"
          reports    \* error reports offered
vars == <<acceptq, serving, alive, st, sent, answered, faulted, reports>>
Conns == 1..NConns
Queues == {q \in UNION {[1..n -> {"conn", "temp"}] : n \in NConns..(NConns + MaxTempErrs)} :
             Cardinality({i \in DOMAIN q : q[i] = "conn"}) = NConns}
Init == /\ acceptq \in Queues /\ serving = TRUE /\ alive = TRUE
        /\ st = [c \in Conns |-> "pending"] /\ sent = [c \in Conns |-> 0] /\ answered = [c \in Conns |-> 0]
        /\ faulted = [c \in Conns |-> "none"] /\ reports = 0
NextPending == CHOOSE c \in Conns : st[c] = "pending" /\ \A d \in Conns : st[d] = "pending" => c <= d
Accept == /\ serving /\ alive /\ acceptq # <<>>
          /\ acceptq' = Tail(acceptq)
          /\ IF Head(acceptq) = "conn" THEN st' = [st EXCEPT ![NextPending] = "open"] /\ UNCHANGED serving
             ELSE UNCHANGED st /\ serving' = RetryTemp
          /\ UNCHANGED <<alive, sent, answered, faulted, reports>>
Request(c) == /\ alive /\ st[c] = "open" /\ sent[c] < MaxMsgs
              /\ sent' = [sent EXCEPT ![c] = @ + 1] /\ answered' = [answered EXCEPT ![c] = @ + 1]
              /\ UNCHANGED <<acceptq, serving, alive, st, faulted, reports>>
Fault(c, k) == /\ alive /\ st[c] = "open" /\ sent[c] < MaxMsgs /\ faulted[c] = "none"
               /\ sent' = [sent EXCEPT ![c] = @ + 1] /\ faulted' = [faulted EXCEPT ![c] = k]
               /\ IF k = "panic" /\ ~Recover THEN alive' = FALSE /\ UNCHANGED st
                  ELSE alive' = alive /\ st' = [st EXCEPT ![c] = "closed"]
               /\ reports' = IF k = "bad" THEN reports + 1 ELSE reports
               /\ UNCHANGED <<acceptq, serving, answered>>
Next == Accept \/ \E c \in Conns : Request(c) \/ \E k \in {"panic", "bad", "eof"} : Fault(c, k)
Spec == Init /\ [][Next]_vars

\* IsolationObs at design level
FaultClosesOnlyItsConnection == \A c \in Conns : st[c] = "closed" => faulted[c] # "none"
HealthyServed == alive /\ \A c \in Conns : (faulted[c] = "none" /\ st[c] = "open") => answered[c] = sent[c]
UndecodableReported == reports = Cardinality({c \in Conns : faulted[c] = "bad"})
KeepsAccepting == (acceptq # <<>>) => (serving /\ alive)
=============================================================================
