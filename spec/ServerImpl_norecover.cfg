CONSTANTS NConns = 3
  MaxMsgs = 2
  MaxTempErrs = 2
  Recover = FALSE
  RetryTemp = TRUE
  SequencedBad = TRUE
  TLS = FALSE
  HsInServe = TRUE
INIT Init
NEXT Next
INVARIANTS HealthyServed
CHECK_DEADLOCK FALSE
