CONSTANTS NConns = 3
  MaxMsgs = 2
  MaxTempErrs = 2
  Recover = TRUE
  RetryTemp = FALSE
  SequencedBad = TRUE
INIT Init
NEXT Next
INVARIANTS KeepsAccepting
CHECK_DEADLOCK FALSE
