CONSTANTS NConns = 3
  MaxMsgs = 2
  MaxTempErrs = 2
  Recover = TRUE
  RetryTemp = TRUE
INIT Init
NEXT Next
INVARIANTS FaultClosesOnlyItsConnection HealthyServed UndecodableReported KeepsAccepting
CHECK_DEADLOCK FALSE
