CONSTANTS NConns = 3
  MaxMsgs = 2
  MaxTempErrs = 2
  Recover = TRUE
  RetryTemp = TRUE
  SequencedBad = TRUE
  TLS = FALSE
  HsInServe = TRUE
INIT Init
NEXT Next
INVARIANTS FaultClosesOnlyItsConnection HealthyServed UndecodableReported ReportsAccounted NoDrop KeepsAccepting
CHECK_DEADLOCK FALSE
