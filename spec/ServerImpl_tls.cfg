CONSTANTS NConns = 3
  MaxMsgs = 2
  MaxTempErrs = 1
  Recover = TRUE
  RetryTemp = TRUE
  SequencedBad = TRUE
  TLS = TRUE
  HsInServe = TRUE
INIT Init
NEXT Next
INVARIANTS FaultClosesOnlyItsConnection HealthyServed UndecodableReported ReportsAccounted NoDrop KeepsAccepting AcceptNotBlocked
CHECK_DEADLOCK FALSE
