CONSTANTS NConns = 3
  MaxMsgs = 2
  MaxTempErrs = 1
  Recover = TRUE
  RetryTemp = TRUE
  SequencedBad = TRUE
  TLS = TRUE
  HsInServe = FALSE
INIT Init
NEXT Next
INVARIANTS AcceptNotBlocked
CHECK_DEADLOCK FALSE
