------------------------------- MODULE Stream -------------------------------
(***************************************************************************)
(* Implementation-shaped reader for C05 (R1): ReadFull of the header, then *)
(* ReadFull of declared-H body bytes, over a source that returns arbitrary *)
(* fragments.  TLC checks it against StreamRef!Expected for every stream   *)
(* over the configured sizes, every truncation and every fragmentation.    *)
(***************************************************************************)
EXTENDS StreamRef
CONSTANTS HU,        \* header size in units
          Bodies,    \* set of body sizes in units
          MaxMsgs,
          Trailer,   \* units of trailing bytes after a malformed header
          WithTimeout
VARIABLES lens, total,   \* the stream (chosen in Init)
          avail,         \* bytes delivered by the transport and not yet read (one fragment at a time)
          sent,          \* bytes the transport has delivered so far
          pc,            \* "hdr" | "body" | "done"
          need,          \* bytes still needed by the current ReadFull
          got,           \* bytes obtained by the current ReadFull
          i,             \* index of the message being read
          consumed, results,
          stall          \* -1 = none; n >= 0 = the peer stalled after n bytes and the read deadline has passed (ReadTimeout)
vars == <<lens, total, avail, sent, pc, need, got, i, consumed, results, stall>>

Seqs(S, n) == UNION {[1..k -> S] : k \in 0..n}
Decl == {HU + b : b \in Bodies} \cup {HU - 1, 0}      \* well-formed sizes and two malformed declarations
Streams == {s \in Seqs(Decl, MaxMsgs) : \A k \in 1..Len(s) : s[k] < HU => k = Len(s)}
FullLen(s) == Sum(s, HU, Len(s)) + (IF Len(s) > 0 /\ s[Len(s)] < HU THEN Trailer ELSE 0)

Init == /\ lens \in Streams
        /\ total \in 0..FullLen(lens)
        /\ avail = 0 /\ sent = 0 /\ pc = "hdr" /\ need = HU /\ got = 0 /\ i = 1 /\ consumed = 0 /\ results = <<>> /\ stall = -1

\* the transport hands over the next fragment, of any size (one outstanding fragment at a time)
Deliver == /\ pc # "done" /\ avail = 0 /\ sent < total
           /\ \E k \in 1..(total - sent) : avail' = k /\ sent' = sent + k
           /\ UNCHANGED <<lens, total, pc, need, got, i, consumed, results, stall>>

Finish(kind, idx) == results' = Append(results, [kind |-> kind, idx |-> idx, consumed |-> consumed])

\* one Read call inside ReadFull: returns min(need, avail) bytes
ReadSome ==
  /\ pc \in {"hdr", "body"} /\ avail > 0 /\ need > 0
  /\ LET k == IF need < avail THEN need ELSE avail IN
     /\ avail' = avail - k /\ consumed' = consumed + k /\ got' = got + k /\ need' = need - k
     /\ UNCHANGED <<lens, total, sent, pc, i, results, stall>>

\* ReadFull completed
HdrDone ==
  /\ pc = "hdr" /\ need = 0
  /\ IF i > Len(lens) THEN FALSE        \* cannot happen: no bytes beyond the stream
     ELSE IF lens[i] < HU
       THEN /\ pc' = "done" /\ Finish("err", 0) /\ UNCHANGED <<need, got, i, consumed>>     \* rejected, nothing further read
       ELSE /\ pc' = "body" /\ need' = lens[i] - HU /\ got' = 0 /\ UNCHANGED <<i, consumed, results>>
  /\ UNCHANGED <<lens, total, avail, sent, stall>>
BodyDone ==
  /\ pc = "body" /\ need = 0
  /\ pc' = "hdr" /\ need' = HU /\ got' = 0 /\ i' = i + 1 /\ UNCHANGED consumed
  /\ Finish("msg", i)
  /\ UNCHANGED <<lens, total, avail, sent, stall>>
\* the source is exhausted inside ReadFull
SrcEnd ==
  /\ pc \in {"hdr", "body"} /\ need > 0 /\ avail = 0 /\ sent = total
  /\ pc' = "done" /\ UNCHANGED consumed
  /\ IF pc = "hdr" /\ got = 0 THEN Finish("eof", 0) ELSE Finish("err", 0)
  /\ UNCHANGED <<lens, total, avail, sent, need, got, i, stall>>

\* Server.ReadTimeout: the reader is waiting for bytes the peer does not send in time; the read
\* fails, the loop ends, and whatever the peer sends afterwards is never read
Timeout == /\ WithTimeout /\ pc \in {"hdr", "body"} /\ need > 0 /\ avail = 0 /\ sent < total
           /\ stall' = sent /\ pc' = "done" /\ Finish("err", 0)
           /\ UNCHANGED <<lens, total, avail, sent, need, got, i, consumed>>
Next == Deliver \/ ReadSome \/ HdrDone \/ BodyDone \/ SrcEnd \/ Timeout
Spec == Init /\ [][Next]_vars

\* R1: whatever the fragmentation, the reader's results are the expected ones
ResultsAreExpected == (pc = "done" /\ stall < 0) => results = Expected(lens, total, HU)
\* after a read timeout: exactly the messages wholly received before the stall (the expectation for the stream cut there)
Msgs(rs) == SelectSeq(rs, LAMBDA r : r.kind = "msg")
TimeoutDeliversPrefix == (pc = "done" /\ stall >= 0) => Msgs(results) = Msgs(Expected(lens, stall, HU))
PrefixAlways == stall >= 0 \/ \E k \in 0..Len(Expected(lens, total, HU)) : results = SubSeq(Expected(lens, total, HU), 1, k)
=============================================================================
