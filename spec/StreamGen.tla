----------------------------- MODULE StreamGen -----------------------------
(***************************************************************************)
(* R2 for C05: streams of real sizes (around the 1 KiB pooled read buffer) *)
(* with every placement of up to two split points at landmarks (inside a   *)
(* header, header end, inside a body, message end), every truncation       *)
(* landmark, one-byte reads for short streams, and every declared length   *)
(* 0..19 followed by trailing bytes.  One state = one case.                *)
(***************************************************************************)
EXTENDS StreamRef, FiniteSets, Json
CONSTANTS Sizes, MaxMsgs, MaxSplits
VARIABLE c
H == 20
Seqs(S, n) == UNION {[1..k -> S] : k \in 1..n}

Start(lens, i) == Sum(lens, H, i - 1)
Landmarks(lens) ==
  UNION {{Start(lens, i) + 10, Start(lens, i) + 20, Start(lens, i) + Wire(lens, H, i),
          Start(lens, i) + 20 + (Wire(lens, H, i) - 20) \div 2, Start(lens, i) + 1, Start(lens, i) + 19, Start(lens, i) + 21}
         : i \in 1..Len(lens)}

\* chunk sizes for a set of split offsets within (0, total)
RECURSIVE ChunksOf(_, _, _)
ChunksOf(splits, from, total) ==
  IF splits = {} THEN (IF total > from THEN <<total - from>> ELSE <<>>)
  ELSE LET m == CHOOSE x \in splits : \A y \in splits : x <= y
       IN <<m - from>> \o ChunksOf(splits \ {m}, m, total)
SplitSets(lens, total) ==
  LET L == {x \in Landmarks(lens) : x > 0 /\ x < total}
  IN {S \in SUBSET L : Cardinality(S) <= MaxSplits}

Cases ==
  LET streams == Seqs(Sizes, MaxMsgs) IN
  \* whole streams, every split set
  UNION {{[lens |-> s, total |-> Sum(s, H, Len(s)), chunks |-> ChunksOf(S, 0, Sum(s, H, Len(s)))]
            : S \in SplitSets(s, Sum(s, H, Len(s)))} : s \in streams}
  \* truncated at every landmark, delivered whole or with one split
  \cup UNION {UNION {{[lens |-> s, total |-> t, chunks |-> ChunksOf(S, 0, t)]
            : S \in {X \in SplitSets(s, t) : Cardinality(X) <= 1}} : t \in {x \in Landmarks(s) : x < Sum(s, H, Len(s))} \cup {0}} : s \in streams}
  \* one-byte reads for short streams
  \cup {[lens |-> s, total |-> Sum(s, H, Len(s)), chunks |-> [k \in 1..Sum(s, H, Len(s)) |-> 1]]
            : s \in {x \in streams : Sum(x, H, Len(x)) <= 100}}
  \* declared length 0..19, alone or after one good message, followed by 40 trailing bytes
  \cup UNION {{[lens |-> pre \o <<d>>, total |-> Sum(pre, H, Len(pre)) + H + 40, chunks |-> ch]
            : ch \in {<<Sum(pre, H, Len(pre)) + H + 40>>, <<Sum(pre, H, Len(pre)) + H, 40>>, <<Sum(pre, H, Len(pre)) + 10, 50>>}}
            : d \in 0..19, pre \in {<<>>, <<28>>, <<1045>>}}

Init == c \in Cases
Next == UNCHANGED c

\* R1: chunk sizes are positive and add up to the truncated length
ChunksSound == /\ \A k \in 1..Len(c.chunks) : c.chunks[k] > 0
               /\ Sum(c.chunks, 0, Len(c.chunks)) = c.total
Emit == PrintT(ToJson(c))
=============================================================================
