CONSTANTS Sizes = {20, 28, 1043, 1044, 1045, 5000}
  MaxMsgs = 3
  MaxSplits = 2
INIT Init
NEXT Next
INVARIANTS ChunksSound Emit
CHECK_DEADLOCK FALSE
