----------------------------- MODULE StreamRef -----------------------------
(***************************************************************************)
(* Message framing over a byte stream (C05).                               *)
(*                                                                         *)
(* A stream is the concatenation of messages with DECLARED lengths `lens`  *)
(* (a declared length below the header size H is malformed), truncated to  *)
(* `total` bytes.  Expected(lens, total, H) is the sequence of results a   *)
(* reader must produce, independent of how the transport fragments the     *)
(* bytes: [kind |-> "msg", idx, consumed] for each whole message, then     *)
(* "eof" when the stream ends on a message boundary, or "err" when it ends *)
(* inside a message (everything is consumed) or a declared length is below *)
(* H (exactly the header is consumed, nothing further).                    *)
(*                                                                         *)
(* The second half is an implementation-shaped reader (ReadFull of the     *)
(* header, then ReadFull of declared-H body bytes, over a source that      *)
(* returns arbitrary fragments) which TLC checks against Expected for all  *)
(* fragmentations (R1).                                                    *)
(***************************************************************************)
EXTENDS Integers, Sequences, TLC

RECURSIVE ExpFrom(_, _, _, _, _)
ExpFrom(lens, total, H, i, pos) ==
  IF pos = total THEN << [kind |-> "eof", idx |-> 0, consumed |-> pos] >>
  ELSE IF i > Len(lens) THEN << [kind |-> "eof", idx |-> 0, consumed |-> pos] >>
  ELSE IF total - pos < H THEN << [kind |-> "err", idx |-> 0, consumed |-> total] >>
  ELSE IF lens[i] < H THEN << [kind |-> "err", idx |-> 0, consumed |-> pos + H] >>
  ELSE IF total - pos < lens[i] THEN << [kind |-> "err", idx |-> 0, consumed |-> total] >>
  ELSE << [kind |-> "msg", idx |-> i, consumed |-> pos + lens[i]] >> \o ExpFrom(lens, total, H, i + 1, pos + lens[i])
Expected(lens, total, H) == ExpFrom(lens, total, H, 1, 0)

\* on-the-wire size of message i: a malformed one still occupies its header
Wire(lens, H, i) == IF lens[i] < H THEN H ELSE lens[i]
RECURSIVE Sum(_, _, _)
Sum(lens, H, i) == IF i = 0 THEN 0 ELSE Sum(lens, H, i - 1) + Wire(lens, H, i)

=============================================================================
