---------------------------- MODULE StreamTrace ----------------------------
(***************************************************************************)
(* R3 for C05: the results the real reader produced for a fragmented       *)
(* stream, against StreamRef!Expected.  Reasons:                           *)
(*   results   kinds / message indexes / number of results differ          *)
(*   consumed  bytes taken from the source differ from the declared sizes  *)
(*   mixed     bytes of one message were attributed to another             *)
(***************************************************************************)
EXTENDS StreamRef, Json, TLC
Trace == ndJsonDeserialize("trace.ndjson")
VARIABLE l
Init == l = 1

Strip(rs) == [k \in 1..Len(rs) |-> [kind |-> rs[k].kind, idx |-> rs[k].idx]]
\* a connection's serve loop does not tell its handler how the stream ended: only the
\* delivered messages are compared there, and that the loop ended
Msgs(rs) == SelectSeq(Strip(rs), LAMBDA r : r.kind = "msg")
Ended(rs) == Len(rs) > 0 /\ rs[Len(rs)].kind \in {"eof", "err"}
Cons(rs)  == [k \in 1..Len(rs) |-> rs[k].consumed]
Reasons(e) ==
  LET x == Expected(e.lens, e.total, 20) IN
    (IF (e.exact /\ Strip(e.results) # Strip(x)) \/ (~e.exact /\ (Msgs(e.results) # Msgs(x) \/ ~Ended(e.results)))
     THEN <<"results">> ELSE <<>>)
 \o (IF e.exact /\ Strip(e.results) = Strip(x) /\ Cons(e.results) # Cons(x) THEN <<"consumed">> ELSE <<>>)
 \o (IF \E k \in 1..Len(e.results) : ~e.results[k].pure THEN <<"mixed">> ELSE <<>>)

Next == /\ l <= Len(Trace)
        /\ l' = l + 1
        /\ LET r == Reasons(Trace[l]) IN r = <<>> \/ PrintT(<<"BADLINE", l, r>>)
=============================================================================
