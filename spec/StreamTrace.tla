---------------------------- MODULE StreamTrace ----------------------------
(***************************************************************************)
(* R3 for C05: the results the real reader produced for a fragmented       *)
(* stream, against StreamRef!Expected.  Reasons:                           *)
(*   results   kinds / message indexes / number of results differ          *)
(*   consumed  bytes taken from the source differ from the declared sizes  *)
(*   mixed     bytes of one message were attributed to another             *)
(***************************************************************************)
EXTENDS StreamRef, Json, TLC
Trace == ndJsonDeserialize("trace.ndjson")
VARIABLE l
Init == l = 1

Strip(rs) == [k \in 1..Len(rs) |-> [kind |-> rs[k].kind, idx |-> rs[k].idx]]
\* a connection's serve loop does not tell its handler how the stream ended: only the
\* delivered messages are compared there, and that the loop ended
Msgs(rs) == SelectSeq(Strip(rs), LAMBDA r : r.kind = "msg")
Ended(rs) == Len(rs) > 0 /\ rs[Len(rs)].kind \in {"eof", "err"}
Cons(rs)  == [k \in 1..Len(rs) |-> rs[k].consumed]
\* path "conn+timeout" (Server.ReadTimeout, the peer stalls after stallat bytes for longer than
\* the timeout, then sends the rest): exactly the messages wholly received before the stall are
\* delivered - the expectation for the stream cut at stallat - and the connection is closed
Reasons(e) ==
  LET x == Expected(e.lens, IF e.path = "conn+timeout" THEN e.stallat ELSE e.total, 20) IN
    (IF (e.exact /\ Strip(e.results) # Strip(x)) \/ (~e.exact /\ (Msgs(e.results) # Msgs(x) \/ ~Ended(e.results)))
     THEN <<"results">> ELSE <<>>)
 \o (IF e.exact /\ Strip(e.results) = Strip(x) /\ Cons(e.results) # Cons(x) THEN <<"consumed">> ELSE <<>>)
 \o (IF \E k \in 1..Len(e.results) : ~e.results[k].pure THEN <<"mixed">> ELSE <<>>)

Next == /\ l <= Len(Trace)
        /\ l' = l + 1
        /\ LET r == Reasons(Trace[l]) IN r = <<>> \/ PrintT(<<"BADLINE", l, r>>)
=============================================================================
