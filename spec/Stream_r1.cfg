CONSTANTS HU = 2
  Bodies = {0, 1, 3}
  MaxMsgs = 3
  Trailer = 3
INIT Init
NEXT Next
INVARIANTS ResultsAreExpected PrefixAlways
CHECK_DEADLOCK FALSE
