CONSTANTS HU = 2
  Bodies = {0, 1, 3}
  MaxMsgs = 3
  Trailer = 3
  WithTimeout = TRUE
INIT Init
NEXT Next
INVARIANTS ResultsAreExpected PrefixAlways TimeoutDeliversPrefix
CHECK_DEADLOCK FALSE
