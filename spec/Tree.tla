-------------------------------- MODULE Tree --------------------------------
(***************************************************************************)
(* Reference AVP search over an AVP forest (C20).  A node is               *)
(* [code, grouped, kids]; a position is the sequence of sibling indexes    *)
(* from the top level down to the node.                                    *)
(*   All(f, code)    every node with that code, depth-first document order *)
(*                   (a node before its children)                          *)
(*   First(f, code)  the first of them                                     *)
(*   Path(f, codes)  nodes reached by matching codes[1] at the top level,  *)
(*                   codes[2] among the children of a matching GROUPED     *)
(*                   node, and so on (strict per-level match)              *)
(***************************************************************************)
EXTENDS Integers, Sequences, SequencesExt, TLC

RECURSIVE Pre(_, _)
Pre(f, prefix) ==
  FlattenSeq([i \in 1..Len(f) |->
     <<[pos |-> Append(prefix, i), code |-> f[i].code]>> \o Pre(f[i].kids, Append(prefix, i))])
All(f, code) == LET p == SelectSeq(Pre(f, <<>>), LAMBDA n : n.code = code) IN [i \in 1..Len(p) |-> p[i].pos]

RECURSIVE PathFrom(_, _, _)
PathFrom(f, codes, prefix) ==
  FlattenSeq([i \in 1..Len(f) |->
     IF f[i].code # codes[1] THEN <<>>
     ELSE IF Len(codes) = 1 THEN << Append(prefix, i) >>
     ELSE IF ~f[i].grouped THEN <<>>
     ELSE PathFrom(f[i].kids, Tail(codes), Append(prefix, i))])
Path(f, codes) == PathFrom(f, codes, <<>>)

\* a name given together with a vendor id resolves only if the message's dictionary defines that name for
\* that vendor (qv = -1: any vendor; dv = the vendor the dictionary defines the name for)
Resolves(q) == q.qv = -1 \/ q.qv = q.dv
\* what a query must return: [res, err]
Want(f, q) ==
  CASE ~Resolves(q) -> [res |-> <<>>, err |-> TRUE]
    [] q.mode = "first" -> LET a == All(f, q.codes[1]) IN
                           IF a = <<>> THEN [res |-> <<>>, err |-> TRUE] ELSE [res |-> <<a[1]>>, err |-> FALSE]
    [] q.mode = "all"   -> LET a == All(f, q.codes[1]) IN [res |-> a, err |-> a = <<>>]
    [] q.mode = "path"  -> [res |-> Path(f, q.codes), err |-> FALSE]
QueryOK(f, q) == LET w == Want(f, q) IN q.res = w.res /\ q.err = w.err

RECURSIVE Size(_)
Size(f) == IF f = <<>> THEN 0 ELSE 1 + Size(f[1].kids) + Size(Tail(f))
=============================================================================
