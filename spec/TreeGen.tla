------------------------------ MODULE TreeGen ------------------------------
(***************************************************************************)
(* R1/R2 for C20: every AVP forest over codes {a, b (leaves), g1, g2       *)
(* (grouped)} with repeated codes across depths and empty groups, built as *)
(* a state machine: AddTop appends a tree from the set T1 (depth <= 2) to  *)
(* the top level, or the forest is one tree from T2 (depth <= 3).          *)
(***************************************************************************)
EXTENDS Tree, Json
CONSTANTS MaxTop, Deep
VARIABLE f
A == 9001  B == 9010  G1 == 9018  G2 == 9050
Leafs == {[code |-> A, grouped |-> FALSE, kids |-> <<>>], [code |-> B, grouped |-> FALSE, kids |-> <<>>]}
Seqs(S, n) == UNION {[1..k -> S] : k \in 0..n}
Wrap(S, n) == {[code |-> g, grouped |-> TRUE, kids |-> ks] : g \in {G1, G2}, ks \in Seqs(S, n)}
T0 == Leafs \cup Wrap({}, 0)
T1 == Leafs \cup Wrap(T0, 2)
T2 == Leafs \cup Wrap(T1, 2)
Init == f \in {<<>>} \cup (IF Deep THEN {<<t>> : t \in T2} ELSE {})
AddTop == /\ Len(f) < MaxTop /\ (IF Len(f) = 0 THEN TRUE ELSE f[1] \in T1)
          /\ \E t \in T1 : f' = Append(f, t)
Next == AddTop
\* R1: the reference search is self-consistent on every forest
SearchSound ==
  /\ \A c \in {A, B, G1, G2} :
       /\ Len(All(f, c)) <= Size(f)
       /\ Path(f, <<c>>) = SelectSeq(All(f, c), LAMBDA p : Len(p) = 1)      \* a one-step path = top-level matches
       /\ \A i \in 1..Len(All(f, c)) : \A j \in 1..Len(All(f, c)) : i < j => All(f, c)[i] # All(f, c)[j]
  /\ Len(Pre(f, <<>>)) = Size(f)
Emit == PrintT(ToJson([tree |-> f]))
=============================================================================
