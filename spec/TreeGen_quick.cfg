CONSTANTS MaxTop = 2
  Deep = TRUE
INIT Init
NEXT Next
INVARIANTS SearchSound Emit
CHECK_DEADLOCK FALSE
