CONSTANTS MaxTop = 3
  Deep = TRUE
INIT Init
NEXT Next
INVARIANTS SearchSound Emit
CHECK_DEADLOCK FALSE
