------------------------------ MODULE TreeTrace ------------------------------
(* R3 for C20: results of FindAVP / FindAVPs / FindAVPsWithPath on a forest, against Tree!Want. *)
EXTENDS Tree, Json
Trace == ndJsonDeserialize("trace.ndjson")
VARIABLE l
Init == l = 1
BadModes(e) == {e.q[i].mode : i \in {j \in 1..Len(e.q) : ~QueryOK(e.tree, e.q[j])}}
Next == /\ l <= Len(Trace)
        /\ l' = l + 1
        /\ LET e == Trace[l] b == BadModes(e) IN
           b = {} \/ PrintT(<<"BADLINE", l, <<IF "first" \in b THEN "first" ELSE IF "all" \in b THEN "all" ELSE "path">>>>)
=============================================================================
