------------------------------- MODULE VDict -------------------------------
(***************************************************************************)
(* The verification dictionary (application 999, vendor 99999): one AVP of *)
(* every type name a dictionary may declare, a vendor-specific twin of     *)
(* each, and second grouped AVPs for nesting.  The harness renders the     *)
(* same table as XML and loads it into the library; the "vdict" trace line *)
(* carries the harness's copy and is compared with VDictTable by TLC.      *)
(***************************************************************************)
EXTENDS Integers, Sequences

VApp    == 999
VVendor == 99999
VCmd    == 9999

VKinds == << "u32", "i32", "enum", "f32", "u64", "i64", "f64", "time", "addr", "octets", "utf8",
             "ident", "uri", "ipfilter", "qos", "ipv4", "ipv6", "grouped" >>
VTypeNames == << "Unsigned32", "Integer32", "Enumerated", "Float32", "Unsigned64", "Integer64", "Float64",
                 "Time", "Address", "OctetString", "UTF8String", "DiameterIdentity", "DiameterURI",
                 "IPFilterRule", "QoSFilterRule", "IPv4", "IPv6", "Grouped" >>

KindIndex(k) == CHOOSE i \in 1..Len(VKinds) : VKinds[i] = k
VCode(k)  == 9000 + KindIndex(k)     \* vendor 0
VVCode(k) == 9100 + KindIndex(k)     \* vendor 99999
VGroup2  == 9050
VVGroup2 == 9150

VDictTable ==
  {[app |-> VApp, code |-> 9000 + i, vendor |-> 0, name |-> "V-" \o VTypeNames[i], kind |-> VKinds[i], must |-> "M"] : i \in 1..Len(VKinds)}
  \cup {[app |-> VApp, code |-> 9100 + i, vendor |-> VVendor, name |-> "VV-" \o VTypeNames[i], kind |-> VKinds[i], must |-> "M,V"] : i \in 1..Len(VKinds)}
  \cup {[app |-> VApp, code |-> VGroup2, vendor |-> 0, name |-> "V-Grouped2", kind |-> "grouped", must |-> "M"],
        [app |-> VApp, code |-> VVGroup2, vendor |-> VVendor, name |-> "VV-Grouped2", kind |-> "grouped", must |-> "M,V"],
        \* definitions whose flag rule text and vendor id disagree: the V flag follows the vendor id
        [app |-> VApp, code |-> 9201, vendor |-> VVendor, name |-> "VW-Unsigned32", kind |-> "u32", must |-> "M"],
        [app |-> VApp, code |-> 9202, vendor |-> 0, name |-> "VX-OctetString", kind |-> "octets", must |-> "M,V"]}
=============================================================================
