------------------------------ MODULE Watchdog ------------------------------
(***************************************************************************)
(* WatchdogObs (C13, client half): what must be observed when a client     *)
(* with the watchdog enabled (budget B, WatchdogInterval wi, Retransmit-   *)
(* Interval ri, in ms) talks to a peer following a count-driven script:    *)
(*   "all"        every DWR is answered with a success DWA                 *)
(*   "stop_after" the first n rounds are answered, then silence            *)
(*   "only_retx"  in every round only the j-th copy is answered (j<=B+1)   *)
(*   "fail"       every DWR is answered with a failing Result-Code         *)
(*   "none"       no DWR is answered                                       *)
(*   "wfail_none" the transport refuses the first DWR (temporary error),   *)
(*                the peer never answers: the next round exhausts the      *)
(*                budget and the connection is closed                      *)
(*   "noresult"   every DWR is answered with a DWA lacking a Result-Code   *)
(*   "dup"        every DWR is answered with two success DWAs              *)
(*   "multi_stop" the first n rounds are answered with j success DWAs per  *)
(*                DWR (duplicates pile up), then silence                   *)
(* sync = TRUE: the answer is delivered and handled before the transport   *)
(* write of the DWR returns (the peer answered every DWR all the same).    *)
(* A round = the copies of one DWR (same hop-by-hop id).                   *)
(***************************************************************************)
EXTENDS Integers, Sequences, TLC

Closes(s) == s.kind \in {"stop_after", "multi_stop", "fail", "none", "noresult", "wfail_none"}
\* copies expected in round r (1-based)
Copies(s, r) == CASE s.kind \in {"all", "dup"} -> 1
                  [] s.kind = "only_retx" -> s.j
                  [] s.kind \in {"stop_after", "multi_stop"} -> IF r <= s.n THEN 1 ELSE s.budget + 1
                  [] OTHER -> s.budget + 1
NRounds(s) == CASE s.kind \in {"stop_after", "multi_stop"} -> s.n + 1 [] s.kind \in {"fail", "none", "noresult", "wfail_none"} -> 1 [] OTHER -> s.rounds

Reasons(s, o) ==
     (IF Len(o.rounds) # NRounds(s) THEN <<"round-count">> ELSE <<>>)
  \o (IF \E r \in 1..Len(o.rounds) : o.rounds[r].ncopies > s.budget + 1 THEN <<"too-many-copies">> ELSE <<>>)
  \o (IF \E r \in 1..Len(o.rounds) : r <= NRounds(s) /\ o.rounds[r].ncopies # Copies(s, r) THEN <<"copies">> ELSE <<>>)
  \o (IF \E r \in 1..Len(o.rounds) : ~o.rounds[r].identical THEN <<"copy-differs">> ELSE <<>>)
  \o (IF \E r \in 1..Len(o.rounds) : o.rounds[r].ncopies > 1 /\ o.rounds[r].mingap < s.ri THEN <<"retransmit-spacing">> ELSE <<>>)
  \o (IF \E r \in 1..Len(o.rounds) : o.rounds[r].startgap < s.wi THEN <<"watchdog-spacing">> ELSE <<>>)
  \o (IF ~o.identity THEN <<"identity">> ELSE <<>>)
  \o (IF Closes(s) /\ ~o.closed THEN <<"not-closed">> ELSE <<>>)
  \o (IF ~Closes(s) /\ o.closed THEN <<"closed-responsive-peer">> ELSE <<>>)
=============================================================================
