----------------------------- MODULE WatchdogGen -----------------------------
(* R2 for C13: every budget x answer pattern x delivery mode. One state = one script. *)
EXTENDS Watchdog, Json
CONSTANTS MaxBudget, Rounds
VARIABLE s
Mk(b, k, n, j, sy) == [budget |-> b, kind |-> k, n |-> n, j |-> j, sync |-> sy, rounds |-> Rounds, wi |-> 60, ri |-> 30, delay |-> 0, hsslow |-> FALSE, redial |-> FALSE]
\* "late": every DWR is answered after `delay` ms, later than the watchdog interval but well inside
\* the retransmission interval (a configuration with RetransmitInterval > WatchdogInterval)
Late(b) == [budget |-> b, kind |-> "all", n |-> 0, j |-> 0, sync |-> FALSE, rounds |-> Rounds, wi |-> 30, ri |-> 240, delay |-> 90, hsslow |-> FALSE, redial |-> FALSE]
\* "hsslow": the peer answers only the second CER, RetransmitInterval (120 ms) after the first: the handshake takes
\* several watchdog intervals (30 ms), and no DWR is due before it has completed
SlowHS(b) == [Mk(b, "all", 0, 0, FALSE) EXCEPT !.hsslow = TRUE, !.wi = 30, !.ri = 120]
\* "redial": the same Client has just been used for another connection, whose peer stopped answering and which the
\* application closed in the middle of a watchdog round (its goroutine may still be around for (budget+1) x 120 ms);
\* the connection under observation gets its own watchdog all the same
Redial(b, k) == [Mk(b, k, 0, 0, FALSE) EXCEPT !.redial = TRUE, !.wi = 30, !.ri = 120]
Init == s \in {Mk(b, "all", 0, 0, sy) : b \in 0..MaxBudget, sy \in BOOLEAN}
         \cup {Mk(b, "stop_after", n, 0, sy) : b \in 0..MaxBudget, n \in 1..2, sy \in BOOLEAN}
         \cup {Mk(b, "only_retx", 0, j, sy) : b \in 1..MaxBudget, j \in 2..(MaxBudget + 1), sy \in BOOLEAN}
         \cup {Mk(b, k, 0, 0, FALSE) : b \in 0..MaxBudget, k \in {"fail", "none", "noresult", "wfail_none"}}
         \cup {Mk(b, "dup", 0, 0, sy) : b \in 0..MaxBudget, sy \in BOOLEAN}
         \cup {Mk(b, "multi_stop", n, j, sy) : b \in 0..MaxBudget, n \in 1..2, j \in 2..4, sy \in BOOLEAN}
         \cup {Late(b) : b \in 0..1}
         \cup {SlowHS(b) : b \in 1..MaxBudget}
         \cup {Redial(b, k) : b \in 1..MaxBudget, k \in {"all", "none"}}
Next == UNCHANGED s
Canon == s.kind = "only_retx" => s.j <= s.budget + 1
\* R1: the expectation is total and bounded
WellDefined == NRounds(s) >= 1 /\ \A r \in 1..NRounds(s) : Copies(s, r) \in 1..(s.budget + 1)
Emit == ~Canon \/ PrintT(ToJson(s))
=============================================================================
