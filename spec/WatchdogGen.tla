----------------------------- MODULE WatchdogGen -----------------------------
(* R2 for C13: every budget x answer pattern x delivery mode. One state = one script. *)
EXTENDS Watchdog, Json
CONSTANTS MaxBudget, Rounds
VARIABLE s
Mk(b, k, n, j, sy) == [budget |-> b, kind |-> k, n |-> n, j |-> j, sync |-> sy, rounds |-> Rounds, wi |-> 60, ri |-> 30, delay |-> 0]
\* "late": every DWR is answered after `delay` ms, later than the watchdog interval but well inside
\* the retransmission interval (a configuration with RetransmitInterval > WatchdogInterval)
Late(b) == [budget |-> b, kind |-> "all", n |-> 0, j |-> 0, sync |-> FALSE, rounds |-> Rounds, wi |-> 30, ri |-> 240, delay |-> 90]
Init == s \in {Mk(b, "all", 0, 0, sy) : b \in 0..MaxBudget, sy \in BOOLEAN}
         \cup {Mk(b, "stop_after", n, 0, sy) : b \in 0..MaxBudget, n \in 1..2, sy \in BOOLEAN}
         \cup {Mk(b, "only_retx", 0, j, sy) : b \in 1..MaxBudget, j \in 2..(MaxBudget + 1), sy \in BOOLEAN}
         \cup {Mk(b, k, 0, 0, FALSE) : b \in 0..MaxBudget, k \in {"fail", "none", "noresult", "wfail_none"}}
         \cup {Mk(b, "dup", 0, 0, sy) : b \in 0..MaxBudget, sy \in BOOLEAN}
         \cup {Mk(b, "multi_stop", n, j, sy) : b \in 0..MaxBudget, n \in 1..2, j \in 2..4, sy \in BOOLEAN}
         \cup {Late(b) : b \in 0..1}
Next == UNCHANGED s
Canon == s.kind = "only_retx" => s.j <= s.budget + 1
\* R1: the expectation is total and bounded
WellDefined == NRounds(s) >= 1 /\ \A r \in 1..NRounds(s) : Copies(s, r) \in 1..(s.budget + 1)
Emit == ~Canon \/ PrintT(ToJson(s))
=============================================================================
