CONSTANTS MaxBudget = 2
  Rounds = 3
INIT Init
NEXT Next
INVARIANTS Emit
CHECK_DEADLOCK FALSE
