CONSTANTS MaxBudget = 3
  Rounds = 5
INIT Init
NEXT Next
INVARIANTS Emit
CHECK_DEADLOCK FALSE
