---------------------------- MODULE WatchdogImpl ----------------------------
(***************************************************************************)
(* Implementation-shaped model of the client watchdog (C13):               *)
(* diam/sm/client.go watchdog() / dwr() and diam/sm/dwa.go handleDWA with  *)
(* the dwac channel.                                                       *)
(*   watchdog goroutine: Tick (WatchdogInterval elapsed: start a round),   *)
(*     WriteDWR (the DWR is on the wire, the goroutine has not yet reached *)
(*     its select), EnterSelect, Ack (receive from dwac), Timer            *)
(*     (RetransmitInterval elapsed), GiveUp (budget exhausted: Close)      *)
(*   serve goroutine: HandleDWA - a success answer does a NON-BLOCKING     *)
(*     send on dwac: with an unbuffered channel it is delivered only while *)
(*     the watchdog is parked in its select, otherwise dropped; with a     *)
(*     one-slot buffer (Buffered = TRUE, the repaired code) it is kept.    *)
(*   peer: answers DWRs according to Mode ("all", "none", "fail"; "dup" =  *)
(*     every copy answered and further success answers sent unsolicited;   *)
(*     "any" = each copy answered with success, with a failure, or         *)
(*     ignored, and unsolicited answers).                                  *)
(* Time is abstracted: the retransmission timer fires only when no answer  *)
(* to the outstanding copy is pending (a responsive peer answers well      *)
(* within the interval), so "responsive peer is spared" is an invariant.   *)
(***************************************************************************)
EXTENDS Integers, Sequences, TLC
\* (the @type comments are for Apalache, see WatchdogInd.tla; TLC ignores them)
CONSTANTS
  \* @type: Int;
  MaxRetx,
  \* @type: Int;
  MaxRounds,
  \* @type: Str;
  Mode,
  \* @type: Bool;
  Buffered,
  \* @type: Bool;
  WithWriteFailures
VARIABLES
  \* @type: Str;
  wd,       \* "sleep" | "towrite" | "written" | "select" | "exited"
  \* @type: Int;
  i,        \* copies sent in the current round
  \* @type: Int;
  round,
  \* @type: Bool;
  slot,     \* one-slot buffer of dwac (Buffered only): TRUE = an ack is waiting
  \* @type: Int;
  toPeer,   \* DWR copies written and not yet seen by the peer
  \* @type: Seq(Str);
  inq,      \* DWAs in flight to the client: seq of "ok" | "fail"
  \* @type: Bool;
  acked,    \* the current round was acknowledged
  \* @type: Bool;
  closed
vars == <<wd, i, round, slot, toPeer, inq, acked, closed>>

Init == wd = "sleep" /\ i = 0 /\ round = 0 /\ slot = FALSE /\ toPeer = 0 /\ inq = <<>> /\ acked = FALSE /\ closed = FALSE

Tick == /\ wd = "sleep" /\ ~closed /\ round < MaxRounds
        /\ round' = round + 1 /\ i' = 0 /\ acked' = FALSE /\ wd' = "towrite"
        /\ slot' = FALSE                     \* a stale ack of an earlier round is drained before sending
        /\ UNCHANGED <<toPeer, inq, closed>>
WriteDWR == /\ wd = "towrite" /\ ~closed
            /\ i' = i + 1 /\ toPeer' = toPeer + 1 /\ wd' = "written"
            /\ UNCHANGED <<round, slot, inq, acked, closed>>
\* the transport refuses the DWR (a temporary error, nothing accepted): the round is abandoned, the
\* watchdog goes on with the next period (WithWriteFailures only: the R1 configurations of C13 keep it off)
WriteFails == /\ WithWriteFailures /\ wd = "towrite" /\ ~closed
              /\ wd' = "sleep" /\ UNCHANGED <<i, round, slot, toPeer, inq, acked, closed>>
EnterSelect == /\ wd = "written" /\ wd' = "select" /\ UNCHANGED <<i, round, slot, toPeer, inq, acked, closed>>
\* select: an ack is available (buffer slot); with an unbuffered channel the rendezvous is part of HandleDWA
AckFromSlot == /\ wd = "select" /\ Buffered /\ slot
               /\ slot' = FALSE /\ acked' = TRUE /\ wd' = "sleep"
               /\ UNCHANGED <<i, round, toPeer, inq, closed>>
\* the retransmission timer: only when the peer is not about to answer the outstanding copy
Timer == /\ wd = "select" /\ toPeer = 0 /\ inq = <<>> /\ ~(Buffered /\ slot)
         /\ IF i > MaxRetx THEN wd' = "exited" /\ closed' = TRUE ELSE wd' = "towrite" /\ UNCHANGED closed
         /\ UNCHANGED <<i, round, slot, toPeer, inq, acked>>
\* the peer sees a DWR copy and answers it (success / failure) or ignores it, as its Mode allows
PeerAnswer(k) == /\ toPeer > 0 /\ toPeer' = toPeer - 1
                 /\ ((k = "ok" /\ Mode \in {"all", "dup", "any"}) \/ (k = "fail" /\ Mode \in {"fail", "any"}))
                 /\ inq' = Append(inq, k)
                 /\ UNCHANGED <<wd, i, round, slot, acked, closed>>
PeerIgnore == /\ toPeer > 0 /\ toPeer' = toPeer - 1 /\ Mode \in {"none", "any"}
              /\ UNCHANGED <<wd, i, round, slot, inq, acked, closed>>
\* a duplicate / unsolicited success answer (bounded: at most three answers in flight)
PeerDup == /\ Mode \in {"dup", "any"} /\ round > 0 /\ ~closed /\ Len(inq) < 3
           /\ inq' = Append(inq, "ok")
           /\ UNCHANGED <<wd, i, round, slot, toPeer, acked, closed>>
Peer == PeerAnswer("ok") \/ PeerAnswer("fail") \/ PeerIgnore \/ PeerDup
HandleDWA ==
  /\ inq # <<>> /\ ~closed /\ inq' = Tail(inq)
  /\ IF Head(inq) = "fail" THEN UNCHANGED <<wd, slot, acked>>
     ELSE IF Buffered THEN slot' = TRUE /\ UNCHANGED <<wd, acked>>                  \* kept for the watchdog
     ELSE IF wd = "select" THEN wd' = "sleep" /\ acked' = TRUE /\ UNCHANGED slot     \* rendezvous
     ELSE UNCHANGED <<wd, slot, acked>>                                               \* dropped: nobody is receiving
  /\ UNCHANGED <<i, round, toPeer, closed>>
Next == Tick \/ WriteDWR \/ WriteFails \/ EnterSelect \/ AckFromSlot \/ Timer \/ Peer \/ HandleDWA
Spec == Init /\ [][Next]_vars

\* WatchdogObs at design level
Bounded           == i <= MaxRetx + 1
SparesResponsive  == Mode \in {"all", "dup"} => ~closed
ClosesOnlyExhausted == closed => (i = MaxRetx + 1 /\ ~acked)
FailIsNotAck      == Mode = "fail" => ~acked
=============================================================================
