-------------------------- MODULE WatchdogImplTrace --------------------------
(***************************************************************************)
(* Conformance of recorded watchdog executions to WatchdogImpl (C13): the  *)
(* merged log of the scripted peer (dwr.rx{k}: the peer saw a DWR copy and *)
(* will answer "ok" / "fail" or stay "silent", logged when the copy is     *)
(* written; dwa.dup: the peer sends one more success answer) and of the library's internal events (verif hook: wd.round,    *)
(* wd.send, wd.ack, wd.timer, wd.close, dwa.ack, dwa.drop, dwa.fail) must  *)
(* be a behaviour of WatchdogImpl (Mode = "any", one-slot channel).        *)
(***************************************************************************)
EXTENDS WatchdogImpl, Json
Trace == ndJsonDeserialize("trace.ndjson")
\* The dwac channel operations are the linearization points, the hooks are logged after them:
\* a channel receive / send may take effect as a silent step whose event line is still owed
\* (oweW: the watchdog goroutine's wd.ack, oweD: the serve goroutine's dwa.ack); the goroutine
\* that owes a line logs it before any other line of its own.
VARIABLES l, oweW, oweD
tv == <<l, oweW, oweD>>
Ev(name) == l <= Len(Trace) /\ Trace[l].ev = name /\ l' = l + 1
Stutter == UNCHANGED vars
WdEv(name) == Ev(name) /\ ~oweW /\ UNCHANGED <<oweW, oweD>>
SvEv(name) == Ev(name) /\ ~oweD /\ UNCHANGED <<oweW, oweD>>
EnvEv(name) == Ev(name) /\ UNCHANGED <<oweW, oweD>>
TReset == /\ EnvEv("reset")
          /\ wd' = "sleep" /\ i' = 0 /\ round' = 0 /\ slot' = FALSE /\ toPeer' = 0 /\ inq' = <<>> /\ acked' = FALSE /\ closed' = FALSE
TRound == WdEv("wd.round") /\ Tick
\* the DWR is on the wire before wd.send is logged: the write (WriteDWR) is silent, wd.send = the goroutine reaches its select
TSend  == WdEv("wd.send") /\ EnterSelect
TWFail == WdEv("wd.writefail") /\ WriteFails
TAck   == \/ WdEv("wd.ack") /\ AckFromSlot
          \/ Ev("wd.ack") /\ oweW /\ oweW' = FALSE /\ UNCHANGED oweD /\ Stutter
TTimer == WdEv("wd.timer") /\ Timer
TClose == WdEv("wd.close") /\ closed /\ Stutter
TRx    == EnvEv("dwr.rx") /\ (IF Trace[l].k = "silent" THEN PeerIgnore ELSE PeerAnswer(Trace[l].k))
TDup   == EnvEv("dwa.dup") /\ PeerDup
AckOK  == inq # <<>> /\ Head(inq) = "ok" /\ ~slot
TDAck  == \/ SvEv("dwa.ack") /\ AckOK /\ HandleDWA
          \/ Ev("dwa.ack") /\ oweD /\ oweD' = FALSE /\ UNCHANGED oweW /\ Stutter
TDDrop == SvEv("dwa.drop") /\ inq # <<>> /\ Head(inq) = "ok" /\ slot /\ HandleDWA
TDFail == SvEv("dwa.fail") /\ inq # <<>> /\ Head(inq) = "fail" /\ HandleDWA
Silent == /\ l <= Len(Trace) /\ UNCHANGED l
          /\ \/ ~oweW /\ WriteDWR /\ UNCHANGED <<oweW, oweD>>
             \/ ~oweW /\ AckFromSlot /\ oweW' = TRUE /\ UNCHANGED oweD
             \/ ~oweD /\ AckOK /\ HandleDWA /\ oweD' = TRUE /\ UNCHANGED oweW
TNext == TReset \/ TDup \/ TRound \/ TSend \/ TWFail \/ TAck \/ TTimer \/ TClose \/ TRx \/ TDAck \/ TDDrop \/ TDFail \/ Silent
TInit == Init /\ l = 1 /\ oweW = FALSE /\ oweD = FALSE /\ TLCSet(1, 0)
NotDone == l <= Len(Trace)
HW == TLCSet(1, IF TLCGet(1) < l THEN l ELSE TLCGet(1))
Post == PrintT(<<"HIGHWATER", TLCGet(1)>>)
=============================================================================
