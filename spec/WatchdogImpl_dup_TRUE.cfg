CONSTANTS MaxRetx = 1
  MaxRounds = 3
  Mode = "dup"
  Buffered = TRUE
  WithWriteFailures = FALSE
INIT Init
NEXT Next
INVARIANTS Bounded SparesResponsive ClosesOnlyExhausted FailIsNotAck
CHECK_DEADLOCK FALSE
