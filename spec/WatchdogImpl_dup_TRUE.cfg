CONSTANTS MaxRetx = 1
  MaxRounds = 3
  Mode = "dup"
  Buffered = TRUE
INIT Init
NEXT Next
INVARIANTS Bounded SparesResponsive ClosesOnlyExhausted FailIsNotAck
CHECK_DEADLOCK FALSE
