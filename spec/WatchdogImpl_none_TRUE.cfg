CONSTANTS MaxRetx = 1
  MaxRounds = 3
  Mode = "none"
  Buffered = TRUE
  WithWriteFailures = FALSE
INIT Init
NEXT Next
INVARIANTS Bounded SparesResponsive ClosesOnlyExhausted FailIsNotAck
CHECK_DEADLOCK FALSE
