---------------------------- MODULE WatchdogInd ----------------------------
(***************************************************************************)
(* Unbounded safety of WatchdogImpl for a peer that answers every DWR      *)
(* (Mode = "all", one-slot channel): an inductive invariant discharged by  *)
(* Apalache for ANY retransmission budget and ANY number of rounds         *)
(*   apalache-mc check --init=IndInit --inv=IndInv --length=1 --cinit=CInit WatchdogInd.tla   (step)  *)
(*   apalache-mc check --init=Init    --inv=IndInv --length=0 --cinit=CInit WatchdogInd.tla   (base)  *)
(* TLC checks the same module exhaustively for small constants only.       *)
(* The strengthening: while a copy is outstanding its answer is somewhere  *)
(* (not yet seen by the peer, in flight, or in the slot), so the           *)
(* retransmission timer - which in this model fires only when no answer is *)
(* pending - never fires and the connection is never closed.               *)
(***************************************************************************)
EXTENDS WatchdogImpl

CInit == MaxRetx \in 0..1000 /\ MaxRounds \in 0..1000000 /\ Mode = "all" /\ Buffered = TRUE /\ WithWriteFailures \in BOOLEAN

\* sensitivity: with the unbuffered channel the same invariant is NOT inductive (Apalache must find the
\* lost acknowledgement)
CInitUnbuffered == MaxRetx \in 0..1000 /\ MaxRounds \in 0..1000000 /\ Mode = "all" /\ Buffered = FALSE /\ WithWriteFailures = FALSE

TypeOK == /\ wd \in {"sleep", "towrite", "written", "select", "exited"}
          /\ i \in 0..(MaxRetx + 1) /\ round \in 0..MaxRounds
          /\ slot \in BOOLEAN /\ acked \in BOOLEAN /\ closed \in BOOLEAN
          /\ toPeer \in 0..1 /\ Len(inq) <= 1 /\ \A k \in DOMAIN inq : inq[k] = "ok"
Pending == toPeer > 0 \/ inq # <<>> \/ slot
IndInv == /\ TypeOK
          /\ ~closed /\ wd # "exited"
          /\ toPeer + Len(inq) + (IF slot THEN 1 ELSE 0) <= 1     \* the one outstanding copy's answer is in one place
          /\ (wd \in {"written", "select"}) => (Pending /\ i = 1)
          /\ (wd = "towrite") => (i = 0 /\ toPeer = 0 /\ inq = <<>> /\ ~slot)
          /\ (wd = "sleep") => (toPeer = 0 /\ inq = <<>> /\ ~slot)
\* an arbitrary state satisfying the invariant (Apalache needs the variables generated)
IndInit == /\ wd \in {"sleep", "towrite", "written", "select", "exited"}
           /\ i \in 0..(MaxRetx + 1) /\ round \in 0..MaxRounds
           /\ slot \in BOOLEAN /\ acked \in BOOLEAN /\ closed \in BOOLEAN
           /\ toPeer \in 0..1 /\ inq \in {<<>>, <<"ok">>}
           /\ IndInv
\* what the invariant is for
Spared == IndInv => (SparesResponsive /\ Bounded)
=============================================================================
