---------------------------- MODULE WatchdogTrace ----------------------------
(* R3 for C13: DWRs recorded by the scripted peer, against Watchdog!Reasons;   *)
(* server half ("dwa" lines): the DWA a state machine returned for a DWR.      *)
EXTENDS Watchdog, Json
Trace == ndJsonDeserialize("trace.ndjson")
VARIABLE l
Init == l = 1
DwaReasons(e) ==
     (IF ~e.answered THEN <<"dwr-not-answered">> ELSE
        (IF e.rc # 2001 THEN <<"dwa-result">> ELSE <<>>)
     \o (IF e.hbh # e.req_hbh \/ e.e2e # e.req_e2e THEN <<"dwa-ids">> ELSE <<>>)
     \o (IF e.oh # e.want_oh \/ e.or # e.want_or THEN <<"dwa-identity">> ELSE <<>>)
     \o (IF e.closed THEN <<"dwa-closed">> ELSE <<>>))
Next == /\ l <= Len(Trace)
        /\ l' = l + 1
        /\ LET e == Trace[l]  r == IF e.ev = "wd" THEN Reasons(e.script, e.obs) ELSE DwaReasons(e) IN
           r = <<>> \/ PrintT(<<"BADLINE", l, r>>)
=============================================================================
