-------------------------------- MODULE Wire --------------------------------
(***************************************************************************)
(* Reference codec for the Diameter wire format, written from RFC 6733     *)
(* sections 3, 4.1-4.4 (docs/rfc6733.txt.gz), NOT from the Go code.        *)
(*                                                                         *)
(* Abstract message  [hdr |-> H, avps |-> <<A, ...>>]                      *)
(*   H = [version, flags : Byte, cmd : 3 bytes, app, hbh, e2e : 4 bytes]   *)
(*   A = [code : 4 bytes, flags : Byte, vendor : 4 bytes, kind : STRING,   *)
(*        sem : semantic value (see PayloadOf), kids : <<A, ...>>]         *)
(* kinds: u32 i32 enum f32 u64 i64 f64 (16-bit limbs of the value / IEEE   *)
(* bit pattern), time (4 limbs of the signed 64-bit Unix time), addr       *)
(* (family limb followed by address bytes), octets utf8 ident uri ipfilter *)
(* qos ipv4 ipv6 unknown (raw bytes), grouped (kids).                      *)
(***************************************************************************)
EXTENDS Bytes, TLC

VFlag == 128
MFlag == 64
PFlag == 32
HasV(flags) == (flags \div 128) % 2 = 1
HdrLen(flags) == IF HasV(flags) THEN 12 ELSE 8
MsgHdrLen == 20

Kinds32 == {"u32", "i32", "enum", "f32"}
Kinds64 == {"u64", "i64", "f64"}
KindsRaw == {"octets", "utf8", "ident", "uri", "ipfilter", "qos", "ipv4", "ipv6", "unknown"}
AllKinds == Kinds32 \cup Kinds64 \cup KindsRaw \cup {"time", "addr", "grouped"}

\* fixed payload width of a kind, 0 when variable
Width(kind) == CASE kind \in Kinds32 -> 4 [] kind \in Kinds64 -> 8 [] kind = "time" -> 4
                 [] kind = "ipv4" -> 4 [] kind = "ipv6" -> 16 [] OTHER -> 0

\* 2208988800 = seconds between 1900-01-01 and 1970-01-01 (RFC 868), as 8 bytes
Epoch1900x8 == <<0, 0, 0, 0, 131, 170, 126, 128>>
Epoch1900   == <<131, 170, 126, 128>>
\* NTP era 1 starts 2036-02-07T06:28:16Z = Unix 2085978496 = 0x7C558180 (RFC 5905 / RFC 6733 4.3.1)
Era1        == <<0, 0, 0, 0, 124, 85, 129, 128>>

(* semantic value -> payload bytes, per kind (RFC 6733 4.2, 4.3.1) *)
PayloadOf(kind, sem) ==
  CASE kind \in Kinds32 \cup Kinds64 -> LimbsToBytes(sem)
    [] kind = "time" -> Low(AddBytes(LimbsToBytes(sem), Epoch1900x8), 4)
    [] kind = "addr" -> Enc16(sem[1]) \o Tail(sem)
    [] OTHER -> sem

(* payload bytes -> semantic value.  Time: a value with the high bit set is *)
(* in era 0 (1968..2036), otherwise in era 1 (2036..2104).                  *)
ValueOf(kind, p) ==
  CASE kind \in Kinds32 \cup Kinds64 -> BytesToLimbs(p)
    [] kind = "time" ->
         BytesToLimbs(IF p[1] >= 128 THEN SubBytes(ZeroExt(p, 8), Epoch1900x8)
                                     ELSE AddBytes(ZeroExt(p, 8), Era1))
    [] kind = "addr" -> <<U16(p, 1)>> \o SubSeq(p, 3, Len(p))
    [] OTHER -> p

\* Unix times whose encoding decodes back to themselves: 1968-01-20T03:14:08Z .. 2104-02-26T09:42:23Z
TimeLo == <<255, 255, 255, 255, 252, 85, 129, 128>>   \* -61505152
TimeHi == <<0, 0, 0, 0, 252, 85, 129, 127>>           \* 4233462143
TimeInWindow(sem) == LET b == LimbsToBytes(sem)
                         sh == AddBytes(b, <<0,0,0,0, 3,170,126,128>>)  \* b + 61505152 must be in 0 .. 2^32-1
                     IN  SubSeq(sh, 1, 4) = <<0, 0, 0, 0>>

RECURSIVE EncAVP(_), EncAVPs(_)
EncAVPs(as) == FlattenSeq([i \in 1..Len(as) |-> EncAVP(as[i])])
EncAVP(a) ==
  LET payload == IF a.kind = "grouped" THEN EncAVPs(a.kids) ELSE PayloadOf(a.kind, a.sem)
      l == HdrLen(a.flags) + Len(payload)
  IN a.code \o <<a.flags>> \o Enc24(l)
     \o (IF HasV(a.flags) THEN a.vendor ELSE <<>>)
     \o payload \o Zeros(PadLen(l))

\* size on the wire of one AVP, padding included
RECURSIVE SizeAVP(_)
SizeAVP(a) == Len(EncAVP(a))

EncHdr(h, bodyLen) ==
  <<h.version>> \o Enc24(MsgHdrLen + bodyLen) \o <<h.flags>> \o h.cmd \o h.app \o h.hbh \o h.e2e
Enc(m) == LET body == EncAVPs(m.avps) IN EncHdr(m.hdr, Len(body)) \o body

DecHdr(b) == [version |-> b[1], length |-> U24(b, 2), flags |-> b[5], cmd |-> SubSeq(b, 6, 8),
              app |-> SubSeq(b, 9, 12), hbh |-> SubSeq(b, 13, 16), e2e |-> SubSeq(b, 17, 20)]

(***************************************************************************)
(* Frame: the AVP boundaries of a body, from the Length fields only.       *)
(* gset = set of <<code, vendor>> (vendor = zeros without V) whose payload *)
(* is itself a sequence of AVPs.  Result [ok, recs]; recs[i] = [code,      *)
(* flags, vendor, len, payload, kids].  Not ok when a declared length is   *)
(* below the AVP header size or runs past the enclosing container.         *)
(* Trailing padding cut short by the end of the container is accepted.     *)
(***************************************************************************)
NoVendor == <<0, 0, 0, 0>>
FrameBad == [ok |-> FALSE, recs |-> <<>>]
RECURSIVE Frame(_, _)
Frame(b, gset) ==
  IF Len(b) = 0 THEN [ok |-> TRUE, recs |-> <<>>]
  ELSE IF Len(b) < 8 THEN FrameBad
  ELSE LET flags == b[5]
           l     == U24(b, 6)
           hl    == HdrLen(flags)
       IN IF l < hl \/ l > Len(b) THEN FrameBad
          ELSE LET code    == SubSeq(b, 1, 4)
                   vendor  == IF HasV(flags) THEN SubSeq(b, 9, 12) ELSE NoVendor
                   payload == SubSeq(b, hl + 1, l)
                   inner   == IF <<code, vendor>> \in gset THEN Frame(payload, gset)
                              ELSE [ok |-> TRUE, recs |-> <<>>]
                   adv     == IF Pad4(l) > Len(b) THEN Len(b) ELSE Pad4(l)
                   rest    == Frame(SubSeq(b, adv + 1, Len(b)), gset)
               IN IF ~inner.ok \/ ~rest.ok THEN FrameBad
                  ELSE [ok |-> TRUE,
                        recs |-> <<[code |-> code, flags |-> flags, vendor |-> vendor, len |-> l,
                                    payload |-> payload, kids |-> inner.recs]>> \o rest.recs]

\* the frame an abstract AVP list must produce
RECURSIVE FrameOfAVPs(_)
FrameOfAVPs(as) ==
  [i \in 1..Len(as) |->
     LET a == as[i]
         payload == IF a.kind = "grouped" THEN EncAVPs(a.kids) ELSE PayloadOf(a.kind, a.sem)
     IN [code |-> a.code, flags |-> a.flags,
         vendor |-> IF HasV(a.flags) THEN a.vendor ELSE NoVendor,
         len |-> HdrLen(a.flags) + Len(payload), payload |-> payload,
         kids |-> IF a.kind = "grouped" THEN FrameOfAVPs(a.kids) ELSE <<>>]]

RECURSIVE GroupedKeys(_)
GroupedKeys(as) ==
  UNION {IF as[i].kind = "grouped"
           THEN {<<as[i].code, IF HasV(as[i].flags) THEN as[i].vendor ELSE NoVendor>>} \cup GroupedKeys(as[i].kids)
           ELSE {} : i \in 1..Len(as)}

\* structural well-formedness of an abstract AVP (what "valid for its data type" means)
RECURSIVE WFAVP(_)
WFAVP(a) ==
  /\ Len(a.code) = 4 /\ Len(a.vendor) = 4 /\ a.flags \in Byte
  /\ CASE a.kind \in Kinds32 -> Len(a.sem) = 2
       [] a.kind \in Kinds64 -> Len(a.sem) = 4
       [] a.kind = "time"    -> Len(a.sem) = 4 /\ TimeInWindow(a.sem)
       [] a.kind = "addr"    -> /\ Len(a.sem) >= 2 /\ a.sem[1] \in 1..65534
                                /\ (a.sem[1] = 1 => Len(a.sem) = 5) /\ (a.sem[1] = 2 => Len(a.sem) = 17)
       [] a.kind = "ipv4"    -> Len(a.sem) = 4
       [] a.kind = "ipv6"    -> Len(a.sem) = 16
       [] a.kind = "grouped" -> \A i \in 1..Len(a.kids) : WFAVP(a.kids[i])
       [] OTHER -> TRUE
=============================================================================
