------------------------------ MODULE WireGen ------------------------------
(***************************************************************************)
(* R2 for C01 / C02 / C04: a state machine whose states are abstract       *)
(* messages under assembly (AddAVP = one transition).  TLC enumerates      *)
(* every message over the shape classes below up to MaxAVPs AVPs, checks   *)
(* the reference codec against itself on each (R1: Frame(Enc) = identity,  *)
(* length book-keeping) and prints each one as a JSON case for the harness.*)
(***************************************************************************)
EXTENDS Wire, VDict, Json
CONSTANTS MaxAVPs,      \* longest AVP sequence under the primary header
          HdrAVPs,      \* longest AVP sequence under the other headers
          Rich          \* TRUE: every value class; FALSE: one value per kind (for longer sequences)

VARIABLE msg
vars == <<msg>>

C4(n) == Enc32(n)
V0 == <<0, 0, 0, 0>>
VV == C4(VVendor)

Leaf(code, flags, vendor, kind, sem) ==
  [code |-> C4(code), flags |-> flags, vendor |-> vendor, kind |-> kind, sem |-> sem, kids |-> <<>>]
Group(code, flags, vendor, kids) ==
  [code |-> C4(code), flags |-> flags, vendor |-> vendor, kind |-> "grouped", sem |-> <<>>, kids |-> kids]

Vals(k) ==
  CASE k = "u32"  -> << <<0, 0>>, <<65535, 65535>>, <<32768, 0>>, <<0, 1>> >>
    [] k = "i32"  -> << <<65535, 65535>>, <<32768, 0>>, <<32767, 65535>> >>
    [] k = "enum" -> << <<0, 0>>, <<65535, 65534>> >>
    [] k = "f32"  -> << <<32704, 1>>, <<0, 1>>, <<32768, 0>>, <<16256, 0>> >>
    [] k = "u64"  -> << <<0, 0, 0, 0>>, <<65535, 65535, 65535, 65535>>, <<1, 2, 3, 4>> >>
    [] k = "i64"  -> << <<32768, 0, 0, 0>>, <<65535, 65535, 65535, 65535>> >>
    [] k = "f64"  -> << <<32760, 0, 0, 1>>, <<0, 0, 0, 1>>, <<49152, 0, 0, 0>> >>
    [] k = "time" -> << <<0, 0, 0, 0>>, <<0, 0, 31829, 33151>>, <<0, 0, 31829, 33152>>,
                        <<65535, 65535, 64597, 33152>>, <<0, 0, 64597, 33151>> >>
    [] k = "addr" -> << <<1, 10, 0, 0, 1>>,
                        <<2, 32, 1, 13, 184, 0, 0, 0, 0, 0, 0, 0, 0, 0, 0, 0, 1>>,
                        <<8, 49, 50, 51, 52, 53>>,
                        <<2, 0, 0, 0, 0, 0, 0, 0, 0, 0, 0, 255, 255, 1, 2, 3, 4>>,
                        <<8, 49, 50>>,
                        <<3, 1, 2, 3, 4, 5, 6, 7, 8, 9, 10, 11, 12, 13, 14>> >>
    [] k = "octets" -> << <<>>, <<1>>, <<1, 2>>, <<1, 2, 3>>, <<1, 2, 3, 4>>, <<1, 2, 3, 4, 5>>, <<0, 0, 0, 0, 0, 0, 0, 255>> >>
    \* (the last two end in U+0000, which is a character like any other: one NUL, and NULs across a word boundary)
    [] k = "utf8"   -> << <<>>, <<97>>, <<97, 98, 99, 100, 101>>, <<97, 0>>, <<97, 98, 99, 0, 0>> >>
    [] k = "ident"  -> << <<104, 46, 120>>, <<>> >>
    [] k = "uri"    -> << <<97, 97, 97, 58, 47, 47, 104>> >>
    [] k = "ipfilter" -> << <<112, 101, 114, 109, 105, 116>> >>
    [] k = "qos"    -> << <<113>> >>
    [] k = "ipv4"   -> << <<1, 2, 3, 4>> >>
    [] k = "ipv6"   -> << <<32, 1, 13, 184, 0, 0, 0, 0, 0, 0, 0, 0, 0, 0, 0, 1>>,
                          <<0, 0, 0, 0, 0, 0, 0, 0, 0, 0, 255, 255, 1, 2, 3, 4>> >>

LeafKinds == {VKinds[i] : i \in 1..Len(VKinds)} \ {"grouped"}

\* every value class of every kind with the M flag; first value again with no flag, P, and as vendor twin
RichLeaves ==
  UNION {{Leaf(VCode(k), MFlag, V0, k, Vals(k)[i]) : i \in 1..Len(Vals(k))} : k \in LeafKinds}
  \cup {Leaf(VCode(k), 0, V0, k, Vals(k)[1]) : k \in {"u32", "octets", "addr"}}
  \cup {Leaf(VCode(k), PFlag + MFlag, V0, k, Vals(k)[1]) : k \in {"u32", "utf8"}}
  \cup {Leaf(VVCode(k), VFlag + MFlag, VV, k, Vals(k)[1]) : k \in LeafKinds}
  \cup {Leaf(VVCode("octets"), VFlag + MFlag + PFlag, VV, "octets", <<1, 2, 3>>)}
PoorLeaves ==
  {Leaf(VCode(k), MFlag, V0, k, Vals(k)[1]) : k \in {"u32", "u64", "time", "addr", "ident"}}
  \cup {Leaf(VCode("octets"), MFlag, V0, "octets", <<1, 2, 3>>), Leaf(VCode("utf8"), 0, V0, "utf8", <<97>>),
        Leaf(VVCode("octets"), VFlag + MFlag, VV, "octets", <<1, 2, 3, 4, 5>>)}

\* AVPs the dictionary does not define: carried as opaque data
Unknowns ==
  { [code |-> C4(7777), flags |-> 0, vendor |-> V0, kind |-> "unknown", sem |-> <<9, 8, 7>>, kids |-> <<>>],
    [code |-> C4(7778), flags |-> MFlag, vendor |-> V0, kind |-> "unknown", sem |-> <<>>, kids |-> <<>>],
    [code |-> C4(7779), flags |-> VFlag, vendor |-> C4(4242), kind |-> "unknown", sem |-> <<1, 2, 3, 4, 5>>, kids |-> <<>>],
    \* V flag with vendor id zero is legal on the wire
    [code |-> C4(7780), flags |-> VFlag + MFlag, vendor |-> V0, kind |-> "unknown", sem |-> <<1>>, kids |-> <<>>],
    \* a dictionary code sent under an unknown vendor is a different, undefined AVP
    [code |-> C4(VCode("u32")), flags |-> VFlag, vendor |-> C4(4242), kind |-> "unknown", sem |-> <<0, 0, 0, 7>>, kids |-> <<>>],
    \* so is a code of the BASE dictionary under an unknown vendor (the message belongs to another
    \* application): Result-Code, Event-Timestamp, Host-IP-Address, Vendor-Specific-Application-Id
    \* with payloads that are not values of those types
    [code |-> C4(268), flags |-> VFlag, vendor |-> C4(4242), kind |-> "unknown", sem |-> <<1, 2, 3>>, kids |-> <<>>],
    [code |-> C4(55), flags |-> VFlag + MFlag, vendor |-> C4(4242), kind |-> "unknown", sem |-> <<9>>, kids |-> <<>>],
    [code |-> C4(257), flags |-> VFlag, vendor |-> C4(193), kind |-> "unknown", sem |-> <<1>>, kids |-> <<>>],
    [code |-> C4(260), flags |-> VFlag, vendor |-> C4(193), kind |-> "unknown", sem |-> <<1, 2, 3, 4, 5>>, kids |-> <<>>],
    \* reserved flag bits are carried verbatim
    [code |-> C4(7781), flags |-> 31, vendor |-> V0, kind |-> "unknown", sem |-> <<1, 2>>, kids |-> <<>>] }

L1 == Leaf(VCode("octets"), MFlag, V0, "octets", <<1, 2, 3>>)
L2 == Leaf(VCode("u32"), MFlag, V0, "u32", <<0, 7>>)
L3 == Leaf(VVCode("addr"), VFlag + MFlag, VV, "addr", <<1, 10, 0, 0, 1>>)
L4 == Leaf(VCode("ipv4"), MFlag, V0, "ipv4", <<1, 2, 3, 4>>)
U1 == [code |-> C4(7777), flags |-> 0, vendor |-> V0, kind |-> "unknown", sem |-> <<9, 8, 7>>, kids |-> <<>>]
G(kids)  == Group(VCode("grouped"), MFlag, V0, kids)
G2(kids) == Group(VGroup2, MFlag, V0, kids)
GV(kids) == Group(VVCode("grouped"), VFlag + MFlag, VV, kids)
\* Failed-AVP (279): a group the BASE dictionary defines; its members are resolved in the message's application
GB(kids) == Group(279, MFlag, V0, kids)
Groups ==
  { G(<<>>), G(<<L1>>), G(<<L2, L1>>), G(<<L1, L2, L3>>), GV(<<L3>>), GV(<<>>),
    G(<<G2(<<>>)>>), G(<<G2(<<L1>>), L2>>), G(<<L1, G2(<<GV(<<L4, U1>>)>>)>>),
    G2(<<G(<<G2(<<L1>>)>>), G(<<>>)>>), G(<<U1, L4>>),
    GB(<<L2, L1>>), G(<<GB(<<L3>>)>>), GB(<<G2(<<L1>>), L4>>) }

Shapes == IF Rich THEN RichLeaves \cup Unknowns \cup Groups
          ELSE PoorLeaves \cup {U1, G(<<L1>>), G(<<G2(<<L1>>), L2>>), GV(<<L3>>), G(<<>>), GB(<<L2>>)}

H(v, f, app, hbh, e2e) == [version |-> v, flags |-> f, cmd |-> Enc24(VCmd), app |-> app, hbh |-> hbh, e2e |-> e2e]
Ids == { <<0, 0, 0, 0>>, <<0, 0, 0, 1>>, <<128, 0, 0, 0>>, <<255, 255, 255, 255>> }
H0 == H(1, 128, C4(VApp), <<1, 2, 3, 4>>, <<5, 6, 7, 8>>)
Hdrs == {H0}
        \cup {H(1, f, C4(VApp), <<1, 2, 3, 4>>, <<5, 6, 7, 8>>) : f \in {0, 64, 192, 32, 16, 240, 255, 15}}
        \cup {H(1, 128, C4(VApp), a, b) : a \in Ids, b \in Ids}
        \cup {H(v, 128, C4(VApp), <<1, 2, 3, 4>>, <<5, 6, 7, 8>>) : v \in {0, 2, 255}}
        \* command codes with the top bit of the 24-bit field set (defined in the verification dictionary)
        \cup {[H0 EXCEPT !.cmd = Enc24(c)] : c \in {8388635, 16777214}}

Init == msg \in {[hdr |-> h, avps |-> <<>>] : h \in Hdrs}
Limit(m) == IF m.hdr = H0 THEN MaxAVPs ELSE HdrAVPs
Next == /\ Len(msg.avps) < Limit(msg)
        /\ \E a \in Shapes : msg' = [msg EXCEPT !.avps = Append(@, a)]
Spec == Init /\ [][Next]_vars

(* R1: the reference codec is consistent with itself on every generated message *)
WF == \A i \in 1..Len(msg.avps) : WFAVP(msg.avps[i])
SelfConsistent ==
  LET body == EncAVPs(msg.avps) b == Enc(msg) IN
  /\ Frame(body, GroupedKeys(msg.avps)) = [ok |-> TRUE, recs |-> FrameOfAVPs(msg.avps)]
  /\ Len(b) = MsgHdrLen + Len(body) /\ Len(b) % 4 = 0 /\ IsBytes(b)
  /\ DecHdr(b).length = Len(b) /\ DecHdr(b).hbh = msg.hdr.hbh /\ DecHdr(b).e2e = msg.hdr.e2e
  /\ \A i \in 1..Len(msg.avps) : LET a == msg.avps[i] IN
        a.kind # "grouped" => ValueOf(a.kind, PayloadOf(a.kind, a.sem)) = a.sem

\* R2: one JSON case per distinct state; reference bytes are included for short messages
Emit == PrintT(ToJson([m |-> msg, dict |-> "v", src |-> "gen",
                       bytes |-> IF Len(msg.avps) <= 1 THEN Enc(msg) ELSE <<>>]))
=============================================================================
