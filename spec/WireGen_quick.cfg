CONSTANTS MaxAVPs = 2
  HdrAVPs = 1
  Rich = TRUE
INIT Init
NEXT Next
INVARIANTS WF SelfConsistent Emit
CHECK_DEADLOCK FALSE
