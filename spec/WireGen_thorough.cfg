CONSTANTS MaxAVPs = 4
  HdrAVPs = 1
  Rich = FALSE
INIT Init
NEXT Next
INVARIANTS WF SelfConsistent Emit
CHECK_DEADLOCK FALSE
