----------------------------- MODULE WireTrace -----------------------------
(***************************************************************************)
(* R3 for C01 / C02: every line recorded by the codec driver (what the     *)
(* real library produced for an abstract message) is checked against the   *)
(* reference codec.  The spec is total: it consumes every line and prints  *)
(* <<"BADLINE", l, reasons>> for a rejected one.                           *)
(*   enc    bytes emitted by the library  # Wire!Enc(message)       (C02)  *)
(*   hlen   Header.MessageLength after assembly # serialised size   (C02)  *)
(*   wenc   bytes written by WriteTo (pooled buffer) # Wire!Enc      (C02)  *)
(*   lenbook MessageLength / order after an assembly operation      (C02)  *)
(*   wser   WriteTo and Serialize disagree on the bytes of a message (C01)  *)
(*   build  the API refused / panicked on a well-formed message     (C01)  *)
(*   read   the library could not read its own / the reference bytes(C01)  *)
(*   dhdr   header read back differs                                (C01)  *)
(*   davps  AVP tree read back differs (code,flags,vendor,kind,value,kids) *)
(*   reser  serialising the message read does not reproduce the bytes(C01) *)
(***************************************************************************)
EXTENDS Wire, VDict, Json, TLC
LB == INSTANCE LenBook WITH MaxOps <- 0, Lens <- {}, FullDepth <- 0, LateOps <- {}, order <- <<>>, hlen <- 0, hist <- <<>>

Trace == ndJsonDeserialize("trace.ndjson")

VARIABLE l
Init == l = 1

WFMsg(m) == \A i \in 1..Len(m.avps) : WFAVP(m.avps[i])

Reasons(e) ==
  IF e.ev = "vdict" THEN
     IF {e.entries[i] : i \in 1..Len(e.entries)} = VDictTable THEN <<>> ELSE <<"vdict">>
  ELSE IF e.ev = "lenbook" THEN
     LET st == LB!StartOrder(e.start)
         want == LB!Replay(st, 20 + LB!SumSizes(st), e.ops, 1)
     IN IF /\ Len(e.after) = Len(want)
           /\ \A k \in 1..Len(want) :
                 /\ e.after[k].hlen = want[k].hlen /\ e.after[k].slen = want[k].hlen /\ e.after[k].wsame
                 /\ e.after[k].order = [j \in 1..Len(want[k].order) |-> want[k].order[j].id]
        THEN <<>> ELSE <<"lenbook">>
  ELSE IF ~WFMsg(e.m) THEN <<"generator-not-wf">>
  ELSE IF ~e.built THEN <<"build">>
  ELSE LET ref == Enc(e.m) IN
       (IF e.bytes # ref THEN <<"enc">> ELSE <<>>)
    \o (IF e.ev = "msg" /\ e.hlen # Len(e.bytes) THEN <<"hlen">> ELSE <<>>)
    \o (IF e.ev = "msg" /\ e.wbytes # ref THEN <<"wenc">> ELSE <<>>)
    \o (IF e.ev = "msg" /\ e.wbytes # e.bytes THEN <<"wser">> ELSE <<>>)
    \o (IF ~e.rok THEN <<"read">>
        ELSE (IF e.dhdr # e.m.hdr \/ e.dlen # Len(e.bytes) THEN <<"dhdr">> ELSE <<>>)
          \o (IF e.davps # e.m.avps THEN <<"davps">> ELSE <<>>)
          \o (IF e.bytes2 # e.bytes THEN <<"reser">> ELSE <<>>))

Next == /\ l <= Len(Trace)
        /\ l' = l + 1
        /\ LET r == Reasons(Trace[l]) IN r = <<>> \/ PrintT(<<"BADLINE", l, r>>)
=============================================================================
