-------------------------------- MODULE Write --------------------------------
(***************************************************************************)
(* WriteObs (C07) on recorded scenarios.                                   *)
(*                                                                         *)
(* Retry: RetryRun(len, outcomes, retries) is the reference retry loop of  *)
(* the statement: an outcome is [acc, err] with err in "none" | "tmp" |    *)
(* "perm"; after a temporary error the REMAINING bytes - and only those -  *)
(* are offered again while the budget lasts.  Result: [sent (bytes the     *)
(* transport accepted in total), err (final), offers (sequence of [off,    *)
(* len] = which slice of the message each transport Write was given)].     *)
(***************************************************************************)
EXTENDS Integers, Sequences, FiniteSets, TLC

RECURSIVE RetryFrom(_, _, _, _, _)
RetryFrom(len, outcomes, retries, k, off) ==
  IF k > Len(outcomes) THEN [sent |-> off, err |-> "exhausted-script", offers |-> <<>>]
  ELSE LET o == outcomes[k]
           acc == IF o.err = "none" THEN len - off ELSE IF o.acc > len - off THEN len - off ELSE o.acc
           here == <<[off |-> off, len |-> len - off]>>
       IN IF o.err = "none" THEN [sent |-> off + acc, err |-> "none", offers |-> here]
          ELSE IF retries = 0 \/ o.err = "perm" THEN [sent |-> off + acc, err |-> o.err, offers |-> here]
          ELSE LET r == RetryFrom(len, outcomes, retries - 1, k + 1, off + acc)
               IN [sent |-> r.sent, err |-> r.err, offers |-> here \o r.offers]
RetryRun(len, outcomes, retries) == RetryFrom(len, outcomes, retries, 1, 0)

\* e: [len, outcomes, retries, obs: [offers, transported (bytes equal the message prefix?), sent, n, err, later_ok]]
RetryReasons(e) ==
  LET x == RetryRun(e.len, e.outcomes, e.retries) IN
     (IF e.obs.err = "panic" THEN <<"panic">> ELSE <<>>)
  \o (IF e.obs.offers # x.offers THEN <<IF Len(e.obs.offers) > Len(x.offers) THEN "extra-write" ELSE IF Len(e.obs.offers) < Len(x.offers) THEN "no-retry" ELSE "wrong-slice-resent">> ELSE <<>>)
  \o (IF ~e.obs.prefix_ok THEN <<"bytes-not-a-prefix">> ELSE <<>>)
  \o (IF e.obs.sent # x.sent THEN <<"bytes-sent">> ELSE <<>>)
  \o (IF (e.obs.err = "none") # (x.err = "none") THEN <<"result">> ELSE <<>>)
  \o (IF e.obs.offers = x.offers /\ e.obs.n # x.sent THEN <<"count-returned">> ELSE <<>>)

(* Concurrency: e.obs = [maxconc (max simultaneous transport writes), msgs  *)
(* (sequence of [w, m, whole] parsed from the transport stream), rest       *)
(* (unparsed trailing bytes), errors] for writers x msgs_per_writer.        *)
ConcReasons(e) ==
  LET ms == e.obs.msgs IN
     (IF e.obs.maxconc > 1 THEN <<"concurrent-transport-writes">> ELSE <<>>)
  \o (IF e.obs.rest # 0 \/ \E i \in 1..Len(ms) : ~ms[i].whole THEN <<"interleaved-or-torn">> ELSE <<>>)
  \o (IF \E i \in 1..Len(ms), j \in 1..Len(ms) : i # j /\ ms[i].w = ms[j].w /\ ms[i].m = ms[j].m THEN <<"duplicated">> ELSE <<>>)
  \o (IF \E w \in 1..e.writers, m \in 1..e.per : ~(\E i \in 1..Len(ms) : ms[i].w = w /\ ms[i].m = m) THEN <<"lost">> ELSE <<>>)
  \o (IF \E i \in 1..Len(ms), j \in 1..Len(ms) : i < j /\ ms[i].w = ms[j].w /\ ms[i].m > ms[j].m THEN <<"writer-order">> ELSE <<>>)
  \o (IF e.obs.errors # 0 THEN <<"write-error">> ELSE <<>>)
=============================================================================
