------------------------------ MODULE WriteGen ------------------------------
(* R2 for C07: every sequence of (bytes accepted, error) outcomes within the retry budget, as a state machine; *)
(* and concurrency schedules (who is stalled inside the transport while whom is started).                      *)
EXTENDS Write, Json
CONSTANTS MaxOutcomes, Accs, MaxRetries
VARIABLES outs, retries, done
vars == <<outs, retries, done>>
Init == outs = <<>> /\ retries \in 0..MaxRetries /\ done = FALSE
Next == /\ ~done /\ Len(outs) < MaxOutcomes
        /\ \E e \in {"none", "tmp", "perm"} : \E a \in Accs :
             /\ (e = "none" => a = 0)
             /\ outs' = Append(outs, [acc |-> a, err |-> e])
             /\ done' = (e \in {"none", "perm"} \/ Len(outs) >= retries)
             /\ UNCHANGED retries
\* R1: the reference loop never offers a byte twice and never more than the message
Sound == LET x == RetryRun(44, outs, retries) IN
         /\ x.sent <= 44
         /\ \A i \in 1..Len(x.offers) : x.offers[i].off + x.offers[i].len = 44
         /\ \A i \in 1..(Len(x.offers) - 1) : x.offers[i].off <= x.offers[i + 1].off
Emit == ~done \/ PrintT(ToJson([kind |-> "retry", outcomes |-> outs, retries |-> retries]))
=============================================================================
