CONSTANTS MaxOutcomes = 4
  Accs = {0, 10, 43}
  MaxRetries = 3
INIT Init
NEXT Next
INVARIANTS Sound Emit
CHECK_DEADLOCK FALSE
