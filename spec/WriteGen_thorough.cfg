CONSTANTS MaxOutcomes = 5
  Accs = {0, 1, 10, 43}
  MaxRetries = 4
INIT Init
NEXT Next
INVARIANTS Sound Emit
CHECK_DEADLOCK FALSE
