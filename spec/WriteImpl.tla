----------------------------- MODULE WriteImpl -----------------------------
(***************************************************************************)
(* Implementation-shaped model of concurrent writers on one connection     *)
(* (C07): response.Write = Lock; hand the serialised message to the        *)
(* transport in one or more transport Write calls, each of which may       *)
(* stall; Unlock (diam/server.go).  Sensitivity configurations: UseLock =  *)
(* FALSE (mutex removed); LockPerPart = TRUE (the mutex is taken for each  *)
(* transport write and released in between: still one transport write at   *)
(* a time, but another writer's message can land inside a long one).       *)
(* The transport stream is a sequence of units [w, m, part]; a message is  *)
(* Parts units long.                                                       *)
(***************************************************************************)
EXTENDS Integers, Sequences, FiniteSets, TLC
CONSTANTS Writers, MsgsPerWriter, Parts, UseLock, LockPerPart
VARIABLES pc,       \* writer -> "idle" | "locked" | "inwrite" | "done"
          cur,      \* writer -> index of the message being written
          part,     \* writer -> next part to hand to the transport
          lock,     \* 0 or the writer holding response.mu
          stream,   \* units accepted by the transport, in order
          inflight  \* set of writers currently inside a transport Write
vars == <<pc, cur, part, lock, stream, inflight>>
Init == /\ pc = [w \in Writers |-> "idle"] /\ cur = [w \in Writers |-> 1] /\ part = [w \in Writers |-> 1]
        /\ lock = 0 /\ stream = <<>> /\ inflight = {}
Acquire(w) == /\ pc[w] \in {"idle", "relock"} /\ cur[w] <= MsgsPerWriter /\ (~UseLock \/ lock = 0)
              /\ lock' = (IF UseLock THEN w ELSE lock) /\ pc' = [pc EXCEPT ![w] = "locked"]
              /\ UNCHANGED <<cur, part, stream, inflight>>
\* enter a transport Write (it may stall here for any time)
Begin(w) == /\ pc[w] = "locked" /\ pc' = [pc EXCEPT ![w] = "inwrite"] /\ inflight' = inflight \cup {w}
            /\ UNCHANGED <<cur, part, lock, stream>>
\* the transport accepts the part
End(w) == /\ pc[w] = "inwrite"
          /\ stream' = Append(stream, [w |-> w, m |-> cur[w], part |-> part[w]])
          /\ inflight' = inflight \ {w}
          /\ IF part[w] < Parts
             THEN /\ part' = [part EXCEPT ![w] = @ + 1] /\ UNCHANGED cur
                  /\ IF LockPerPart THEN pc' = [pc EXCEPT ![w] = "relock"] /\ lock' = (IF UseLock THEN 0 ELSE lock)
                     ELSE pc' = [pc EXCEPT ![w] = "locked"] /\ UNCHANGED lock
             ELSE /\ part' = [part EXCEPT ![w] = 1] /\ cur' = [cur EXCEPT ![w] = @ + 1]
                  /\ pc' = [pc EXCEPT ![w] = "idle"] /\ lock' = (IF UseLock THEN 0 ELSE lock)
Next == \E w \in Writers : Acquire(w) \/ Begin(w) \/ End(w)
Spec == Init /\ [][Next]_vars

\* WriteObs at design level
OneTransportWriteAtATime == Cardinality(inflight) <= 1
\* the stream is a concatenation of whole messages plus a prefix of one
RECURSIVE Whole(_, _)
Whole(s, k) == IF k > Len(s) THEN TRUE
               ELSE /\ s[k].part = 1
                    /\ \A j \in 1..(Parts - 1) : k + j <= Len(s) => (s[k + j].w = s[k].w /\ s[k + j].m = s[k].m /\ s[k + j].part = j + 1)
                    /\ Whole(s, k + Parts)
WholeMessages == Whole(stream, 1)
PerWriterOrder == \A i \in 1..Len(stream), j \in 1..Len(stream) :
                     (i < j /\ stream[i].w = stream[j].w) => stream[i].m <= stream[j].m
ExactlyOnce == \A i \in 1..Len(stream), j \in 1..Len(stream) : (i # j) => stream[i] # stream[j]
=============================================================================
