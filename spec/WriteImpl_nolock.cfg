CONSTANTS Writers = {1, 2, 3}
  MsgsPerWriter = 2
  Parts = 2
  UseLock = FALSE
  LockPerPart = FALSE
INIT Init
NEXT Next
INVARIANTS WholeMessages
CHECK_DEADLOCK FALSE
