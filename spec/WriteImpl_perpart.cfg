CONSTANTS Writers = {1, 2, 3}
  MsgsPerWriter = 2
  Parts = 2
  UseLock = TRUE
  LockPerPart = TRUE
INIT Init
NEXT Next
INVARIANTS OneTransportWriteAtATime WholeMessages
CHECK_DEADLOCK FALSE
