------------------------------ MODULE WriteTrace ------------------------------
EXTENDS Write, Json
Trace == ndJsonDeserialize("trace.ndjson")
VARIABLE l
Init == l = 1
Next == /\ l <= Len(Trace)
        /\ l' = l + 1
        /\ LET e == Trace[l]  r == IF e.ev = "retry" THEN RetryReasons(e) ELSE ConcReasons(e) IN
           r = <<>> \/ PrintT(<<"BADLINE", l, r>>)
=============================================================================
